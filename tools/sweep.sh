#!/bin/bash
# sweep.sh <tier> <seed...>  — run every check at the given tier and seeds; print one line per run
TIER="$1"; shift
cd "$(dirname "$0")/.."
for seed in "$@"; do
  for p in C01 C02 C03 C04 C05 C06 C07 C08 C09 C10 C11 C12 C13 C14 C15 C16 C17 C18 C19 C20; do
    s=$(date +%s)
    out=$(VERIF_SEED=$seed ./check.sh $p $TIER 2>&1); rc=$?
    e=$(date +%s)
    echo "seed=$seed $p exit=$rc $((e-s))s :: $(echo "$out" | grep -v '^KNOWN-FINDING' | tail -1 | cut -c1-200)"
    if [ $rc -ne 0 ]; then echo "$out" | head -30; fi
  done
done
