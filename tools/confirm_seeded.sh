#!/bin/bash
# confirm_seeded.sh <src-dir> <PROP> [extra props...]  — confirm a seeded change in a fresh scratch worktree of /repo HEAD:
# demo passes on clean HEAD, suite passes with the change, demo fails with the change; then run the checks against it.
# Writes /verif/seeded/<id>/{patch.diff,demo_test.go,notes.md,meta.json}.
set -u
export GOFLAGS=-mod=mod GOPROXY=off GOSUMDB=off GOTOOLCHAIN=local
SRC="$1"; shift; PROPS="$@"
ID="$(basename "$SRC")"
WT="/tmp/wt/confirm-$ID"
git -C /repo worktree remove --force "$WT" >/dev/null 2>&1
git -C /repo worktree add -q --detach "$WT" HEAD || exit 9
HEAD=$(git -C /repo rev-parse --short HEAD)
cp "$SRC/demo_test.go" "$WT/demo_test.go"
CLEAN=$(cd "$WT" && go test -vet=off -count=1 -run "TestSeeded_$ID" ./... 2>&1 | tail -1)
rm -f "$WT/demo_test.go"
if ! git -C "$WT" apply "$SRC/patch.diff"; then echo "$ID: patch does not apply to $HEAD"; git -C /repo worktree remove --force "$WT"; exit 9; fi
SUITE=$(cd "$WT" && go test -vet=off -count=1 ./... 2>&1 | tail -1)
SUITEV=$(cd "$WT" && go test -tags verif -vet=off -count=1 ./... 2>&1 | tail -1)
cp "$SRC/demo_test.go" "$WT/demo_test.go"
DEMO=$(cd "$WT" && go test -vet=off -count=1 -run "TestSeeded_$ID" ./... 2>&1 | tail -1)
rm -f "$WT/demo_test.go"
RES=""
for P in $PROPS; do
  OUT=$(cd /verif && VERIF_EVIDENCE_DIR=/tmp/evidence-scratch VERIF_REPO="$WT" ./check.sh "$P" quick 2>&1); RC=$?
  SIGS=$(echo "$OUT" | grep '^  signature:' | sed 's/^  signature: //' | sort -u | head -5 | tr '\n' ';')
  RES="$RES{\"check\":\"$P\",\"tier\":\"quick\",\"exit\":$RC,\"signatures\":\"$SIGS\"},"
  echo "$ID check=$P exit=$RC sigs=$SIGS"
done
git -C /repo worktree remove --force "$WT"
mkdir -p "/verif/seeded/$ID"
cp "$SRC/patch.diff" "$SRC/demo_test.go" "/verif/seeded/$ID/"
[ -f "$SRC/notes.md" ] && cp "$SRC/notes.md" "/verif/seeded/$ID/"
python3 - "$ID" "$HEAD" "$CLEAN" "$SUITE" "$SUITEV" "$DEMO" "[${RES%,}]" <<'PY'
import json,sys,re
id,head,clean,suite,suitev,demo,res=sys.argv[1:8]
notes=''
try: notes=open(f'/verif/seeded/{id}/notes.md').read()
except Exception: pass
needs=''
m=re.search(r'(?is)(needs?[^\n]*manifest[^\n]*\n(?:.*\n){0,8})',notes)
meta={
 "id":id,"breaks_property":id[:3],
 "needs_to_manifest":"see notes.md (written by the sub-agent that produced the change)",
 "confirmed_against_repo_commit":head,
 "what_i_ran":{
   "demo_on_clean_head":clean.strip(),
   "existing_suite_with_change":suite.strip(),
   "existing_suite_with_change_tags_verif":suitev.strip(),
   "demo_with_change":demo.strip(),
   "checks":json.loads(res)},
 "confirmed": clean.strip().startswith('ok') and suite.strip().startswith('ok') and ('FAIL' in demo),
}
json.dump(meta,open(f'/verif/seeded/{id}/meta.json','w'),indent=1)
print(id,'confirmed=',meta['confirmed'])
PY
