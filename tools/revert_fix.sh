#!/bin/bash
# revert_fix.sh <commit> <PROP...> — scratch worktree of /repo HEAD with one fix commit reverted; run the checks against it
set -u
export GOFLAGS=-mod=mod GOPROXY=off GOSUMDB=off GOTOOLCHAIN=local
C="$1"; shift
WT="/tmp/wt/revert-$C"
git -C /repo worktree remove --force "$WT" >/dev/null 2>&1
git -C /repo worktree add -q --detach "$WT" HEAD || exit 9
if ! git -C "$WT" revert -n "$C" >/dev/null 2>&1; then echo "revert of $C conflicts"; git -C /repo worktree remove --force "$WT"; exit 9; fi
SUITE=$(cd "$WT" && go test -vet=off -count=1 ./... 2>&1 | tail -1)
for P in "$@"; do
  for seed in 1 5; do
  OUT=$(cd /verif && VERIF_SEED=$seed VERIF_REPO="$WT" ./check.sh "$P" quick 2>&1); RC=$?
  SIGS=$(echo "$OUT" | grep '^  signature:' | sed 's/^  signature: //' | sort -u | head -4 | tr '\n' ';')
  PIN=$(echo "$OUT" | grep '^VIOLATION' | grep -c 'pinned')
  echo "revert $C ($(git -C /repo log --format=%s -1 $C | cut -c1-50)) suite=[$SUITE] check=$P seed=$seed exit=$RC pinned_hits=$PIN sigs=$SIGS"
  done
done
git -C /repo worktree remove --force "$WT"
