#!/usr/bin/env python3
# validate MANIFEST.json and all evidence files against the schemas (run with python3-vt: the tooling venv has jsonschema)
import json, sys, glob, jsonschema
ok = True
m = json.load(open('/verif/MANIFEST.json'))
jsonschema.validate(m, json.load(open('/root/.vp/MANIFEST.schema.json')))
print('MANIFEST ok:', len(m['checks']), 'checks')
es = json.load(open('/root/.vp/EVIDENCE.schema.json'))
for c in m['checks']:
    f = c['evidence_file']
    try:
        e = json.load(open(f))
        jsonschema.validate(e, es)
        print('  ', c['property_id'], 'evidence ok', e['tier'], 'seed', e['seed'], 'evals', e['coverage']['evaluations'], 'distinct', e['coverage']['distinct_nontrivial'], 'viol', e.get('violations'), e['coverage'].get('verdict'))
    except Exception as ex:
        ok = False
        print('  ', c['property_id'], 'EVIDENCE PROBLEM', str(ex)[:200])
sys.exit(0 if ok else 1)
