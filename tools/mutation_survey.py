#!/usr/bin/env python3
"""Mutation survey (development aid, not a registered check).

stage1: every syntactic mutant of the library (harness/cmd/mutgen) is compiled and run against the library's own
        test suite in scratch copies under /tmp/mut; result per mutant: nocompile / suite-killed / suite-survived.
stage2: every suite-survived mutant (a change that still compiles and passes the existing tests) is given to the quick
        checks, cheapest first, until one reports a violation; result: the first check that noticed, or 'survived'.

usage: mutation_survey.py stage1 [workers]      -> /tmp/mut/stage1.jsonl
       mutation_survey.py stage2 [lanes]        -> /tmp/mut/stage2.jsonl
       mutation_survey.py report                -> prints a summary table (markdown)
Nothing is written under /repo or /verif; scratch copies are removed at the end of each stage.
"""
import json, os, shutil, subprocess, sys, threading, queue, time

ENV = dict(os.environ, GOFLAGS='-mod=mod', GOPROXY='off', GOSUMDB='off', GOTOOLCHAIN='local')
MUT = '/tmp/mut'
REPO = '/tmp/mut/src'   # frozen snapshot of /repo's working tree, taken by 'snapshot' (so that a later fix in /repo does not shift mutant ids)
VERIF = os.path.dirname(os.path.dirname(os.path.abspath(__file__)))
ORDER = 'C05 C06 C09 C08 C11 C13 C19 C07 C17 C01 C02 C03 C10 C12 C14 C20 C16 C04 C18 C15'.split()


def sh(cmd, cwd=None, env=None, timeout=None):
    try:
        p = subprocess.run(cmd, cwd=cwd, env=env or ENV, stdout=subprocess.PIPE, stderr=subprocess.STDOUT, timeout=timeout)
        return p.returncode, p.stdout.decode('utf-8', 'replace')
    except subprocess.TimeoutExpired as e:
        return 124, (e.stdout or b'').decode('utf-8', 'replace') + '\nTIMEOUT'


def copy_repo(dst):
    shutil.rmtree(dst, ignore_errors=True)
    shutil.copytree(REPO, dst, ignore=shutil.ignore_patterns('.git'))


def snapshot():
    os.makedirs(MUT, exist_ok=True)
    shutil.rmtree(REPO, ignore_errors=True)
    shutil.copytree('/repo', REPO, ignore=shutil.ignore_patterns('.git'))
    rc, out = sh(['git', '-C', '/repo', 'rev-parse', '--short', 'HEAD'])
    open(MUT + '/snapshot_commit', 'w').write(out.strip())


def stable_keys(muts):
    """(file, func, op, before, after, k-th such mutant in that func): survives edits elsewhere in the file"""
    seen = {}
    out = {}
    for m in sorted(muts, key=lambda m: m['id']):
        base = (m['file'], m['func'], m['op'], m['before'], m['after'])
        k = seen.get(base, 0)
        seen[base] = k + 1
        out[m['id']] = base + (k,)
    return out


def carry_over(stage, muts, changed_funcs):
    """results of an earlier survey (in MUT/old) are reused for mutants outside the functions changed since"""
    oldp = f'{MUT}/old/{stage}.jsonl'
    if not os.path.exists(oldp):
        return []
    old = [json.loads(l) for l in open(oldp)]
    okeys = stable_keys([json.loads(l) for l in open(f'{MUT}/old/stage1.jsonl')])
    byk = {okeys[m['id']]: m for m in old if m['id'] in okeys}
    nkeys = stable_keys(muts)
    out = []
    for m in muts:
        k = nkeys[m['id']]
        if m['func'] in changed_funcs or k not in byk:
            continue
        o = dict(byk[k])
        o['id'], o['line'] = m['id'], m['line']
        o['carried_over'] = True
        out.append(o)
    return out


def build_mutgen():
    os.makedirs(MUT, exist_ok=True)
    rc, out = sh(['go', 'build', '-o', MUT + '/mutgen', './cmd/mutgen'], cwd=VERIF + '/harness')
    if rc != 0:
        sys.exit(out)
    rc, out = sh([MUT + '/mutgen', '-src', REPO, '-list'])
    return [json.loads(l) for l in out.splitlines() if l.startswith('{')]


def done_ids(path):
    ids = set()
    if os.path.exists(path):
        for l in open(path):
            ids.add(json.loads(l)['id'])
    return ids


def stage1(workers):
    muts = build_mutgen()
    outp = MUT + '/stage1.jsonl'
    if not os.path.exists(outp):
        with open(outp, 'w') as f:
            for o in carry_over('stage1', muts, CHANGED):
                f.write(json.dumps(o) + '\n')
    skip = done_ids(outp)
    q = queue.Queue()
    for m in muts:
        if m['id'] not in skip:
            q.put(m)
    lock = threading.Lock()
    outf = open(outp, 'a')

    def work(k):
        d = f'{MUT}/w{k}'
        copy_repo(d)
        while True:
            try:
                m = q.get_nowait()
            except queue.Empty:
                break
            sh([MUT + '/mutgen', '-src', REPO, '-apply', str(m['id']), '-dst', d])
            rc, out = sh(['go', 'test', '-vet=off', '-count=1', '-timeout', '90s', './...'], cwd=d, timeout=200)
            if 'build failed' in out or 'setup failed' in out:
                res = 'nocompile'
            elif rc == 0:
                res = 'suite-survived'
            else:
                res = 'suite-killed'
            shutil.copy(f"{REPO}/{m['file']}", f"{d}/{m['file']}")
            m['stage1'] = res
            with lock:
                outf.write(json.dumps(m) + '\n')
                outf.flush()
        shutil.rmtree(d, ignore_errors=True)

    ts = [threading.Thread(target=work, args=(k,)) for k in range(workers)]
    [t.start() for t in ts]
    [t.join() for t in ts]


def stage2(lanes):
    build_mutgen()
    s1 = [json.loads(l) for l in open(MUT + '/stage1.jsonl')]
    todo = [m for m in s1 if m['stage1'] == 'suite-survived']
    outp = MUT + '/stage2.jsonl'
    if not os.path.exists(outp):
        with open(outp, 'w') as f:
            for o in carry_over('stage2', s1, CHANGED):
                if o['id'] in {m['id'] for m in todo}:
                    f.write(json.dumps(o) + '\n')
    skip = done_ids(outp)
    q = queue.Queue()
    for m in sorted(todo, key=lambda m: m['id']):
        if m['id'] not in skip:
            q.put(m)
    lock = threading.Lock()
    outf = open(outp, 'a')

    def work(k):
        d = f'{MUT}/s{k}'
        v = f'{MUT}/verif{k}'
        copy_repo(d)
        shutil.rmtree(v, ignore_errors=True)
        shutil.copytree(VERIF, v, ignore=shutil.ignore_patterns('.git', '.build', '.work', 'replays', 'seeded'))
        env = dict(ENV, VERIF_REPO=d, VERIF_NOCOVER='1')
        while True:
            try:
                m = q.get_nowait()
            except queue.Empty:
                break
            sh([MUT + '/mutgen', '-src', REPO, '-apply', str(m['id']), '-dst', d])
            m['runs'] = []
            m['killed_by'] = None
            t0 = time.time()
            for p in ORDER:
                rc, out = sh([v + '/check.sh', p, 'quick'], env=env, timeout=1500)
                viol = [l for l in out.splitlines() if l.startswith('VIOLATION')]
                m['runs'].append([p, rc])
                if rc == 1 and viol:
                    m['killed_by'] = p
                    m['signature'] = (out.split('VIOLATION', 1)[1][:400])
                    break
                if rc not in (0, 1):
                    m.setdefault('odd', []).append([p, rc, out[-300:]])
            m['seconds'] = round(time.time() - t0, 1)
            shutil.copy(f"{REPO}/{m['file']}", f"{d}/{m['file']}")
            shutil.rmtree(v + '/replays', ignore_errors=True)
            with lock:
                outf.write(json.dumps(m) + '\n')
                outf.flush()
        shutil.rmtree(d, ignore_errors=True)
        shutil.rmtree(v, ignore_errors=True)

    ts = [threading.Thread(target=work, args=(k,)) for k in range(lanes)]
    [t.start() for t in ts]
    [t.join() for t in ts]


def report():
    s1 = [json.loads(l) for l in open(MUT + '/stage1.jsonl')]
    from collections import Counter
    c1 = Counter(m['stage1'] for m in s1)
    print('stage 1:', dict(c1), 'of', len(s1))
    p2 = MUT + '/stage2.jsonl'
    if not os.path.exists(p2):
        return
    s2 = [json.loads(l) for l in open(p2)]
    kb = Counter(m['killed_by'] or 'survived' for m in s2)
    print('stage 2:', len(s2), 'suite-surviving mutants;', dict(kb))
    print()
    for m in s2:
        if not m['killed_by']:
            print(f"SURVIVOR id={m['id']} {m['file']}:{m['line']} {m['func']} [{m['op']}] {m['before']!r} -> {m['after']!r}")


CHANGED = set(os.environ.get('MUT_CHANGED_FUNCS', '').split(',')) - {''}

if __name__ == '__main__':
    cmd = sys.argv[1]
    if cmd == 'snapshot':
        snapshot()
        sys.exit(0)
    n = int(sys.argv[2]) if len(sys.argv) > 2 else 0
    if cmd == 'stage1':
        stage1(n or 10)
    elif cmd == 'stage2':
        stage2(n or 2)
    else:
        report()
