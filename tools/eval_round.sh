#!/bin/bash
# eval_round.sh <seeded-dir> <verif-dir> <id...> — run the own-property quick check of <verif-dir> against each seeded change
export GOFLAGS=-mod=mod GOPROXY=off GOSUMDB=off GOTOOLCHAIN=local
SD="$1"; VD="$2"; shift; shift
for ID in "$@"; do
  P=${ID:0:3}
  WT=/tmp/wt/eval-$ID
  git -C /repo worktree remove --force $WT >/dev/null 2>&1
  git -C /repo worktree add -q --detach $WT HEAD
  if ! git -C $WT apply $SD/$ID/patch.diff 2>/dev/null; then echo "$ID patch-does-not-apply"; git -C /repo worktree remove --force $WT; continue; fi
  OUT=$(cd $VD && VERIF_EVIDENCE_DIR=/tmp/evidence-scratch VERIF_REPO=$WT ./check.sh $P quick 2>&1); RC=$?
  SIGS=$(echo "$OUT" | grep '^  signature:' | sed 's/^  signature: //' | sort -u | head -3 | tr '\n' ';')
  echo "$ID $(basename $VD) exit=$RC $SIGS"
  git -C /repo worktree remove --force $WT
done
