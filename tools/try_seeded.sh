#!/bin/bash
# try_seeded.sh <dir-with-patch.diff> <worktree> <PROP> [tier]   — apply a seeded change to a scratch worktree,
# confirm (suite passes, demo fails), run the property's check against it, undo.
set -u
export GOFLAGS=-mod=mod GOPROXY=off GOSUMDB=off GOTOOLCHAIN=local
D="$1"; WT="$2"; PROP="$3"; TIER="${4:-quick}"
ID="$(basename "$D")"
git -C "$WT" checkout -q -- . ; rm -f "$WT/demo_test.go"
if ! git -C "$WT" apply "$D/patch.diff"; then echo "$ID: PATCH DOES NOT APPLY"; exit 9; fi
SUITE=$(cd "$WT" && go test -vet=off -count=1 ./... 2>&1 | tail -1)
cp "$D/demo_test.go" "$WT/demo_test.go"
DEMO=$(cd "$WT" && go test -vet=off -count=1 -run "TestSeeded_$ID" ./... 2>&1 | tail -1)
rm -f "$WT/demo_test.go"
OUT=$(cd /verif && VERIF_REPO="$WT" ./check.sh "$PROP" "$TIER" 2>&1); RC=$?
git -C "$WT" checkout -q -- .
NV=$(echo "$OUT" | grep -c '^VIOLATION')
echo "$ID prop=$PROP tier=$TIER suite=[$SUITE] demo=[$DEMO] check_exit=$RC violations=$NV"
echo "$OUT" | grep -A1 '^VIOLATION' | grep -v '^--' | head -${SHOW:-6}
echo "$OUT" | grep '^INCONCLUSIVE\|^BUILD' | head -3
