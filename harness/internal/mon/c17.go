package mon

import (
	"fmt"
	"math"
	"reflect"
	"sort"
	"strings"

	at "github.com/DanielSvub/anytype"

	"verifharness/internal/drive"
	"verifharness/internal/fw"
	"verifharness/internal/rng"
	"verifharness/internal/spec"
)

func init() { register(&Monitor{ID: "C17", Run: runC17, Self: selfC17}) }

var c17Strs = []string{"", "a", "b", "ab", "abc", "abd", "B", "Z", "a ", " a", "é", "z", "zz", "aa", "\x00", "\xff", "~", string(rune(0x1f600)), "A", "0", "10", "9"}

func init() {
	var fam []string
	for _, p := range spec.CollisionPairs {
		fam = append(fam, p[0], p[1])
	}
	c17Families = append(c17Families, fam, fam[:8], fam[8:16]) // strings that collide under common digests
}

var c17Families = [][]string{
	{"10", "9", "2", "100", "1", "20", "0", "33", "7"},                                                                 // all decimal numbers
	{"-1", "-10", "+5", "5", "007", "7", "-0", "0", "12", "1e3", "1000"},                                               // signed / padded numbers
	{"1.5", "1.25", "10.5", "2", "0.5", ".5", "1e1", "9.99"},                                                           // decimal fractions
	{"file10", "file2", "file1", "file20", "file3", "file", "file100"},                                                 // natural-sort names
	{"a", "B", "c", "D", "A", "b", "C", "d", "aa", "AA", "Aa"},                                                         // letter case
	{"z", "aa", "b", "ccc", "dd", "a", "bbbb"},                                                                         // length-first
	{"e", string(rune(0xe9)), "f", "E", "e" + string(rune(0x301)), "z", string(rune(0x17e)), string(rune(0xdf)), "ss"}, // collation / normalisation
	{"2024-1-5", "2024-01-10", "2024-1-10", "2023-12-31", "2024-10-1"},                                                 // dates
	{"true", "false", "null", "True", "0", "1", ""},                                                                    // literal look-alikes
	{" a", "a", "a ", "\ta", "a\n", "A", "_a", "-a"},                                                                   // padding and punctuation
	{"0x10", "0xA", "16", "0b11", "3", "1_000", "999"},                                                                 // other number spellings
}

func c17Values(r *rng.R, kind, n int) []any {
	vals := make([]any, n)
	small := r.Chance(1, 2) // small value range => many duplicates
	themed := -1
	if kind == 1 && r.Chance(1, 4) {
		themed = r.Intn(len(c17Families))
	}
	for i := range vals {
		switch kind {
		case 0:
			if small {
				vals[i] = r.Range(-3, 3)
			} else {
				switch r.Intn(6) {
				case 0:
					vals[i] = math.MaxInt
				case 1:
					vals[i] = math.MinInt
				case 2:
					vals[i] = []int{-2, -1, 0, 1, 2, math.MaxInt - 1, math.MinInt + 1}[r.Intn(7)]
				default:
					vals[i] = spec.GenInt(r)
				}
			}
		case 1:
			if themed >= 0 {
				// whole list from one family in which bytewise order differs from numeric / natural / case-insensitive /
				// length-first / collation order
				fam := c17Families[themed]
				vals[i] = fam[r.Intn(len(fam))]
			} else if small {
				vals[i] = c17Strs[r.Intn(6)]
			} else if r.Chance(1, 4) {
				vals[i] = spec.GenStr(r)
			} else {
				vals[i] = c17Strs[r.Intn(len(c17Strs))]
			}
		default:
			if small {
				vals[i] = []float64{0, math.Copysign(0, -1), 1, -1, 0.5}[r.Intn(5)]
			} else {
				switch r.Intn(8) {
				case 0:
					vals[i] = math.Inf(1)
				case 1:
					vals[i] = math.Inf(-1)
				case 2:
					vals[i] = math.Copysign(0, -1)
				case 3:
					vals[i] = 0.0
				default:
					vals[i] = spec.GenFloat(r)
				}
			}
		}
	}
	switch r.Intn(7) {
	case 6: // sorted runs of one length laid end to end: every aligned block ascends, the descents sit on the block borders
		var fits []int
		for _, b := range []int{2, 3, 4, 8, 16, 32, 64, 100, 128, 256, 512, 1000, 1024, 2048, 4096} {
			if 2*b <= len(vals) {
				fits = append(fits, b)
			}
		}
		if len(fits) > 0 {
			b := fits[r.Intn(len(fits))]
			if r.Bool() {
				b = fits[len(fits)-1]
			}
			for lo := 0; lo < len(vals); lo += b {
				hi := lo + b
				if hi > len(vals) {
					hi = len(vals)
				}
				sortAny(vals[lo:hi], kind)
			}
		}
	case 0: // already sorted
		sortAny(vals, kind)
	case 1: // reverse sorted
		sortAny(vals, kind)
		for i, j := 0, len(vals)-1; i < j; i, j = i+1, j-1 {
			vals[i], vals[j] = vals[j], vals[i]
		}
	case 2: // constant
		for i := range vals {
			vals[i] = vals[0]
		}
	}
	return vals
}

func lessAny(a, b any, kind int) bool {
	switch kind {
	case 0:
		return a.(int) < b.(int)
	case 1:
		return a.(string) < b.(string)
	}
	return a.(float64) < b.(float64)
}

func sortAny(v []any, kind int) {
	sort.SliceStable(v, func(i, j int) bool { return lessAny(v[i], v[j], kind) })
}

// keyOf gives the multiset key of a scalar (floats by bit pattern).
func keyOf(v any) string {
	switch x := v.(type) {
	case float64:
		return fmt.Sprintf("f%016x", math.Float64bits(x))
	case int:
		return fmt.Sprintf("i%d", x)
	case string:
		return "s" + x
	}
	return fmt.Sprintf("%T:%v", v, v)
}

func multiset(vals []any) map[string]int {
	m := map[string]int{}
	for _, v := range vals {
		m[keyOf(v)]++
	}
	return m
}

func sameMultiset(a, b map[string]int) bool {
	if len(a) != len(b) {
		return false
	}
	for k, n := range a {
		if b[k] != n {
			return false
		}
	}
	return true
}

// buildForSort builds the list through a route that may share element boxes with other lists (which must stay untouched).
func buildForSort(r *rng.R, vals []any) (l at.List, others []at.List, how string) {
	n := len(vals)
	route := r.Intn(8)
	if n == 0 {
		route = 0
	}
	if route == 6 {
		// typed slices need a homogeneous list of ints, strings or floats
		for _, v := range vals {
			if reflect.TypeOf(v) != reflect.TypeOf(vals[0]) {
				route = 0
			}
		}
		switch vals[0].(type) {
		case int, string, float64:
		default:
			route = 0
		}
	}
	switch route {
	case 0:
		return at.NewList(vals...), nil, "NewList"
	case 1: // Concat of two halves (result shares boxes with both sources)
		k := r.Intn(n + 1)
		a, b := at.NewList(vals[:k]...), at.NewList(vals[k:]...)
		return a.Concat(b), []at.List{a, b}, "Concat of two lists"
	case 2: // SubList of a longer list
		src := at.NewList("pre")
		src.Add(vals...)
		src.Add("post")
		return src.SubList(1, n+1), []at.List{src}, "SubList of a longer list"
	case 3: // b.Concat(b): every box twice (only when the doubled list is still the wanted content)
		if n%2 == 0 && n > 0 {
			half := vals[:n/2]
			same := true
			for i := range half {
				if keyOf(half[i]) != keyOf(vals[n/2+i]) {
					same = false
				}
			}
			if same {
				b := at.NewList(half...)
				return b.Concat(b), []at.List{b}, "b.Concat(b)"
			}
		}
		return at.NewListFrom(append([]any{}, vals...)), nil, "NewListFrom"
	case 4: // NewListOf + Replace: all slots start as one shared box
		l := at.NewListOf(vals[0], n)
		sib := at.NewListOf(vals[0], 0).Concat(l)
		for i := 1; i < n; i++ {
			if keyOf(vals[i]) != keyOf(vals[0]) {
				l.Replace(i, vals[i])
			}
		}
		return l, []at.List{sib}, "NewListOf + Replace"
	case 5: // grown with spare capacity
		l := at.NewList(vals...)
		l.Add(vals[0], vals[0])
		l.Pop().Pop()
		return l, nil, "NewList + Add/Pop (spare capacity)"
	case 6: // typed slice
		switch vals[0].(type) {
		case int:
			s := make([]int, n)
			for i := range s {
				s[i] = vals[i].(int)
			}
			return at.NewListFrom(s), nil, "NewListFrom([]int)"
		case string:
			s := make([]string, n)
			for i := range s {
				s[i] = vals[i].(string)
			}
			return at.NewListFrom(s), nil, "NewListFrom([]string)"
		default:
			s := make([]float64, n)
			for i := range s {
				s[i] = vals[i].(float64)
			}
			return at.NewListFrom(s), nil, "NewListFrom([]float64)"
		}
	default:
		l := at.NewList()
		for i := n - 1; i >= 0; i-- {
			l.Insert(0, vals[i])
		}
		return l, nil, "Insert(0) repeatedly"
	}
}

func showVals17(v []any) string {
	s := make([]string, len(v))
	for i, e := range v {
		switch x := e.(type) {
		case float64:
			s[i] = fmt.Sprintf("%v", x)
			if x == 0 && math.Signbit(x) {
				s[i] = "-0"
			}
		default:
			s[i] = showSlot(e)
		}
	}
	return "[" + strings.Join(s, " ") + "]"
}

func runC17(c *fw.Ctx) {
	c.Cases("sort", c.N(3000, 2000000), false, func(i int, r *rng.R) {
		kind := r.Intn(3)
		n := []int{1, 2, 3, 4, 5, 8, 13, 21, 40, r.Range(1, 40), r.Range(1, 40), 65, r.Range(41, 300), r.Range(1, 40), []int{513, 1025, 5000, 4096, 6144, 8192, 10240, 12289}[r.Intn(8)]}[r.Intn(15)]
		vals := c17Values(r, kind, n)
		c17Sort(c, r, vals, kind)
	})
	// pinned
	pins := [][]any{{-2, math.MaxInt}, {1, math.MinInt}, {math.MinInt, math.MaxInt}, {math.MaxInt, -1}, {3, 1, 2, 3, 1, 2}, {"b", "a", "b"}, {2.5, 1.5, 2.5, 1.5},
		{math.Inf(1), math.Inf(-1), 0.0, math.Copysign(0, -1), 1e300, -1e300}, {"", "a", ""}, {"é", "z", "e"}, {"B", "a", "A", "b"}, {1}, {"x"}, {0.5}}
	c.Cases("sort-pinned", len(pins), true, func(i int, r *rng.R) {
		kind := 2
		switch pins[i][0].(type) {
		case int:
			kind = 0
		case string:
			kind = 1
		}
		for rep := 0; rep < 8; rep++ {
			c17Sort(c, r, pins[i], kind)
		}
	})
	c.Cases("sort-rejects", c.N(300, 100000), false, func(i int, r *rng.R) {
		// first element neither string, int nor float: panic, list unchanged
		first := []any{nil, true, at.NewList(1), at.NewObject("a", 1)}[r.Intn(4)]
		vals := append([]any{first}, c09Vals(r, r.Intn(6), 0)...)
		l := at.NewList(vals...)
		if r.Chance(1, 4) {
			// the first element is the list itself, or a container that leads back to it (the library allows that)
			l = at.NewList()
			switch r.Intn(3) {
			case 0:
				l.Add(l, 2, 1)
				vals = []any{"<the list itself>", 2, 1}
			case 1:
				o := at.NewObject("owner", l)
				l.Add(o, "b", "a")
				vals = []any{"<object whose field is the list>", "b", "a"}
			default:
				s := at.NewList(l)
				l.Add(s, 3.5)
				vals = []any{"<list holding the list>", 3.5}
			}
			c.Count("sort_reject_self_containing")
			c.MarkInput("Sort on a list whose first element leads back to the list: " + fmt.Sprint(vals))
		}
		in := func() string { return "Sort on " + showVals17(vals) }
		guard(c, in, func() {
			before := top(l)
			pan, _ := drive.Protect(func() { l.Sort() })
			c.Count("sort_reject_calls")
			c.Distinct(in())
			if !pan {
				c.Violate("sort-accepts-unsortable-first-element", in(), "panic", "returned normally: "+showTop(top(l)))
				return
			}
			if !sameTop(before, top(l)) {
				c.Violate("rejected-sort-modifies-list", in(), showTop(before), showTop(top(l)))
			}
		})
	})
	c.Cases("reverse", c.N(2000, 1000000), false, func(i int, r *rng.R) {
		n := []int{0, 1, 2, 3, 4, 5, 6, 7, 16, 17, r.Range(0, 40), r.Range(0, 40), 64, 65, r.Range(41, 200)}[r.Intn(15)]
		vals := c09Vals(r, n, []int{0, 0, 0, 1, 2, 3}[r.Intn(6)])
		if n > 2 && r.Chance(1, 3) { // the same nested container at two positions
			vals[n-1] = vals[0]
		}
		in := func() string { return "Reverse on " + showVals17(vals) }
		guard(c, in, func() {
			l, others, how := buildForSort(r, vals)
			c.SetAdd("build_routes", how)
			parent := at.NewObject("alias", l)
			otherBefore := make([]any, len(others))
			for j, o := range others {
				otherBefore[j] = top(o)
			}
			before := top(l).([]any)
			ret := l.Reverse()
			c.Count("reverse_calls")
			c.Distinct(in())
			if any(ret) != any(l) {
				c.Violate("reverse-return", in(), "the receiver", "another value")
				return
			}
			after := top(parent.GetList("alias")).([]any)
			if len(after) != len(before) {
				c.Violate("reverse-changes-length", in(), fmt.Sprint(len(before)), fmt.Sprint(len(after)))
				return
			}
			for j := range before {
				if !eqSlot(after[len(before)-1-j], before[j]) {
					c.Violate("reverse-misplaces-element", in()+" built via "+how, fmt.Sprintf("element %d moves to %d", j, len(before)-1-j), showTop(after))
					return
				}
			}
			for j, o := range others {
				if !sameTop(otherBefore[j], top(o)) {
					c.Violate("reverse-touches-another-list", in()+" built via "+how, showTop(otherBefore[j]), showTop(top(o)))
					return
				}
			}
			l.Reverse()
			if !sameTop(before, top(l)) {
				c.Violate("reverse-not-involution", in(), showTop(before), showTop(top(l)))
			}
		})
	})
}

func c17Sort(c *fw.Ctx, r *rng.R, vals []any, kind int) {
	in := func() string { return "Sort on " + showVals17(vals) }
	guard(c, in, func() {
		l, others, how := buildForSort(r, vals)
		c.SetAdd("build_routes", how)
		c.Count("sort_calls")
		c.Distinct(in())
		if c.WantSample() && len(vals) > 3 && len(vals) < 10 {
			c.Sample(map[string]any{"list": showVals17(vals), "built_via": how})
		}
		// the list as built must show the wanted content
		if !sameTop(top(l), append([]any{}, vals...)) && !sameMultiset(multiset(top(l).([]any)), multiset(vals)) {
			c.Inconclusive("harness: construction route " + how + " did not produce the wanted list")
			return
		}
		parent := at.NewList("x", l)
		otherBefore := make([]any, len(others))
		for j, o := range others {
			otherBefore[j] = top(o)
		}
		want := multiset(vals)
		ret := l.Sort()
		if any(ret) != any(l) {
			c.Violate("sort-return", in(), "the receiver (sorted in place)", "another value")
			return
		}
		got := top(parent.GetList(1)).([]any) // through the alias: in place
		if len(got) != len(vals) {
			c.Violate("sort-changes-length", in()+" built via "+how, fmt.Sprint(len(vals)), showVals17(got))
			return
		}
		for j := range got {
			okType := false
			switch kind {
			case 0:
				_, okType = got[j].(int)
			case 1:
				_, okType = got[j].(string)
			default:
				_, okType = got[j].(float64)
			}
			if !okType {
				c.Violate("sort-changes-kind", in(), "elements keep their kind", showVals17(got))
				return
			}
		}
		for j := 1; j < len(got); j++ {
			if lessAny(got[j], got[j-1], kind) {
				c.Violate("sort-not-ordered", in()+" built via "+how, "non-decreasing order", showVals17(got))
				return
			}
		}
		if !sameMultiset(want, multiset(got)) {
			c.Violate("sort-not-a-permutation", in()+" built via "+how, "a permutation of the original multiset", showVals17(got))
			return
		}
		for j, o := range others {
			if !sameTop(otherBefore[j], top(o)) {
				c.Violate("sort-touches-another-list", in()+" built via "+how, showTop(otherBefore[j]), showTop(top(o)))
				return
			}
		}
		// sorting twice equals sorting once
		l.Sort()
		again := top(l).([]any)
		for j := range got {
			if again[j] != got[j] || len(again) != len(got) {
				c.Violate("sort-not-idempotent", in()+" built via "+how, showVals17(got), showVals17(again))
				return
			}
		}
		if !sameMultiset(want, multiset(again)) {
			c.Violate("second-sort-not-a-permutation", in()+" built via "+how, "a permutation of the original multiset", showVals17(again))
			return
		}
		// history: modify the sorted list with a value of the same kind, then sort again
		for round := 0; round < 2; round++ {
			n := l.Count()
			v := c17Values(r, kind, 1)[0]
			var desc string
			switch r.Intn(7) {
			case 6:
				// several values in one Add: copies of the current last (largest) element around one fresh value, and a batch in
				// descending order - each of them fits behind the sorted part, the batch itself is not in order
				cur := top(l).([]any)
				batch := c17Values(r, kind, r.Range(2, 4))
				sortAny(batch, kind)
				for a, b := 0, len(batch)-1; a < b; a, b = a+1, b-1 {
					batch[a], batch[b] = batch[b], batch[a]
				}
				if n > 0 && r.Bool() {
					last := cur[n-1]
					var keep []any
					for _, x := range batch {
						if !lessAny(x, last, kind) {
							keep = append(keep, x)
						}
					}
					batch = append(keep, last)
					if len(batch) >= 2 && r.Bool() {
						batch[0], batch[len(batch)-1] = batch[len(batch)-1], batch[0]
					}
				}
				l.Add(batch...)
				desc = fmt.Sprintf("Add(%s...)", showVals17(batch))
			case 0:
				i := r.Intn(n + 1)
				if n > 0 && r.Chance(2, 3) {
					i = r.Intn(n)
				}
				l.Insert(i, v)
				desc = fmt.Sprintf("Insert(%d, %s)", i, showSlot(v))
			case 1:
				if n == 0 {
					continue
				}
				i := r.Intn(n)
				l.Replace(i, v)
				desc = fmt.Sprintf("Replace(%d, %s)", i, showSlot(v))
			case 2:
				l.Add(v)
				desc = fmt.Sprintf("Add(%s)", showSlot(v))
			case 3:
				if n < 2 {
					continue
				}
				l.Reverse()
				desc = "Reverse()"
			case 4:
				i := r.Intn(n + 2)
				l.SetTF(fmt.Sprintf("#%d", i), v)
				if i > n {
					// padding added nils: out of Sort's domain, fill them
					for j := n; j < i; j++ {
						l.Replace(j, v)
					}
				}
				desc = fmt.Sprintf("SetTF(#%d, %s)", i, showSlot(v))
			default:
				if n < 2 {
					continue
				}
				l.Delete(r.Intn(n))
				desc = "Delete(i)"
			}
			if r.Chance(1, 3) {
				// Reverse right after a length change that followed a Sort
				b4 := top(l).([]any)
				l.Reverse()
				af := top(l).([]any)
				okR := len(af) == len(b4)
				for j := 0; okR && j < len(b4); j++ {
					if !eqSlot(af[len(b4)-1-j], b4[j]) {
						okR = false
					}
				}
				if !okR {
					c.Violate("reverse-after-sort-and-mutation-misplaces", in()+" built via "+how+", then sorted, then "+desc+" giving "+showVals17(b4)+", then Reverse", "element i moves to n-1-i", showVals17(af))
					return
				}
			}
			cur := top(l).([]any)
			wantH := multiset(cur)
			l.Sort()
			c.Count("sort_after_mutation_calls")
			res := top(l).([]any)
			inH := func() string {
				return in() + " built via " + how + ", then sorted, then " + desc + " giving " + showVals17(cur) + ", then Sort again"
			}
			if len(res) != len(cur) || !sameMultiset(wantH, multiset(res)) {
				c.Violate("sort-after-mutation-not-a-permutation", inH(), "a permutation of "+showVals17(cur), showVals17(res))
				return
			}
			for j := 1; j < len(res); j++ {
				if lessAny(res[j], res[j-1], kind) {
					c.Violate("sort-after-mutation-not-ordered", inH(), "non-decreasing order", showVals17(res))
					return
				}
			}
		}
	})
}

func selfC17(s *fw.SelfCheck) {
	a := multiset([]any{0.0, 1, "a"})
	b := multiset([]any{math.Copysign(0, -1), 1, "a"})
	s.Expect(!sameMultiset(a, b), "multiset ignores the sign of zero")
	s.Expect(sameMultiset(multiset([]any{1, 2, 2}), multiset([]any{2, 1, 2})), "multiset depends on order")
	s.Expect(!sameMultiset(multiset([]any{1, 2, 2}), multiset([]any{1, 1, 2})), "multiset ignores multiplicity")
	s.Expect(lessAny("B", "a", 1) && !lessAny("a", "B", 1), "string order is not bytewise")
}
