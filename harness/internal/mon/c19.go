package mon

import (
	"fmt"
	"reflect"
	"strings"

	at "github.com/DanielSvub/anytype"

	"verifharness/internal/drive"
	"verifharness/internal/fw"
	"verifharness/internal/rng"
)

func init() { register(&Monitor{ID: "C19", Run: runC19, Self: selfC19}) }

// Derived fixtures, following the README pattern: the inner constructor registers itself first, the outer one
// registers itself afterwards.
type DList struct {
	at.List
	tag string
}

func NewDList(vals ...any) *DList {
	d := &DList{List: at.NewList(vals...), tag: "d"}
	d.Init(d)
	return d
}

type DDList struct {
	*DList
	extra int
}

func NewDDList(vals ...any) *DDList {
	d := &DDList{DList: NewDList(vals...), extra: 2}
	d.Init(d)
	return d
}

type DDDList struct {
	*DDList
}

func NewDDDList(vals ...any) *DDDList {
	d := &DDDList{DDList: NewDDList(vals...)}
	d.Init(d)
	return d
}

type DObject struct {
	at.Object
	tag string
}

func NewDObject(vals ...any) *DObject {
	d := &DObject{Object: at.NewObject(vals...), tag: "d"}
	d.Init(d)
	return d
}

type DDObject struct {
	*DObject
	extra int
}

func NewDDObject(vals ...any) *DDObject {
	d := &DDObject{DObject: NewDObject(vals...), extra: 2}
	d.Init(d)
	return d
}

type DDDObject struct {
	*DDObject
}

func NewDDDObject(vals ...any) *DDDObject {
	d := &DDDObject{DDObject: NewDDObject(vals...)}
	d.Init(d)
	return d
}

// Derived types that are something else as well: an error (and a few other small interfaces a value may satisfy by
// accident), and types that are used and registered by value instead of through a pointer.
type ErrList struct {
	at.List
	msg string
}

func (e *ErrList) Error() string    { return e.msg }
func (e *ErrList) Unwrap() error    { return nil }
func (e *ErrList) GoString() string { return "ErrList" }
func (e *ErrList) Len() int         { return e.Count() }

type ErrObject struct {
	at.Object
	msg string
}

func (e *ErrObject) Error() string                { return e.msg }
func (e *ErrObject) Is(error) bool                { return false }
func (e *ErrObject) MarshalText() ([]byte, error) { return []byte(e.msg), nil }

type ValList struct {
	at.List
	tag string
}

type ValObject struct {
	at.Object
	tag string
}

// Derived types registered by value whose struct cannot be compared with == (a slice / a map among the fields).
type SliceRow struct {
	at.List
	cells []string
}

type MapRec struct {
	at.Object
	attrs map[string]int
}

// fixtureDepths: 1..3 embedding levels, 4 = a derived type that also is an error, 5 = a derived type registered by value,
// 6 = registered by value and not comparable
const fixtureDepths = 6

// sameValue: identity of two values as far as Go defines one - == where the dynamic type allows it; for the two
// non-comparable fixture types the embedded container and the backing storage of their slice / map.
func sameValue(a, b any) bool {
	switch x := a.(type) {
	case SliceRow:
		y, ok := b.(SliceRow)
		return ok && x.List == y.List && len(x.cells) == len(y.cells) && (len(x.cells) == 0 || &x.cells[0] == &y.cells[0])
	case MapRec:
		y, ok := b.(MapRec)
		return ok && x.Object == y.Object && reflect.ValueOf(x.attrs).Pointer() == reflect.ValueOf(y.attrs).Pointer()
	}
	switch b.(type) {
	case SliceRow, MapRec:
		return false
	}
	return a == b
}

// fixture: outer = the registered derived value, inner = the embedded library container, mids = intermediate levels.
type fixture struct {
	name  string
	outer any
	inner any
	mids  []any
}

func listFixture(depth int, vals ...any) fixture {
	switch depth {
	case 4:
		d := &ErrList{List: at.NewList(vals...), msg: "a list that is an error"}
		d.Init(d)
		return fixture{"ErrList", d, d.List, nil}
	case 5:
		d := ValList{List: at.NewList(vals...), tag: "by value"}
		d.Init(d)
		return fixture{"ValList (registered by value)", d, d.List, nil}
	case 6:
		d := SliceRow{List: at.NewList(vals...), cells: []string{"not", "comparable"}}
		d.Init(d)
		return fixture{"SliceRow (registered by value, not comparable)", d, d.List, nil}
	case 1:
		d := NewDList(vals...)
		return fixture{"DList", d, d.List, nil}
	case 2:
		d := NewDDList(vals...)
		return fixture{"DDList", d, d.DList.List, []any{d.DList}}
	default:
		d := NewDDDList(vals...)
		return fixture{"DDDList", d, d.DDList.DList.List, []any{d.DDList, d.DDList.DList}}
	}
}

func objectFixture(depth int, vals ...any) fixture {
	switch depth {
	case 4:
		d := &ErrObject{Object: at.NewObject(vals...), msg: "an object that is an error"}
		d.Init(d)
		return fixture{"ErrObject", d, d.Object, nil}
	case 5:
		d := ValObject{Object: at.NewObject(vals...), tag: "by value"}
		d.Init(d)
		return fixture{"ValObject (registered by value)", d, d.Object, nil}
	case 6:
		d := MapRec{Object: at.NewObject(vals...), attrs: map[string]int{"not": 1}}
		d.Init(d)
		return fixture{"MapRec (registered by value, not comparable)", d, d.Object, nil}
	case 1:
		d := NewDObject(vals...)
		return fixture{"DObject", d, d.Object, nil}
	case 2:
		d := NewDDObject(vals...)
		return fixture{"DDObject", d, d.DObject.Object, []any{d.DObject}}
	default:
		d := NewDDDObject(vals...)
		return fixture{"DDDObject", d, d.DDObject.DObject.Object, []any{d.DDObject, d.DDObject.DObject}}
	}
}

var fluentNames = map[string]bool{"Add": true, "Insert": true, "Replace": true, "Delete": true, "Pop": true, "Clear": true, "Sort": true, "Reverse": true, "Set": true, "Unset": true,
	"ForEachAsync": true, "SetTF": true, "UnsetTF": true, "Ego": true}

func init() {
	drive.DerivedList = func(level int, vals ...any) at.List {
		switch level {
		case 0:
			return NewDList(vals...)
		case 1:
			return NewDDList(vals...)
		}
		return NewDDDList(vals...)
	}
	drive.DerivedObject = func(level int, pairs ...any) at.Object {
		switch level {
		case 0:
			return NewDObject(pairs...)
		case 1:
			return NewDDObject(pairs...)
		}
		return NewDDDObject(pairs...)
	}
}

func init() {
	drive.Embedded = func(v any, level int) any {
		switch d := v.(type) {
		case *DList:
			return d.List
		case *DDList:
			if level > 0 {
				return d.DList
			}
			return d.DList.List
		case *DDDList:
			switch level {
			case 2:
				return d.DDList
			case 1:
				return d.DDList.DList
			}
			return d.DDList.DList.List
		case *DObject:
			return d.Object
		case *DDObject:
			if level > 0 {
				return d.DObject
			}
			return d.DObject.Object
		case *DDDObject:
			switch level {
			case 2:
				return d.DDObject
			case 1:
				return d.DDObject.DObject
			}
			return d.DDObject.DObject.Object
		}
		return nil
	}
}

func isFluent(name string) bool {
	return fluentNames[name] || strings.HasPrefix(name, "ForEach")
}

// derivingNames: methods that return a container which is not the receiver.
var derivingNames = map[string]bool{"Clone": true, "Concat": true, "SubList": true, "MapAsync": true, "Merge": true, "Pluck": true, "Keys": true, "Values": true, "GetObject": true, "GetList": true}

func isDeriving(name string) bool {
	return derivingNames[name] || strings.HasPrefix(name, "Map") || strings.HasPrefix(name, "Filter")
}

var listType = reflect.TypeOf((*at.List)(nil)).Elem()
var objectType = reflect.TypeOf((*at.Object)(nil)).Elem()

// synthArgs builds arguments for a method from its signature. size = current element count of the receiver.
func synthArgs(m reflect.Method, isList bool, size int, variant int) ([]reflect.Value, bool) {
	t := m.Type // interface method type: no receiver
	var args []reflect.Value
	for i := 0; i < t.NumIn(); i++ {
		in := t.In(i)
		variadic := t.IsVariadic() && i == t.NumIn()-1
		switch {
		case variadic && variant%3 == 1:
			// no variadic argument at all: Add(), Set(), Delete(), Unset() are calls like any other
		case variadic && in.Elem().Kind() == reflect.Interface: // ...any : Add(values) / Set(pairs)
			if m.Name == "Set" {
				args = append(args, reflect.ValueOf("k"), reflect.ValueOf(variant))
				if variant%3 == 2 {
					args = append(args, reflect.ValueOf("k2"), reflect.ValueOf("second pair"))
				}
			} else {
				args = append(args, reflect.ValueOf(variant))
				if variant%3 == 2 {
					args = append(args, reflect.ValueOf("second"), reflect.ValueOf(true))
				}
			}
		case variadic && in.Elem().Kind() == reflect.Int: // Delete(indexes...)
			if size == 0 {
				return nil, false
			}
			args = append(args, reflect.ValueOf(0))
			if variant%3 == 2 && size > 1 {
				args = append(args, reflect.ValueOf(size-1))
			}
		case variadic && in.Elem().Kind() == reflect.String: // Unset / Pluck
			args = append(args, reflect.ValueOf("k"))
			if variant%3 == 2 {
				args = append(args, reflect.ValueOf("absent"), reflect.ValueOf("a"))
			}
		case in.Kind() == reflect.Int:
			switch m.Name {
			case "Insert":
				if variant%2 == 0 {
					args = append(args, reflect.ValueOf(size)) // delegates to Add
				} else {
					args = append(args, reflect.ValueOf(0))
				}
			case "SubList":
				args = append(args, reflect.ValueOf(0))
			default: // Replace, getters
				if size == 0 {
					return nil, false
				}
				args = append(args, reflect.ValueOf(0))
			}
		case in.Kind() == reflect.String:
			switch m.Name {
			case "SetTF":
				paths := []string{"#0", "#7", "#0#0", "#1.k"}
				if !isList {
					paths = []string{".k", ".n", ".k#0", ".m.k"}
				}
				args = append(args, reflect.ValueOf(paths[variant%4]))
			case "UnsetTF":
				if isList {
					if size == 0 {
						return nil, false
					}
					args = append(args, reflect.ValueOf("#0"))
				} else {
					args = append(args, reflect.ValueOf(".k"))
				}
			case "GetTF", "TypeOfTF":
				if isList {
					args = append(args, reflect.ValueOf("#0"))
				} else {
					args = append(args, reflect.ValueOf(".k"))
				}
			default:
				args = append(args, reflect.ValueOf("k"))
			}
		case in.Kind() == reflect.Func:
			f := in
			args = append(args, reflect.MakeFunc(f, func(a []reflect.Value) []reflect.Value {
				out := make([]reflect.Value, f.NumOut())
				for j := range out {
					out[j] = reflect.Zero(f.Out(j))
				}
				return out
			}))
		case in == listType:
			args = append(args, reflect.ValueOf(at.NewList(1)))
		case in == objectType:
			args = append(args, reflect.ValueOf(at.NewObject("z", 1)))
		case in.Kind() == reflect.Interface: // any
			args = append(args, reflect.ValueOf(variant))
		default:
			args = append(args, reflect.Zero(in))
		}
	}
	return args, true
}

func runC19(c *fw.Ctx) {
	states := c.N(5, 2000)
	// (1) every method of both interfaces, on fixtures of depth 1..3, receivers in several states
	for _, isList := range []bool{true, false} {
		it := objectType
		sub := "object-methods"
		if isList {
			it = listType
			sub = "list-methods"
		}
		nm := it.NumMethod()
		c.Cases(sub, nm*fixtureDepths*states, true, func(i int, r0 *rng.R) {
			m := it.Method(i % nm)
			depth := 1 + (i/nm)%fixtureDepths
			state := i / (nm * fixtureDepths)
			r := rng.New(c.Seed, "C19/"+sub, i)
			// does the method return the interface itself?
			if m.Type.NumOut() != 1 || m.Type.Out(0) != it {
				return
			}
			c.SetAdd("methods_returning_the_interface", m.Name)
			sizes := []int{0, 1, 2, 3, 6}
			size := sizes[state%len(sizes)]
			if state >= len(sizes) {
				size = r.Intn(9)
			}
			var fx fixture
			if isList {
				vals := make([]any, size)
				for j := range vals {
					vals[j] = r.Range(-9, 9)
				}
				fx = listFixture(depth, vals...)
			} else {
				var vals []any
				for j := 0; j < size; j++ {
					vals = append(vals, []string{"k", "a", "b", "c", "d", "e"}[j%6], j)
				}
				fx = objectFixture(depth, vals...)
			}
			if m.Name == "Sort" && size == 0 {
				return
			}
			if m.Name == "Pop" && size == 0 {
				return
			}
			if (m.Name == "GetObject" || m.Name == "GetList" || m.Name == "Pluck") || (m.Name == "Init") {
				return // need stored containers / existing keys: covered by the storage part
			}
			args, ok := synthArgs(m, isList, size, state)
			if !ok {
				return
			}
			in := func() string {
				return fmt.Sprintf("%s(%d elements).%s(%s)", fx.name, size, m.Name, showArgs(args))
			}
			guard(c, in, func() {
				var out []reflect.Value
				if p, msg := drive.Protect(func() { out = reflect.ValueOf(fx.outer).MethodByName(m.Name).Call(args) }); p {
					c.Count("calls_panicked")
					_ = msg
					return
				}
				c.Count("method_calls")
				c.Distinct(in())
				if c.WantSample() && depth >= 2 && size > 0 {
					c.Sample(map[string]any{"call": in(), "expect": map[bool]string{true: "the identical registered outer value", false: "never the embedded container or an intermediate level"}[isFluent(m.Name)]})
				}
				res := out[0].Interface()
				c19Judge(c, fx, m.Name, res, in)
			})
		})
	}
	// (2) both branches of methods with internal delegation, chains
	c.Cases("delegation", fixtureDepths*states, true, func(i int, r0 *rng.R) {
		depth := 1 + i%fixtureDepths
		r := rng.New(c.Seed, "C19/delegation", i)
		size := []int{0, 1, 2, 5}[r.Intn(4)]
		vals := make([]any, size)
		for j := range vals {
			vals[j] = j
		}
		fx := listFixture(depth, vals...)
		l := fx.outer.(at.List)
		step := func(name string, f func() at.List) {
			in := func() string { return fmt.Sprintf("%s(%d elements) chain step %s", fx.name, size, name) }
			guard(c, in, func() {
				var res at.List
				if p, _ := drive.Protect(func() { res = f() }); p {
					return
				}
				c.Count("method_calls")
				c.Distinct(in())
				c19Judge(c, fx, name, res, in)
			})
		}
		// receiver states the enumerated calls do not reach: mixed numeric kinds under Sort (whatever Sort makes of them, it
		// returns the registered value), padding written and taken away again by tree-form calls, nil elements at the end
		{
			mixed := listFixture(depth, 3, 1.5, 2, 0.5)
			stepOn := func(fxm fixture, name string, f func() at.List) {
				in := func() string { return fmt.Sprintf("%s chain step %s", fxm.name, name) }
				guard(c, in, func() {
					var res at.List
					if p, _ := drive.Protect(func() { res = f() }); p {
						return
					}
					c.Count("method_calls")
					c.Distinct(in())
					c19Judge(c, fxm, name, res, in)
				})
			}
			ml := mixed.outer.(at.List)
			stepOn(mixed, "Sort(ints and floats mixed, int first)", func() at.List { return ml.Sort() })
			mixed2 := listFixture(depth, 2.5, 1, 0.5, 3)
			ml2 := mixed2.outer.(at.List)
			stepOn(mixed2, "Sort(ints and floats mixed, float first)", func() at.List { return ml2.Sort() })
			mixed3 := listFixture(depth, "b", 1, "a")
			ml3 := mixed3.outer.(at.List)
			stepOn(mixed3, "Sort(strings and an int)", func() at.List { return ml3.Sort() })
			pad := listFixture(depth, 1)
			pl := pad.outer.(at.List)
			stepOn(pad, "SetTF(#5) on a short list", func() at.List { return pl.SetTF("#5", "far") })
			stepOn(pad, "UnsetTF(#5) of the element behind the padding", func() at.List { return pl.UnsetTF("#5") })
			stepOn(pad, "UnsetTF(last) leaving nil at the end", func() at.List { return pl.Add(1, nil, 2).UnsetTF(fmt.Sprintf("#%d", pl.Count()-1)) })
			stepOn(pad, "Delete(last) leaving nil at the end", func() at.List { return pl.Add(nil, 3).Delete(pl.Count() - 1) })
			stepOn(pad, "Pop leaving nil at the end", func() at.List { pl.Add(nil, 4).Pop(); return pl.Reverse() })
			po := objectFixture(depth, "k", 1)
			pobj := po.outer.(at.Object)
			inO := func() string { return po.name + " SetTF / UnsetTF through a padded list field" }
			guard(c, inO, func() {
				c19Judge(c, po, "SetTF(.l#4)", pobj.SetTF(".l#4", 1), inO)
				c19Judge(c, po, "UnsetTF(.l#4)", pobj.UnsetTF(".l#4"), inO)
				c19Judge(c, po, "UnsetTF(.l)", pobj.UnsetTF(".l"), inO)
			})
		}
		// another value of the receiver's own type is a list like any other: storing it neither panics nor loses the type
		stepMust := func(name string, f func() at.List) {
			in := func() string { return fmt.Sprintf("%s(%d elements) chain step %s", fx.name, size, name) }
			guard(c, in, func() {
				var res at.List
				if p, msg := drive.Protect(func() { res = f() }); p {
					c.Violate("fluent-method-panics:"+strings.SplitN(name, "(", 2)[0], in(), "the registered outer value (the argument is a valid list value)", "panic: "+msg)
					return
				}
				c.Count("method_calls")
				c.Distinct(in())
				c19Judge(c, fx, name, res, in)
			})
		}
		stepMust("Add(a value of its own type)", func() at.List { return l.Add(listFixture(depth, 1).outer) })
		stepMust("Insert(a value of its own type)", func() at.List { return l.Insert(0, listFixture(depth, 2).outer) })
		stepMust("Replace(a value of its own type)", func() at.List { return l.Replace(0, listFixture(depth, 3).outer) })
		stepMust("SetTF(a value of its own type)", func() at.List { return l.SetTF("#1", listFixture(depth, 4).outer) })
		// iterations whose callback shortens the list they run over still return the registered value
		step("ForEach(callback pops)", func() at.List {
			return l.Add(1, 2, 3).ForEach(func(int, any) {
				if l.Count() > 1 {
					l.Pop()
				}
			})
		})
		step("ForEachValue(callback deletes)", func() at.List {
			return l.Add(1, 2, 3).ForEachValue(func(any) {
				if l.Count() > 1 {
					l.Delete(0)
				}
			})
		})
		step("ForEachInt(callback clears)", func() at.List { return l.Add(1, 2, 3).ForEachInt(func(int) { l.Clear() }) })
		step("ForEachString(callback pops)", func() at.List {
			return l.Add("a", "b").ForEachString(func(string) {
				if l.Count() > 0 {
					l.Pop()
				}
			})
		})
		step("Clear.Add", func() at.List { return l.Clear().Add(1) })
		step("Clear.Add(several)", func() at.List { return l.Clear().Add(1, "two", nil) })
		step("Clear.Insert(0)", func() at.List { return l.Clear().Insert(0, 1) })
		step("Clear.SetTF(#0)", func() at.List { return l.Clear().SetTF("#0", 1) })
		step("Clear.SetTF(#2)", func() at.List { return l.Clear().SetTF("#2", 1) })
		step("emptied by Pop, Add", func() at.List {
			for l.Count() > 0 {
				l.Pop()
			}
			return l.Add(1)
		})
		step("Delete(an index twice)", func() at.List { return l.Add(1, 2, 3).Delete(1, 1) })
		step("Delete(indexes in descending order, one twice)", func() at.List { return l.Add(1, 2, 3, 4).Delete(2, 0, 2) })
		step("Delete(all indexes)", func() at.List {
			idx := make([]int, l.Count())
			for k := range idx {
				idx[k] = len(idx) - 1 - k
			}
			return l.Delete(idx...)
		})
		step("Add(the same value twice)", func() at.List { return l.Add("twice", "twice") })
		step("Insert(at end)", func() at.List { return l.Insert(l.Count(), 1) })
		step("Insert(at 0)", func() at.List { return l.Insert(0, 1) })
		step("SetTF(leaf replace)", func() at.List { return l.SetTF("#0", 5) })
		step("SetTF(padding)", func() at.List { return l.SetTF(fmt.Sprintf("#%d", l.Count()+3), 5) })
		step("SetTF(nil into spare room)", func() at.List {
			l.Add(1, 2, 3).Pop().Pop() // shrank: room behind the end
			return l.SetTF(fmt.Sprintf("#%d", l.Count()), nil)
		})
		step("SetTF(nil behind a gap in spare room)", func() at.List {
			l.Add(1, 2, 3, 4).Delete(l.Count()-1, l.Count()-2, l.Count()-3)
			return l.SetTF(fmt.Sprintf("#%d", l.Count()+1), nil)
		})
		step("SetTF(nil over an element)", func() at.List { return l.SetTF("#0", nil) })
		step("Add(nil)", func() at.List { return l.Add(nil) })
		step("Replace(nil)", func() at.List { return l.Replace(0, nil) })
		step("Insert(nil at end)", func() at.List { return l.Insert(l.Count(), nil) })
		step("SetTF(nested object)", func() at.List { return l.SetTF("#1.k", 5) })
		step("SetTF(nested list)", func() at.List { return l.SetTF("#2#1", 5) })
		// new rows and records behind the end, next to neighbours of every kind
		step("SetTF(through a nil slot, record)", func() at.List {
			return l.Add(nil).SetTF(fmt.Sprintf("#%d.name", l.Count()-1), 1)
		})
		step("SetTF(through a nil slot, row)", func() at.List {
			return l.Add(nil, 2).SetTF(fmt.Sprintf("#%d#0", l.Count()-2), 1)
		})
		step("SetTF(through a padded slot)", func() at.List {
			n := l.Count()
			return l.SetTF(fmt.Sprintf("#%d", n+2), "far").SetTF(fmt.Sprintf("#%d.k.j", n), 1).SetTF(fmt.Sprintf("#%d#1", n+1), 1)
		})
		step("SetTF(new row behind a row)", func() at.List {
			return l.Add(at.NewList(1)).SetTF(fmt.Sprintf("#%d#0", l.Count()), 9)
		})
		step("SetTF(new row behind a row, with a gap in the row)", func() at.List { return l.SetTF(fmt.Sprintf("#%d#2", l.Count()), 9) })
		step("SetTF(new record behind a record)", func() at.List {
			return l.Add(at.NewObject("k", 1)).SetTF(fmt.Sprintf("#%d.k", l.Count()), 9)
		})
		step("SetTF(new record behind a row)", func() at.List {
			return l.Add(at.NewList()).SetTF(fmt.Sprintf("#%d.k.j", l.Count()), 9)
		})
		step("SetTF(new row behind a scalar)", func() at.List { return l.Add("s").SetTF(fmt.Sprintf("#%d#0#0", l.Count()), 9) })
		step("SetTF(into the last row)", func() at.List {
			return l.Add(at.NewList(1, 2)).SetTF(fmt.Sprintf("#%d#2", l.Count()-1), 9)
		})
		step("UnsetTF(nested)", func() at.List { return l.UnsetTF("#1.k") })
		step("Pop", func() at.List { return l.Pop() })
		step("Pop.Reverse", func() at.List { return l.Pop().Reverse() })
		step("Clear.Reverse", func() at.List { return l.Clear().Reverse() })
		step("Add.Reverse", func() at.List { return l.Add(1).Reverse() })
		step("Add.Sort", func() at.List { return l.Add(3, 1, 2).Sort() })
		step("ForEachAsync", func() at.List { return l.ForEachAsync(func(int, any) {}) })
		step("Clear.ForEach", func() at.List { return l.Clear().ForEach(func(int, any) {}) })
		// a long derived list shrunk step by step: every single return value is judged (capacity-dependent paths)
		{
			big := []int{40, 70, 130, 260}[r.Intn(4)]
			bv := make([]any, big)
			for j := range bv {
				bv[j] = j
			}
			bfx := listFixture(depth, bv...)
			bl := bfx.outer.(at.List)
			bstep := func(name string, f func() at.List) bool {
				in := func() string {
					return fmt.Sprintf("%s grown to %d elements, now %d: %s", bfx.name, big, bl.Count(), name)
				}
				ok := true
				guard(c, in, func() {
					var res at.List
					if p, _ := drive.Protect(func() { res = f() }); p {
						return
					}
					c.Count("method_calls")
					before := c.Violations()
					c19Judge(c, bfx, name, res, in)
					ok = c.Violations() == before
				})
				return ok
			}
			c.Distinct(fmt.Sprintf("long derived list %d depth %d", big, depth))
			for bl.Count() > 0 {
				n := bl.Count()
				var ok bool
				switch r.Intn(5) {
				case 0:
					ok = bstep("Pop", func() at.List { return bl.Pop() })
				case 1:
					ok = bstep("Delete", func() at.List { return bl.Delete(r.Intn(n)) })
				case 2:
					k := r.Range(1, minInt(n, 20))
					idx := append([]int{}, r.Perm(n)[:k]...)
					ok = bstep("Delete", func() at.List { return bl.Delete(idx...) })
				case 3:
					ok = bstep("UnsetTF", func() at.List { return bl.UnsetTF("#0") })
				default:
					ok = bstep("Pop.Reverse", func() at.List { return bl.Pop().Reverse() })
				}
				if !ok {
					break
				}
			}
			bstep("Add(after emptying)", func() at.List { return bl.Add(1, 2, 3) })
		}
		ofx := objectFixture(depth, "k", 1)
		o := ofx.outer.(at.Object)
		ostep := func(name string, f func() at.Object) {
			in := func() string { return fmt.Sprintf("%s chain step %s", ofx.name, name) }
			guard(c, in, func() {
				var res at.Object
				if p, _ := drive.Protect(func() { res = f() }); p {
					return
				}
				c.Count("method_calls")
				c.Distinct(in())
				c19Judge(c, ofx, name, res, in)
			})
		}
		ostep("SetTF(leaf)", func() at.Object { return o.SetTF(".a", 1) })
		ostep("SetTF(nested list)", func() at.Object { return o.SetTF(".l#2", 1) })
		ostep("SetTF(nested object)", func() at.Object { return o.SetTF(".o.p.q", 1) })
		ostep("SetTF(replace wrong kind)", func() at.Object { return o.SetTF(".a#0", 1) })
		ostep("UnsetTF(nested)", func() at.Object { return o.UnsetTF(".o.p.q") })
		ostep("Unset(missing)", func() at.Object { return o.Unset("nope") })
		ostep("Unset(a key twice)", func() at.Object { return o.Set("tw", 1).Unset("tw", "tw") })
		ostep("Unset(present and missing)", func() at.Object { return o.Set("pm", 1).Unset("nope", "pm", "nope") })
		ostep("Set(a key twice)", func() at.Object { return o.Set("tw", 1, "tw", 2) })
		ostep("Clear.Set", func() at.Object { return o.Clear().Set("k", 2) })
		ostep("Clear.ForEach", func() at.Object { return o.Clear().ForEach(func(string, any) {}) })
		ostep("ForEachAsync(empty)", func() at.Object { return o.ForEachAsync(func(string, any) {}) })
		// callbacks that change the fields of the traversed object: new keys, removed keys, everything removed
		grow := func(prefix string) func() {
			n := 0
			return func() {
				for j := 0; j < 8; j++ {
					o.Set(fmt.Sprintf("%s%d", prefix, n), n)
					n++
				}
			}
		}
		ostep("ForEach(callback sets new keys)", func() at.Object {
			g := grow("fe")
			return o.Set("a", 1, "b", "s", "c", 2.5).ForEach(func(string, any) { g() })
		})
		ostep("ForEachValue(callback sets new keys)", func() at.Object {
			g := grow("fv")
			return o.ForEachValue(func(any) { g() })
		})
		ostep("ForEachInt(callback sets new keys)", func() at.Object {
			g := grow("fi")
			return o.Set("i1", 1, "i2", 2).ForEachInt(func(int) { g() })
		})
		ostep("ForEachString(callback unsets keys)", func() at.Object {
			return o.Set("s1", "x", "s2", "y").ForEachString(func(string) { o.Unset("s1", "s2", "a", "b") })
		})
		ostep("ForEach(callback clears)", func() at.Object { return o.Set("z", 1).ForEach(func(string, any) { o.Clear() }) })
		ostep("ForEach(callback clears and refills)", func() at.Object {
			return o.Set("z", 1, "y", 2).ForEach(func(string, any) { o.Clear().Set("again", 1, "more", 2) })
		})
	})
	// (3) storage: a derived value stored in another container comes back as the identical outer value
	c.Cases("storage", fixtureDepths*2*states, true, func(i int, r0 *rng.R) {
		depth := 1 + i%fixtureDepths
		storedIsList := (i/fixtureDepths)%2 == 0
		r := rng.New(c.Seed, "C19/storage", i)
		var fx fixture
		if storedIsList {
			fx = listFixture(depth, r.Intn(5), "x")
		} else {
			fx = objectFixture(depth, "k", r.Intn(5))
		}
		in := func() string { return fmt.Sprintf("%s stored in a list and in an object", fx.name) }
		guard(c, in, func() {
			c.Distinct(fmt.Sprintf("storage %d", i))
			holderL := at.NewList(0, fx.outer, "s")
			holderO := at.NewObject("a", 1, "d", fx.outer)
			nest := at.NewObject("deep", at.NewList(at.NewObject("x", fx.outer)))
			same := func(path string, got any) {
				c.Count("retrievals")
				c.SetAdd("retrieval_paths", path)
				if !sameValue(got, fx.outer) {
					what := fmt.Sprintf("%T", got)
					if got == fx.inner {
						what += " (the embedded library container)"
					}
					c.Violate("stored-derived-value-loses-identity:"+path, in()+" retrieved through "+path, "the identical outer value", what)
				}
			}
			same("List.Get", holderL.Get(1))
			same("Object.Get", holderO.Get("d"))
			same("List.Slice", holderL.Slice()[1])
			same("Object.Dict", holderO.Dict()["d"])
			same("Object.Values", firstContainer(holderO.Values()))
			same("List.GetTF", holderL.GetTF("#1"))
			same("Object.GetTF", holderO.GetTF(".d"))
			same("nested GetTF", nest.GetTF(".deep#0.x"))
			// the value stored through a handle embedded in it (what a method of an inner type has in its hands): Get
			// resolves the registered pointer, and the typed getters and the tree-form reads are Get with a check
			for hi, handle := range append([]any{fx.inner}, fx.mids...) {
				if handle == nil {
					continue
				}
				hl, ho := at.NewList(0, handle), at.NewObject("d", handle)
				hn := at.NewObject("deep", at.NewList(at.NewObject("x", handle)))
				via := fmt.Sprintf(" (stored through embedded handle %d)", hi)
				same("List.Get"+via, hl.Get(1))
				same("Object.Get"+via, ho.Get("d"))
				same("List.GetTF"+via, hl.GetTF("#1"))
				same("Object.GetTF"+via, ho.GetTF(".d"))
				same("nested GetTF"+via, hn.GetTF(".deep#0.x"))
				if storedIsList {
					same("List.GetList"+via, hl.GetList(1))
					same("Object.GetList"+via, ho.GetList("d"))
				} else {
					same("List.GetObject"+via, hl.GetObject(1))
					same("Object.GetObject"+via, ho.GetObject("d"))
				}
			}
			same("List.Filter", firstContainer(holderL.Filter(func(v any) bool { return true })))
			same("List.Map(identity)", firstContainer(holderL.Map(func(i int, v any) any { return v })))
			same("List.Clone keeps plain copy", fx.outer) // trivially true: Clone makes plain copies, nothing claimed
			var seen any
			holderL.ForEach(func(i int, v any) {
				if i == 1 {
					seen = v
				}
			})
			same("List.ForEach", seen)
			seen = nil
			holderO.ForEach(func(k string, v any) {
				if k == "d" {
					seen = v
				}
			})
			same("Object.ForEach", seen)
			if storedIsList {
				same("List.GetList", holderL.GetList(1))
				same("Object.GetList", holderO.GetList("d"))
				same("List.ListSlice", any(holderL.ListSlice()[0]))
				same("List.FilterLists", firstContainer(holderL.FilterLists(func(at.List) bool { return true })))
				seen = nil
				holderL.ForEachList(func(x at.List) { seen = x })
				same("List.ForEachList", seen)
				seen = nil
				holderO.ForEachList(func(x at.List) { seen = x })
				same("Object.ForEachList", seen)
				seen = nil
				holderL.MapLists(func(x at.List) any { seen = x; return nil })
				same("List.MapLists(arg)", seen)
			} else {
				same("List.GetObject", holderL.GetObject(1))
				same("Object.GetObject", holderO.GetObject("d"))
				same("List.ObjectSlice", any(holderL.ObjectSlice()[0]))
				same("List.FilterObjects", firstContainer(holderL.FilterObjects(func(at.Object) bool { return true })))
				seen = nil
				holderL.ForEachObject(func(x at.Object) { seen = x })
				same("List.ForEachObject", seen)
				seen = nil
				holderO.ForEachObject(func(x at.Object) { seen = x })
				same("Object.ForEachObject", seen)
				seen = nil
				holderO.MapObjects(func(x at.Object) any { seen = x; return nil })
				same("Object.MapObjects(arg)", seen)
			}
			// stored through the other entry points
			l2 := at.NewList().Add(fx.outer)
			same("Add then Get", l2.Get(0))
			l2.Insert(0, fx.outer)
			same("Insert then Get", l2.Get(0))
			l2.Replace(1, fx.outer)
			same("Replace then Get", l2.Get(1))
			l3 := at.NewList().SetTF("#2", fx.outer)
			same("SetTF then GetTF", l3.GetTF("#2"))
			o3 := at.NewObject().SetTF(".a.b", fx.outer)
			same("object SetTF then GetTF", o3.GetTF(".a.b"))
			same("NewListOf", at.NewListOf(fx.outer, 2).Get(1))
			same("NewListFrom", at.NewListFrom([]any{fx.outer}).Get(0))
			same("NewObjectFrom", at.NewObjectFrom(map[string]any{"k": fx.outer}).Get("k"))
			// ... and through the typed collections of containers (as constructor argument and as a value of Add / Set / SetTF)
			if storedIsList {
				tl := []at.List{fx.outer.(at.List)}
				tm := map[string]at.List{"k": fx.outer.(at.List)}
				same("NewListFrom([]List)", at.NewListFrom(tl).Get(0))
				same("NewObjectFrom(map[string]List)", at.NewObjectFrom(tm).Get("k"))
				same("Add([]List)", at.NewList().Add(tl).GetList(0).Get(0))
				same("Set(map[string]List)", at.NewObject().Set("m", tm).GetObject("m").Get("k"))
				same("SetTF([]List)", at.NewObject().SetTF(".a.b", tl).GetTF(".a.b#0"))
				same("NewList([]any{[]List})", at.NewList([]any{tl}).GetTF("#0#0#0"))
			} else {
				tl := []at.Object{fx.outer.(at.Object)}
				tm := map[string]at.Object{"k": fx.outer.(at.Object)}
				same("NewListFrom([]Object)", at.NewListFrom(tl).Get(0))
				same("NewObjectFrom(map[string]Object)", at.NewObjectFrom(tm).Get("k"))
				same("Add([]Object)", at.NewList().Add(tl).GetList(0).Get(0))
				same("Set(map[string]Object)", at.NewObject().Set("m", tm).GetObject("m").Get("k"))
				same("SetTF(map[string]Object)", at.NewList().SetTF("#1", tm).GetTF("#1.k"))
				same("NewObject(map[string]any{[]Object})", at.NewObject("x", map[string]any{"y": tl}).GetTF(".x.y#0"))
			}
			// tree-form writes that descend THROUGH the stored derived value reuse it (it is a container of the right
			// kind): it must stay where it is, stay the identical outer value, and receive the write itself
			if storedIsList {
				dl := fx.outer.(at.List)
				before := dl.Count()
				holderL.SetTF("#1#0", "written-through")
				same("List.Get after SetTF through it", holderL.Get(1))
				holderO.SetTF(fmt.Sprintf(".d#%d", dl.Count()+1), "padded-through")
				same("Object.Get after SetTF through it", holderO.Get("d"))
				if dl.Count() <= before || dl.Get(0) != "written-through" {
					c.Violate("write-through-derived-value-lost", in(), "the derived list itself receives a tree-form write that passes through it", dl.String())
				}
				holderL.UnsetTF("#1#0")
				same("List.Get after UnsetTF through it", holderL.Get(1))
				// ... down to the last element, alternately through both holders: an empty derived list is still that list
				for k := 0; dl.Count() > 0 && k < 100; k++ {
					if k%2 == 0 {
						holderL.UnsetTF("#1#0")
					} else {
						holderO.UnsetTF(".d#0")
					}
				}
				same("List.Get after the value was emptied through the holders", holderL.Get(1))
				same("Object.Get after the value was emptied through the holders", holderO.Get("d"))
				same("Object.GetList after the value was emptied through the holders", holderO.GetList("d"))
				holderO.SetTF(".d#0", "refilled")
				same("Object.Get after the emptied value was written to again", holderO.Get("d"))
				if dl.Count() != 1 {
					c.Violate("write-through-derived-value-lost", in(), "the emptied derived list itself receives the next tree-form write", dl.String())
				}
			} else {
				do := fx.outer.(at.Object)
				holderL.SetTF("#1.written", 7)
				same("List.Get after SetTF through it", holderL.Get(1))
				holderO.SetTF(".d.deeper.x", 8)
				same("Object.Get after SetTF through it", holderO.Get("d"))
				nest.SetTF(".deep#0.x.viaNest", 9)
				same("nested GetTF after SetTF through it", nest.GetTF(".deep#0.x"))
				if !do.KeyExists("written") || !do.KeyExists("deeper") || !do.KeyExists("viaNest") {
					c.Violate("write-through-derived-value-lost", in(), "the derived object itself receives tree-form writes that pass through it", do.String())
				}
				holderL.UnsetTF("#1.written")
				same("List.Get after UnsetTF through it", holderL.Get(1))
				// ... down to the last field, alternately through both holders: an empty derived object is still that object
				for k, key := range do.Keys().StringSlice() {
					if k%2 == 0 {
						holderL.UnsetTF("#1." + key)
					} else {
						holderO.UnsetTF(".d." + key)
					}
				}
				same("List.Get after the value was emptied through the holders", holderL.Get(1))
				same("Object.Get after the value was emptied through the holders", holderO.Get("d"))
				same("List.GetObject after the value was emptied through the holders", holderL.GetObject(1))
				holderL.SetTF("#1.refilled", 1)
				same("List.Get after the emptied value was written to again", holderL.Get(1))
				if do.Count() != 1 {
					c.Violate("write-through-derived-value-lost", in(), "the emptied derived object itself receives the next tree-form write", do.String())
				}
			}
			// the holders are changed in ways that leave the slot of the derived value alone (other keys / other
			// positions, one pair and several pairs per call, padding, removal of neighbours): it stays the identical
			// outer value
			{
				ho := at.NewObject("a", 1, "d", fx.outer, "z", at.NewList(1))
				steps := []struct {
					name string
					f    func()
				}{
					{"Set(one other pair)", func() { ho.Set("n1", 1) }},
					{"Set(two other pairs)", func() { ho.Set("n2", 2, "n3", at.NewList()) }},
					{"Set(three pairs, one overwriting a neighbour)", func() { ho.Set("a", "x", "n4", nil, "n5", 2.5) }},
					{"Set(native map value)", func() { ho.Set("n6", map[string]any{"q": 1}) }},
					{"Unset(neighbours)", func() { ho.Unset("n1", "n2") }},
					{"Unset(absent key)", func() { ho.Unset("absent") }},
					{"SetTF(other path)", func() { ho.SetTF(".z#3", 1) }},
					{"UnsetTF(other path)", func() { ho.UnsetTF(".z#0") }},
					{"growing to 12 fields", func() {
						for j := 0; j < 10; j++ {
							ho.Set(fmt.Sprintf("grow%02d", j), j)
						}
					}},
					{"growing to 40 fields", func() {
						for j := 10; j < 38; j += 2 {
							ho.Set(fmt.Sprintf("grow%02d", j), j, fmt.Sprintf("grow%02d", j+1), at.NewList(j))
						}
					}},
					{"shrinking in one call", func() {
						var ks []string
						for j := 0; j < 30; j++ {
							ks = append(ks, fmt.Sprintf("grow%02d", j))
						}
						ho.Unset(ks...)
					}},
					{"shrinking key by key", func() {
						for j := 30; j < 38; j++ {
							ho.Unset(fmt.Sprintf("grow%02d", j))
						}
					}},
					{"shrinking to the derived value alone", func() {
						for _, k := range ho.Keys().StringSlice() {
							if k != "d" {
								ho.Unset(k)
							}
						}
					}},
					{"Pluck result", func() { ho = ho.Pluck("d").Set("after", 2, "again", 3) }},
				}
				for _, st := range steps {
					if pan, msg := drive.Protect(st.f); pan {
						c.Violate("holder-mutation-panics", in()+" / "+st.name, "no panic", msg)
						break
					}
					same("Object.Get after "+st.name, ho.Get("d"))
					same("Object.GetTF after "+st.name, ho.GetTF(".d"))
				}
				// holders whose storage is exactly full (NewListFrom, Concat and SubList results) and holders with spare room
				for hb := 0; hb < 4; hb++ {
					var hl at.List
					switch hb {
					case 0:
						hl = at.NewList(0, fx.outer, "s")
					case 1:
						hl = at.NewListFrom([]any{0, fx.outer, "s"})
					case 2:
						hl = at.NewList(0, fx.outer).Concat(at.NewList("s"))
					default:
						hl = at.NewList(0, fx.outer, "s", "t").SubList(0, 3)
					}
					same(fmt.Sprintf("List.Get (holder built in way %d)", hb), hl.Get(1))
					pos := 1
					lsteps := []struct {
						name string
						f    func()
					}{
						{"Insert(front, first mutation)", func() { hl.Insert(0, "f0"); pos++ }},
						{"Insert(middle)", func() { hl.Insert(pos+1, "m") }},
						{"Add(two)", func() { hl.Add(1, at.NewList()) }},
						{"Insert(front)", func() { hl.Insert(0, "f"); pos++ }},
						{"Insert(behind)", func() { hl.Insert(pos+1, "b") }},
						{"Replace(neighbour)", func() { hl.Replace(pos-1, []any{1}) }},
						{"Delete(neighbours)", func() { hl.Delete(pos+1, 0); pos-- }},
						{"Pop", func() { hl.Pop() }},
						{"SetTF(pad)", func() { hl.SetTF(fmt.Sprintf("#%d", hl.Count()+2), 1) }},
						{"Reverse twice", func() { hl.Reverse().Reverse() }},
						{"Concat result", func() { hl = hl.Concat(at.NewList(1)).Add(2) }},
						{"SubList result", func() { hl = hl.SubList(0, 0).Add(3) }},
						{"Filter result", func() { hl = hl.Filter(func(any) bool { return true }).Add(4) }},
					}
					for _, st := range lsteps {
						if pan, msg := drive.Protect(st.f); pan {
							c.Violate("holder-mutation-panics", in()+" / "+st.name, "no panic", msg)
							break
						}
						same("List.Get after "+st.name, hl.Get(pos))
						same("List.GetTF after "+st.name, hl.GetTF(fmt.Sprintf("#%d", pos)))
					}
				}
			}
			// reversing / moving the holder keeps the identity
			same("after Reverse", holderL.Reverse().Get(1))
			same("SubList", holderL.SubList(0, 0).Get(1))
			same("Concat", holderL.Concat(at.NewList()).Get(1))
			// the derived value stored OVER a plain container with equal content (Set / Replace / SetTF overwrite)
			var plainEq, plainEq2, plainEq3 any
			if storedIsList {
				plainEq, plainEq2, plainEq3 = fx.outer.(at.List).Clone(), fx.outer.(at.List).Clone(), fx.outer.(at.List).Clone()
			} else {
				plainEq, plainEq2, plainEq3 = fx.outer.(at.Object).Clone(), fx.outer.(at.Object).Clone(), fx.outer.(at.Object).Clone()
			}
			same("Set over an equal plain container", at.NewObject("d", plainEq).Set("d", fx.outer).Get("d"))
			same("Replace over an equal plain container", at.NewList(plainEq2).Replace(0, fx.outer).Get(0))
			same("SetTF over an equal plain container", at.NewObject("d", plainEq3).SetTF(".d", fx.outer).Get("d"))
			same("list SetTF over an equal plain container", at.NewList(0, plainEq).SetTF("#1", fx.outer).Get(1))
			// somebody stores a handle to an inner embedding level (legal: it is a List / Object value); the outer
			// registration must survive that
			inners := append([]any{fx.inner}, fx.mids...)
			for _, h := range inners {
				drive.Protect(func() { at.NewList().Add(h) })
				drive.Protect(func() { at.NewObject().Set("inner", h) })
				drive.Protect(func() { at.NewList(0).SetTF("#0", h) })
			}
			c19Judge(c, fx, "Ego(after an inner handle was stored elsewhere)", egoOf(fx.outer), in)
			switch x := fx.outer.(type) {
			case at.List:
				c19Judge(c, fx, "Add(after an inner handle was stored elsewhere)", x.Add(1), in)
				c19Judge(c, fx, "Reverse(after an inner handle was stored elsewhere)", x.Reverse(), in)
			case at.Object:
				c19Judge(c, fx, "Set(after an inner handle was stored elsewhere)", x.Set("z", 1), in)
				c19Judge(c, fx, "Unset(after an inner handle was stored elsewhere)", x.Unset("z"), in)
			}
			same("Get after an inner handle was stored elsewhere", at.NewList(fx.outer).Get(0))
			// Ego of every level
			c19Judge(c, fx, "Ego", egoOf(fx.outer), in)
		})
	})
}

func egoOf(v any) any {
	switch x := v.(type) {
	case at.List:
		return x.Ego()
	case at.Object:
		return x.Ego()
	}
	return nil
}

func firstContainer(l at.List) any {
	for i := 0; i < l.Count(); i++ {
		switch l.Get(i).(type) {
		case at.List, at.Object:
			return l.Get(i)
		}
	}
	return nil
}

func showArgs(args []reflect.Value) string {
	s := make([]string, len(args))
	for i, a := range args {
		if a.Kind() == reflect.Func {
			s[i] = "func"
		} else {
			s[i] = fmt.Sprintf("%v", a.Interface())
			if len(s[i]) > 30 {
				s[i] = s[i][:30]
			}
		}
	}
	return strings.Join(s, ", ")
}

// c19Judge applies the oracle to a returned container.
func c19Judge(c *fw.Ctx, fx fixture, method string, res any, in func() string) {
	describe := func() string {
		switch {
		case sameValue(res, fx.inner):
			return "the embedded library container (the derived type is lost)"
		case sameValue(res, fx.outer):
			return "the outer value"
		}
		for i, m := range fx.mids {
			if sameValue(res, m) {
				return fmt.Sprintf("the intermediate embedding level %d (%T)", i+1, m)
			}
		}
		return fmt.Sprintf("another %T", res)
	}
	if isFluent(method) || strings.Contains(method, "(") || strings.Contains(method, ".") {
		c.SetAdd("fluent_methods_checked", strings.SplitN(method, "(", 2)[0])
		if !sameValue(res, fx.outer) {
			c.Violate("fluent-method-loses-derived-type:"+strings.SplitN(method, "(", 2)[0], in(), "the registered outer value", describe())
		}
		return
	}
	if !isDeriving(method) {
		c.SetAdd("unclassified_methods", method)
	}
	// deriving / unclassified methods: never the embedded value, never an intermediate level
	if res == fx.inner {
		c.Violate("method-returns-embedded-value:"+method, in(), "never the embedded library container", describe())
		return
	}
	for _, m := range fx.mids {
		if res == m {
			c.Violate("method-returns-intermediate-level:"+method, in(), "never an intermediate embedding level", describe())
			return
		}
	}
}

func selfC19(s *fw.SelfCheck) {
	d := NewDDList(1, 2)
	s.Expect(any(d.Ego()) == any(d), "fixture: Ego of a two-level derived list is not the outer value (README pattern)")
	s.Expect(any(d.DList.List) != any(d), "fixture: inner equals outer")
	s.Expect(isFluent("ForEachString") && isFluent("Reverse") && !isFluent("Clone") && isDeriving("MapInts"), "method classification broken")
	n := 0
	for i := 0; i < listType.NumMethod(); i++ {
		m := listType.Method(i)
		if m.Type.NumOut() == 1 && m.Type.Out(0) == listType {
			n++
		}
	}
	s.Expect(n >= 35, fmt.Sprintf("reflection finds only %d List methods returning List", n))
}
