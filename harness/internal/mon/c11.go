package mon

import (
	"fmt"
	"regexp"
	"strconv"

	at "github.com/DanielSvub/anytype"

	"verifharness/internal/drive"
	"verifharness/internal/fw"
	"verifharness/internal/model"
	"verifharness/internal/rng"
	"verifharness/internal/spec"
)

func init() { register(&Monitor{ID: "C11", Run: runC11, Self: selfC11}) }

// genWritePath builds a well-formed write path for the current model tree: existing, partially existing or new
// segments; list indices < n, = n, > n; intermediates that are missing, of the right kind or of a wrong kind.

func genWritePath(c *fw.Ctx, r *rng.R, root *model.Node) string {
	path := ""
	var cur *model.Node = root // nil once we are below something that does not exist / is no container
	curKind := root.K
	length := r.Range(1, 5)
	if r.Chance(1, 10) {
		length = r.Range(6, 45)
	}
	bigGap := false
	for s := 0; s < length; s++ {
		last := s == length-1
		var child model.Val
		childExists := false
		if curKind == spec.List {
			n := 0
			if cur != nil {
				n = len(cur.E)
			}
			var idx int
			switch r.Intn(6) {
			case 0, 1:
				if n > 0 {
					idx = r.Intn(n)
				} else {
					idx = 0
				}
			case 2:
				idx = n
			case 3:
				idx = n + 1
			default:
				idx = n + r.Range(0, 6)
			}
			if !bigGap && r.Chance(1, 50) {
				// now and then the padding is long: block sizes and their neighbours
				bigGap = true
				idx = n + []int{15, 16, 17, 31, 32, 33, 63, 64, 65, 127, 128, 129, 255, 256, 257, 511, 512, 513, 1023, 1024, 1025, 2047, 2048, 2049, 4096}[r.Intn(25)]
				rare := 12
				if c != nil && !c.Quick() {
					rare = 12 * 40 // the thorough tier runs some forty times the cases: about as many such writes in both tiers
				}
				if r.Chance(1, rare) {
					// an index is an index, however far away (every later look at the tree walks the padding, so these stay few)
					idx = n + []int{65535, 65536, 65537, 70000, 131073}[r.Intn(5)]
					c.Count("writes_with_very_long_padding")
				}
				c.Count("writes_with_long_padding")
			}
			if cur != nil && idx < n {
				child, childExists = cur.E[idx], true
			}
			path += "#" + strconv.Itoa(idx)
		} else {
			var key string
			if cur != nil && len(cur.M) > 0 && r.Chance(2, 3) {
				ks := cur.SortedKeys()
				key = ks[r.Intn(len(ks))]
				if !model.AddressableKey(key) {
					key = tfKeys[r.Intn(len(tfKeys))]
				}
			} else {
				key = tfKeys[r.Intn(len(tfKeys))]
			}
			if cur != nil {
				child, childExists = cur.M[key]
			}
			path += "." + key
		}
		if last {
			break
		}
		// choose the kind the next segment requires
		next := spec.List
		if r.Bool() {
			next = spec.Obj
		}
		if childExists && child.Ref != nil && r.Chance(2, 3) {
			next = child.K // reuse the existing intermediate
		}
		branch := "list-parent"
		if curKind == spec.Obj {
			branch = "object-parent"
		}
		if next == spec.Obj {
			branch += "/next-dot"
		} else {
			branch += "/next-hash"
		}
		switch {
		case !childExists:
			branch += "/missing"
		case child.K == next:
			branch += "/right-kind"
		default:
			branch += "/wrong-kind"
		}
		c.Count("branch/" + branch)
		if childExists && child.K == next {
			cur = child.Ref
		} else {
			cur = nil
		}
		curKind = next
	}
	return path
}

func runC11(c *fw.Ctx) {
	writes := c.N(15, 25)
	I, L, O := spec.IntV, spec.ListV, spec.ObjV
	// pinned: the write that panicked on the original tree, and the empty-segment unset
	c.Cases("pinned", 6, true, func(i int, r *rng.R) {
		p := &prog{c: c, r: r, h: &model.Heap{}}
		var root *model.Node
		switch i {
		case 0:
			root = p.h.FromSpec(O("a", I(1)))
			p.trace = append(p.trace, "root = {a:1}")
			c11Set(p, root, ".a#0", model.Int(5))
		case 1:
			root = p.h.FromSpec(O("a", spec.NilV(), "b", O("x", I(1))))
			p.trace = append(p.trace, "root = {a:nil,b:{x:1}}")
			c11Set(p, root, ".a#2.k", model.Str("v"))
			c11Set(p, root, ".b#1", model.Int(7))
		case 2:
			root = p.h.FromSpec(L(I(10), I(11), I(12)))
			p.trace = append(p.trace, "root = [10,11,12]")
			c11Set(p, root, "#6", model.Str("v"))
			c11Set(p, root, "#1#3", model.Int(1))
			c11Set(p, root, "#9.k#2", model.Int(2))
		case 3:
			root = p.h.FromSpec(L())
			p.trace = append(p.trace, "root = []")
			c11Set(p, root, "#3", model.Str("v"))
			c11Unset(p, root, "#0")
			c11Unset(p, root, "#5")
		case 4:
			root = p.h.FromSpec(O("a", O(".b", I(1), "n", spec.NilV())))
			p.trace = append(p.trace, "root = {a:{.b:1,n:nil}}")
			c11Unset(p, root, ".a..b")
			c11Unset(p, root, ".a.n")
		default:
			root = p.h.FromSpec(O("l", L(I(1), I(2))))
			p.trace = append(p.trace, "root = {l:[1,2]}")
			c11Set(p, root, ".l#4.key", model.Int(3))
			c11Set(p, root, ".l#1", model.Nil())
			c11Unset(p, root, ".l#1")
		}
		c.Distinct(p.input())
	})
	c.Cases("programs", c.N(1500, 600000), false, func(i int, r *rng.R) {
		p := &prog{c: c, r: r, h: &model.Heap{}, lazy: i%2 == 1, ctx: i%3 == 0}
		guard(c, p.input, func() {
			rootKind := spec.List
			if r.Bool() {
				rootKind = spec.Obj
			}
			tree := genTFTree(r, rootKind, r.Range(1, 4))
			if r.Chance(1, 20) {
				// a deep chain: writes then go through long existing paths
				tree = spec.ListV(spec.IntV(1))
				for j := r.Range(10, 40); j > 0; j-- {
					if r.Bool() {
						tree = spec.ListV(spec.IntV(j), tree)
					} else {
						tree = spec.ObjV(tfKeys[r.Intn(len(tfKeys))], tree)
					}
				}
				if (tree.K == spec.List) != (rootKind == spec.List) {
					rootKind = tree.K
				}
			}
			root := p.h.FromSpec(tree)
			p.trace = append(p.trace, "root = "+tree.Canon())
			p.checkHeap()
			// now and then the tree also gets lists that were produced by NewListOf / SubList / Concat (their slots
			// share element storage with one another or with a source list that stays alive outside the tree)
			if r.Chance(1, 3) {
				src := p.h.FromSpec(spec.ListV(spec.IntV(0), spec.IntV(0), spec.StrV("s"), spec.StrV("s"), spec.FloatV(1.5), spec.BoolV(true)))
				p.trace = append(p.trace, src.Name()+" = NewList(0,0,\"s\",\"s\",1.5,true)")
				var derived *model.Node
				switch r.Intn(3) {
				case 0:
					derived = c05SubList(p, src, 0, 0)
				case 1:
					derived = c05Concat(p, src, src)
				default:
					derived = p.h.NewList(nil)
					v := scalarVal(r)
					k := r.Range(2, 5)
					p.step("NewListOf", fmt.Sprintf("%s = NewListOf(%s, %d)", derived.Name(), v, k), false, func() {
						for j := 0; j < k; j++ {
							derived.E = append(derived.E, v)
						}
						derived.Real = at.NewListOf(p.h.Arg(v), k)
					})
				}
				if !p.failed && derived.Real != nil {
					at := genWritePath(c, r, root)
					c11Set(p, root, at, model.Ref(derived))
					c.Count("derived_lists_in_tree")
					// overwrite some of its slots through the tree with values of the kind they already hold: only the
					// addressed slot may change (the other slots and the source list share its element storage)
					for k := r.Range(1, 3); k > 0 && !p.failed && len(derived.E) > 0; k-- {
						i := r.Intn(len(derived.E))
						var v model.Val
						switch derived.E[i].K {
						case spec.Int:
							v = model.Int(derived.E[i].I + 9)
						case spec.Str:
							v = model.Str(derived.E[i].S + "!")
						case spec.Float:
							v = model.Float(derived.E[i].F + 0.5)
						case spec.Bool:
							v = model.Bool(!derived.E[i].B)
						default:
							v = scalarVal(r)
						}
						if cur, st := model.Resolve(root, at); st == model.Resolved && cur.Ref == derived {
							c11Set(p, root, at+"#"+strconv.Itoa(i), v)
						}
					}
				}
			}
			if r.Chance(1, 4) && !p.failed {
				// a derived structure (user type embedding an Object / List) stored in the tree: a container of that kind
				var d *model.Node
				if r.Bool() {
					d = p.h.NewObj(NewDObject("own", 1))
					d.M["own"] = model.Int(1)
				} else {
					d = p.h.NewList(NewDDList(1, "two"))
					d.E = []model.Val{model.Int(1), model.Str("two")}
				}
				p.trace = append(p.trace, d.Name()+" = derived structure "+d.Show())
				at := genWritePath(c, r, root)
				c11Set(p, root, at, model.Ref(d))
				c.Count("derived_structures_in_tree")
				// write through it: it must be reused, not replaced
				if cur, st := model.Resolve(root, at); st == model.Resolved && cur.Ref == d && !p.failed {
					if d.K == spec.Obj {
						c11Set(p, root, at+".added", model.Int(2))
						c11Set(p, root, at+".sub#1", model.Str("deep"))
					} else {
						c11Set(p, root, at+"#4", model.Int(2))
						c11Set(p, root, at+"#0.k", model.Str("deep"))
					}
					if !p.failed && d.Real != nil {
						if cur2, st2 := model.Resolve(root, at); st2 != model.Resolved || cur2.Ref != d {
							p.fail("derived-intermediate-replaced", "the stored derived structure stays in its slot", "it was replaced")
						}
					}
				}
			}
			for w := 0; w < writes && !p.failed; w++ {
				if r.Chance(1, 6) {
					// a container that already sits in the tree is stored at one of its own ancestors' slots, at its own
					// slot, or at an unrelated position (reference semantics: one instance at two places); it can never
					// reach the slots above the write position, so no cycle arises
					paths, vals := model.AllPaths(root, 300)
					var cands []int
					for k, v := range vals {
						if v.Ref != nil {
							cands = append(cands, k)
						}
					}
					if len(cands) > 0 {
						k := cands[r.Intn(len(cands))]
						q := paths[k]
						segs, _ := model.SplitPath(q)
						var path string
						switch r.Intn(3) {
						case 0: // its own slot
							path = q
							c.Count("inner_container_written_to_own_slot")
						case 1: // the slot of one of its ancestors
							cut := r.Range(1, len(segs))
							path = ""
							for _, sg := range segs[:cut] {
								path += string(sg.Sigil) + sg.Text
							}
							c.Count("inner_container_written_over_ancestor")
						default: // elsewhere, unless that would put it inside itself
							path = genWritePath(c, r, root)
							inside := map[*model.Node]bool{}
							collectReachable(vals[k].Ref, inside)
							bad := false
							cur := root
							wsegs, okw := model.WellFormed(root.K, path)
							if !okw {
								bad = true
							}
							for _, sg := range wsegs {
								if cur == nil {
									break
								}
								if inside[cur] {
									bad = true
								}
								var nx model.Val
								if sg.Sigil == '.' && cur.K == spec.Obj {
									nx = cur.M[sg.Text]
								} else if sg.Sigil == '#' && cur.K == spec.List {
									if ix, okx := model.CanonIndex(sg.Text); okx && ix < len(cur.E) {
										nx = cur.E[ix]
									}
								}
								cur = nx.Ref
							}
							if bad {
								path = q
							}
							c.Count("inner_container_written_elsewhere")
						}
						c11Set(p, root, path, vals[k])
						continue
					}
				}
				if r.Chance(3, 4) {
					path := genWritePath(c, r, root)
					v := c11Value(p, root)
					if cur, st := model.Resolve(root, path); st == model.Resolved && r.Chance(1, 5) {
						// overwrite a slot with an equal but distinct value: the new instance (not the old one) must be there afterwards
						if cur.Ref != nil {
							v = model.Ref(p.h.FromSpec(cur.Ref.ToSpec()))
						} else {
							v = cur
						}
						c.Count("equal_value_overwrites")
					}
					c11Set(p, root, path, v)
				} else {
					// UnsetTF: a resolvable path, a corruption of one, or a path that does not fit
					paths, _ := model.AllPaths(root, 200)
					var path string
					var rowWise []string
					for _, q := range paths {
						// a path with an index segment dropped ("the field of every row"): it does not resolve
						for _, m := range indexSegRe.FindAllStringIndex(q, -1) {
							if m[1] < len(q) {
								rowWise = append(rowWise, q[:m[0]]+q[m[1]:])
							}
						}
					}
					switch {
					case len(rowWise) > 0 && r.Chance(1, 4):
						path = rowWise[r.Intn(len(rowWise))]
						c.Count("unsettf_paths_with_an_index_segment_dropped")
					case len(paths) > 0 && r.Chance(2, 3):
						path = paths[r.Intn(len(paths))]
					case len(paths) > 0:
						cs := corruptions(r, root, paths[r.Intn(len(paths))])
						path = cs[r.Intn(len(cs))]
					default:
						path = genWritePath(c, r, root)
					}
					c11Unset(p, root, path)
				}
				if len(p.h.Nodes) > 120 {
					break
				}
			}
		})
		c.Distinct(p.input())
		if c.WantSample() && len(p.trace) > 6 && len(p.input()) < 1200 {
			c.Sample(map[string]any{"program": p.trace})
		}
	})
}

// c11Value: a value of any kind: scalar, existing container that does not reach the root (no cycle), fresh
// container, or a Go map/slice (becomes a fresh container with equal content).
func c11Value(p *prog, root *model.Node) model.Val {
	r := p.r
	switch r.Intn(8) {
	case 0:
		// an existing container that shares nothing with the tree (so storing it anywhere cannot close a cycle)
		inTree := map[*model.Node]bool{}
		collectReachable(root, inTree)
		var cands []*model.Node
		for _, n := range p.h.Nodes {
			if n.Real == nil {
				continue
			}
			mine := map[*model.Node]bool{}
			collectReachable(n, mine)
			ok := true
			for m := range mine {
				if inTree[m] {
					ok = false
					break
				}
			}
			if ok {
				cands = append(cands, n)
			}
		}
		if len(cands) > 0 {
			return model.Ref(cands[r.Intn(len(cands))])
		}
		fallthrough
	case 1:
		t := spec.GenTree(r, spec.Opts{MaxDepth: 2, MaxWidth: 2, SafeKeys: true})
		return model.Ref(p.h.FromSpec(t))
	case 2:
		// native map / slice: marked by an unbound model node
		t := spec.GenTree(r, spec.Opts{MaxDepth: 2, MaxWidth: 2, SafeKeys: true})
		if r.Chance(1, 2) {
			return typedFlavour(p, r)
		}
		return p.h.ModelFromSpec(t)
	default:
		return scalarVal(r)
	}
}

// typedFlavour: a native argument of one of the typed map / slice flavours the library supports; the unbound model node
// describes the fresh container it must become, h.TypedArgs holds the Go value itself.
func typedFlavour(p *prog, r *rng.R) model.Val {
	h := p.h
	if h.TypedArgs == nil {
		h.TypedArgs = map[*model.Node]any{}
	}
	p.c.Count("typed_flavour_values")
	fresh := func(k spec.Kind) *model.Node {
		return h.FromSpec(spec.GenTree(r, spec.Opts{MaxDepth: 1, MaxWidth: 2, SafeKeys: true, Root: k}))
	}
	n := r.Intn(3)
	switch r.Intn(12) {
	case 0:
		a, b := fresh(spec.List), fresh(spec.List)
		v := h.ModelFromSpec(spec.ObjV())
		v.Ref.M["l"], v.Ref.M["m"] = model.Ref(a), model.Ref(b)
		h.TypedArgs[v.Ref] = map[string]at.List{"l": a.List(), "m": b.List()}
		return v
	case 1:
		a := fresh(spec.Obj)
		v := h.ModelFromSpec(spec.ObjV())
		v.Ref.M["o"] = model.Ref(a)
		h.TypedArgs[v.Ref] = map[string]at.Object{"o": a.Object()}
		return v
	case 2:
		a, b := fresh(spec.List), fresh(spec.List)
		v := h.ModelFromSpec(spec.ListV())
		v.Ref.E = []model.Val{model.Ref(a), model.Ref(b)}
		h.TypedArgs[v.Ref] = []at.List{a.List(), b.List()}
		return v
	case 3:
		a := fresh(spec.Obj)
		v := h.ModelFromSpec(spec.ListV())
		v.Ref.E = []model.Val{model.Ref(a)}
		h.TypedArgs[v.Ref] = []at.Object{a.Object()}
		return v
	case 4:
		s := []string{"a", "", "zz"}[:n]
		t := spec.ListV()
		for _, x := range s {
			t.L = append(t.L, spec.StrV(x))
		}
		v := h.ModelFromSpec(t)
		h.TypedArgs[v.Ref] = append([]string{}, s...)
		return v
	case 5:
		s := []int{7, -1, 0}[:n]
		t := spec.ListV()
		for _, x := range s {
			t.L = append(t.L, spec.IntV(x))
		}
		v := h.ModelFromSpec(t)
		h.TypedArgs[v.Ref] = append([]int{}, s...)
		return v
	case 6:
		s := []float64{0.5, -2, 1e21}[:n]
		t := spec.ListV()
		for _, x := range s {
			t.L = append(t.L, spec.FloatV(x))
		}
		v := h.ModelFromSpec(t)
		h.TypedArgs[v.Ref] = append([]float64{}, s...)
		return v
	case 7:
		s := []bool{true, false, true}[:n]
		t := spec.ListV()
		for _, x := range s {
			t.L = append(t.L, spec.BoolV(x))
		}
		v := h.ModelFromSpec(t)
		h.TypedArgs[v.Ref] = append([]bool{}, s...)
		return v
	case 8:
		v := h.ModelFromSpec(spec.ObjV("s", spec.StrV("x"), "t", spec.StrV("")))
		h.TypedArgs[v.Ref] = map[string]string{"s": "x", "t": ""}
		return v
	case 9:
		v := h.ModelFromSpec(spec.ObjV("i", spec.IntV(3)))
		h.TypedArgs[v.Ref] = map[string]int{"i": 3}
		return v
	case 10:
		v := h.ModelFromSpec(spec.ObjV("f", spec.FloatV(2.5)))
		h.TypedArgs[v.Ref] = map[string]float64{"f": 2.5}
		return v
	default:
		v := h.ModelFromSpec(spec.ObjV("b", spec.BoolV(true)))
		h.TypedArgs[v.Ref] = map[string]bool{"b": true}
		return v
	}
}

func collectReachable(n *model.Node, into map[*model.Node]bool) {
	if into[n] {
		return
	}
	into[n] = true
	for _, e := range n.E {
		if e.Ref != nil {
			collectReachable(e.Ref, into)
		}
	}
	for _, e := range n.M {
		if e.Ref != nil {
			collectReachable(e.Ref, into)
		}
	}
}

// argFor: Go value for a model value; unbound containers stand for native maps/slices.
func argFor(h *model.Heap, v model.Val) any {
	if v.Ref != nil && v.Ref.Real == nil {
		if a, ok := h.TypedArgs[v.Ref]; ok {
			return a
		}
		return drive.Native(v.Ref.ToSpec())
	}
	return h.Arg(v)
}

// viaCallback: now and then the tree-form write is issued from inside a callback of an iteration over the root (the
// first invocation does it; an empty root gets it straight after). A write is a write wherever it is called from; what
// the iteration itself visits afterwards is not judged here.
func (p *prog) viaCallback(root *model.Node, what string) func(f func()) {
	if p.r == nil || !p.r.Chance(1, 8) {
		return func(f func()) { f() }
	}
	p.c.Count("writes_from_inside_a_callback")
	mode := p.r.Intn(4)
	return func(f func()) {
		done := false
		once := func() {
			if !done {
				done = true
				f()
			}
		}
		switch x := root.Real.(type) {
		case at.List:
			switch mode {
			case 0:
				x.ForEach(func(int, any) { once() })
			case 1:
				x.ForEachValue(func(any) { once() })
			case 2:
				x.Map(func(i int, v any) any { once(); return nil })
			default:
				x.Filter(func(any) bool { once(); return true })
			}
		case at.Object:
			switch mode {
			case 0:
				x.ForEach(func(string, any) { once() })
			case 1:
				x.ForEachValue(func(any) { once() })
			case 2:
				x.Map(func(k string, v any) any { once(); return nil })
			default:
				x.MapValues(func(v any) any { once(); return nil })
			}
		}
		once()
	}
}

func c11Set(p *prog, root *model.Node, path string, v model.Val) {
	segs, ok := model.WellFormed(root.K, path)
	if !ok {
		return
	}
	arg := argFor(p.h, v)
	desc := v.String()
	if v.Ref != nil && v.Ref.Real == nil {
		desc = "native " + v.Ref.ToSpec().Canon()
	}
	var ret any
	via := p.viaCallback(root, "SetTF")
	pan := p.step("SetTF", fmt.Sprintf("root.SetTF(%q, %s)", path, desc), false, func() {
		p.h.SetTF(root, segs, v)
		via(func() {
			switch x := root.Real.(type) {
			case at.List:
				ret = x.SetTF(path, arg)
			case at.Object:
				ret = x.SetTF(path, arg)
			}
		})
	})
	if pan || p.failed {
		return
	}
	p.c.Count("settf_calls")
	if ret != root.Real {
		p.fail("settf-return", "the receiver", "another value")
		return
	}
	got, gpan, gmsg := getTF(root.Real, path)
	if gpan {
		p.fail("gettf-after-settf-panics", "GetTF(p) yields the written value", "panic: "+gmsg)
		return
	}
	if d := p.h.MatchVal(got, v); d != "" {
		p.fail("gettf-after-settf-differs", "GetTF(p) yields the written value "+desc, d)
	}
}

func c11Unset(p *prog, root *model.Node, path string) {
	_, st := model.Resolve(root, path)
	if st == model.OutOfDomain {
		return
	}
	resolvable := st == model.Resolved
	p.op = "UnsetTF"
	p.trace = append(p.trace, fmt.Sprintf("root.UnsetTF(%q) [%s]", path, map[bool]string{true: "resolvable", false: "does not resolve"}[resolvable]))
	p.c.SetAdd("ops", "UnsetTF")
	p.c.Count("steps")
	if resolvable {
		p.h.UnsetTF(root, path)
		p.c.Count("unsettf_resolvable")
	} else {
		p.c.Count("unsettf_unresolvable")
	}
	via := p.viaCallback(root, "UnsetTF")
	pan, msg := drive.Protect(func() { via(func() { unsetTF(root.Real, path) }) })
	if pan && resolvable {
		p.fail("unexpected-panic:UnsetTF", "the addressed slot is removed", "panic: "+msg)
		return
	}
	p.checkHeap()
}

func selfC11(s *fw.SelfCheck) {
	h := &model.Heap{}
	root := h.FromSpec(spec.ListV(spec.IntV(10), spec.IntV(11), spec.IntV(12)))
	segs, ok := model.WellFormed(spec.List, "#6")
	s.Expect(ok, "well-formedness rejects #6")
	h.SetTF(root, segs, model.Str("v"))
	s.Expect(len(root.E) == 7 && root.E[6].S == "v" && root.E[3].K == spec.Nil && root.E[5].K == spec.Nil, "model writer pads wrongly: "+root.Show())
	s.Expect(h.CheckAll() != "", "heap check misses that the real list was not written")
	root.List().SetTF("#6", "v")
	s.Expect(h.CheckAll() == "", "model writer and real SetTF disagree on padding: "+h.CheckAll())
	segs, _ = model.WellFormed(spec.List, "#1.k#1")
	h.SetTF(root, segs, model.Int(1))
	s.Expect(root.E[1].K == spec.Obj && root.E[1].Ref.M["k"].Ref.E[0].K == spec.Nil, "model writer does not replace a wrong-kind intermediate")
	_, ok = model.WellFormed(spec.List, ".a")
	s.Expect(!ok, "well-formedness accepts a wrong leading sigil")
	_, ok = model.WellFormed(spec.Obj, ".a..b")
	s.Expect(!ok, "well-formedness accepts an empty segment")
	o := h.FromSpec(spec.ObjV("n", spec.NilV()))
	s.Expect(h.UnsetTF(o, ".n") && len(o.M) == 0, "model UnsetTF does not remove a nil-valued field")
}

var indexSegRe = regexp.MustCompile(`#[0-9]+`)
