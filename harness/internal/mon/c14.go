package mon

import (
	"fmt"
	"math"
	"reflect"
	"regexp"
	"sort"
	"strconv"
	"strings"

	at "github.com/DanielSvub/anytype"

	"verifharness/internal/drive"
	"verifharness/internal/fw"
	"verifharness/internal/model"
	"verifharness/internal/rng"
	"verifharness/internal/spec"
)

func init() { register(&Monitor{ID: "C14", Run: runC14, Self: selfC14}) }

// obs is one observed element: index (or key), kind and the value Get returns.
type obs struct {
	idx int
	key string
	t   at.Type
	v   any
}

func observeList(l at.List) []obs {
	out := make([]obs, l.Count())
	for i := range out {
		out[i] = obs{idx: i, t: l.TypeOf(i), v: l.Get(i)}
	}
	return out
}

func observeObject(o at.Object) []obs {
	keys := o.Keys()
	out := make([]obs, 0, keys.Count())
	for i := 0; i < keys.Count(); i++ {
		k := keys.GetString(i)
		out = append(out, obs{key: k, t: o.TypeOf(k), v: o.Get(k)})
	}
	return out
}

func ofKind(all []obs, t at.Type) []obs {
	var out []obs
	for _, e := range all {
		if e.t == t {
			out = append(out, e)
		}
	}
	return out
}

func showObs(o []obs) string {
	s := make([]string, len(o))
	for i, e := range o {
		if e.key != "" || false {
			s[i] = fmt.Sprintf("%q:%v", e.key, showSlot(e.v))
		} else {
			s[i] = fmt.Sprintf("%d:%v", e.idx, showSlot(e.v))
		}
	}
	return "[" + strings.Join(s, " ") + "]"
}

func showSlot(v any) string {
	switch x := v.(type) {
	case at.List:
		return fmt.Sprintf("<list %p>", x)
	case at.Object:
		return fmt.Sprintf("<object %p>", x)
	case string:
		return fmt.Sprintf("%q", spec.Trunc(x, 20))
	}
	return fmt.Sprint(v)
}

// sparseTag is a second pure mapping function: for some arguments (decided by the argument's value) the result is nil
// or a value of another kind; the results of a Map view must stay aligned with the elements all the same.
func sparseTag(v any) any {
	switch spec.Hash(showSlot(v)) % 4 {
	case 0:
		return nil
	case 1:
		return "other kind"
	}
	return tag(v)
}

// tag is the pure mapping function used by Map*: it keeps the argument recognisable.
func tag(v any) any {
	switch x := v.(type) {
	case at.List, at.Object:
		return x
	case string:
		return "m:" + x
	case int:
		return x*2 + 1
	case float64:
		return x + 0.25
	case bool:
		return !x
	}
	return "m:nil"
}

var typeNames = map[at.Type]string{at.TypeObject: "Object", at.TypeList: "List", at.TypeString: "String", at.TypeBool: "Bool", at.TypeInt: "Int", at.TypeFloat: "Float"}
var typedKinds = []at.Type{at.TypeObject, at.TypeList, at.TypeString, at.TypeBool, at.TypeInt, at.TypeFloat}

type c14Run struct {
	c    *fw.Ctx
	desc func() string
	bad  bool
}

func (x *c14Run) fail(view, expected, observed string) {
	if x.bad {
		return
	}
	x.bad = true
	x.c.Violate("view-wrong:"+view, x.desc()+"\nview "+view, expected, observed)
}

// sameSeq compares a visited / returned sequence with the expected subsequence (values by eqSlot).
func (x *c14Run) sameSeq(view string, got []any, want []obs, conv func(any) any) {
	x.c.Count("views_checked")
	x.c.SetAdd("views", view)
	ok := len(got) == len(want)
	if ok {
		for i := range got {
			w := want[i].v
			if conv != nil {
				w = conv(w)
			}
			if !eqSlot(got[i], w) {
				ok = false
				break
			}
		}
	}
	if !ok {
		ws := make([]string, len(want))
		for i, w := range want {
			v := w.v
			if conv != nil {
				v = conv(v)
			}
			ws[i] = showSlot(v)
		}
		gs := make([]string, len(got))
		for i, g := range got {
			gs[i] = showSlot(g)
		}
		x.fail(view, "exactly the elements of that kind, in order, each once: ["+strings.Join(ws, " ")+"]", "["+strings.Join(gs, " ")+"]")
	}
}

func listToSlice(l at.List) []any {
	out := make([]any, l.Count())
	for i := range out {
		out[i] = l.Get(i)
	}
	return out
}

// checkListViews runs every view of the List interface against the observation `all` taken through Count/TypeOf/Get.
func (x *c14Run) checkListViews(l at.List, r *rng.R) {
	all := observeList(l)
	mask := r.U64()
	for _, t := range typedKinds {
		if x.bad {
			return
		}
		want := ofKind(all, t)
		name := typeNames[t]
		// XSlice
		var sl []any
		switch t {
		case at.TypeObject:
			for _, e := range l.ObjectSlice() {
				sl = append(sl, e)
			}
		case at.TypeList:
			for _, e := range l.ListSlice() {
				sl = append(sl, e)
			}
		case at.TypeString:
			for _, e := range l.StringSlice() {
				sl = append(sl, e)
			}
		case at.TypeBool:
			for _, e := range l.BoolSlice() {
				sl = append(sl, e)
			}
		case at.TypeInt:
			for _, e := range l.IntSlice() {
				sl = append(sl, e)
			}
		case at.TypeFloat:
			for _, e := range l.FloatSlice() {
				sl = append(sl, e)
			}
		}
		x.sameSeq(name+"Slice", sl, want, nil)
		// ForEachX / MapX / FilterX with a call log
		var fe, mlog, flog []any
		var mres, fres at.List
		calls := 0
		pred := func() bool { calls++; return mask>>(uint(calls)&63)&1 == 1 }
		var ret at.List
		switch t {
		case at.TypeObject:
			ret = l.ForEachObject(func(o at.Object) { fe = append(fe, o) })
			mres = l.MapObjects(func(o at.Object) any { mlog = append(mlog, o); return tag(o) })
			fres = l.FilterObjects(func(o at.Object) bool { flog = append(flog, o); return pred() })
		case at.TypeList:
			ret = l.ForEachList(func(o at.List) { fe = append(fe, o) })
			mres = l.MapLists(func(o at.List) any { mlog = append(mlog, o); return tag(o) })
			fres = l.FilterLists(func(o at.List) bool { flog = append(flog, o); return pred() })
		case at.TypeString:
			ret = l.ForEachString(func(o string) { fe = append(fe, o) })
			mres = l.MapStrings(func(o string) any { mlog = append(mlog, o); return tag(o) })
			fres = l.FilterStrings(func(o string) bool { flog = append(flog, o); return pred() })
		case at.TypeBool:
			ret = l.ForEachBool(func(o bool) { fe = append(fe, o) })
			mres = l.MapBools(func(o bool) any { mlog = append(mlog, o); return tag(o) })
		case at.TypeInt:
			ret = l.ForEachInt(func(o int) { fe = append(fe, o) })
			mres = l.MapInts(func(o int) any { mlog = append(mlog, o); return tag(o) })
			fres = l.FilterInts(func(o int) bool { flog = append(flog, o); return pred() })
		case at.TypeFloat:
			ret = l.ForEachFloat(func(o float64) { fe = append(fe, o) })
			mres = l.MapFloats(func(o float64) any { mlog = append(mlog, o); return tag(o) })
			fres = l.FilterFloats(func(o float64) bool { flog = append(flog, o); return pred() })
		}
		if any(ret) != any(l) {
			x.fail("ForEach"+name+"-return", "the receiver", "another value")
		}
		x.sameSeq("ForEach"+name, fe, want, nil)
		x.sameSeq("Map"+name+"s-calls", mlog, want, nil)
		x.sameSeq("Map"+name+"s-result", listToSlice(mres), want, tag)
		var mres2 at.List
		switch t {
		case at.TypeObject:
			mres2 = l.MapObjects(func(o at.Object) any { return sparseTag(o) })
		case at.TypeList:
			mres2 = l.MapLists(func(o at.List) any { return sparseTag(o) })
		case at.TypeString:
			mres2 = l.MapStrings(func(o string) any { return sparseTag(o) })
		case at.TypeBool:
			mres2 = l.MapBools(func(o bool) any { return sparseTag(o) })
		case at.TypeInt:
			mres2 = l.MapInts(func(o int) any { return sparseTag(o) })
		case at.TypeFloat:
			mres2 = l.MapFloats(func(o float64) any { return sparseTag(o) })
		}
		x.sameSeq("Map"+name+"s-result(nil and other-kind results)", listToSlice(mres2), want, sparseTag)
		if fres != nil {
			x.sameSeq("Filter"+name+"s-calls", flog, want, nil)
			var keep []obs
			for i, w := range want {
				if mask>>(uint(i+1)&63)&1 == 1 {
					keep = append(keep, w)
				}
			}
			x.sameSeq("Filter"+name+"s-result", listToSlice(fres), keep, nil)
		}
		// AllX
		var allx bool
		switch t {
		case at.TypeObject:
			allx = l.AllObjects()
		case at.TypeList:
			allx = l.AllLists()
		case at.TypeString:
			allx = l.AllStrings()
		case at.TypeBool:
			allx = l.AllBools()
		case at.TypeInt:
			allx = l.AllInts()
		case at.TypeFloat:
			allx = l.AllFloats()
		}
		x.c.Count("views_checked")
		x.c.SetAdd("views", "All"+name+"s")
		if allx != (len(want) == len(all)) {
			x.fail("All"+name+"s", fmt.Sprint(len(want) == len(all)), fmt.Sprintf("%v on %s", allx, showObs(all)))
		}
	}
	if x.bad {
		return
	}
	// AllNumeric
	nnum := len(ofKind(all, at.TypeInt)) + len(ofKind(all, at.TypeFloat))
	x.c.SetAdd("views", "AllNumeric")
	if l.AllNumeric() != (nnum == len(all)) {
		x.fail("AllNumeric", fmt.Sprint(nnum == len(all)), fmt.Sprintf("%v on %s", l.AllNumeric(), showObs(all)))
	}
	// typed reductions with an order-sensitive fold
	strs, ints, flts := ofKind(all, at.TypeString), ofKind(all, at.TypeInt), ofKind(all, at.TypeFloat)
	ws := "^"
	for _, e := range strs {
		ws = "(" + ws + "|" + e.v.(string) + ")"
	}
	if got := l.ReduceStrings("^", func(a, b string) string { return "(" + a + "|" + b + ")" }); got != ws {
		x.fail("ReduceStrings", ws, got)
	}
	wi := 17
	for _, e := range ints {
		wi = wi*31 + e.v.(int)
	}
	if got := l.ReduceInts(17, func(a, b int) int { return a*31 + b }); got != wi {
		x.fail("ReduceInts", fmt.Sprint(wi), fmt.Sprint(got))
	}
	wf := 1.5
	for _, e := range flts {
		wf = wf/2 - e.v.(float64)
	}
	if got := l.ReduceFloats(1.5, func(a, b float64) float64 { return a/2 - b }); got != wf && !(got != got && wf != wf) {
		x.fail("ReduceFloats", fmt.Sprint(wf), fmt.Sprint(got))
	}
	x.c.Add("views_checked", 3)
	x.c.SetAdd("views", "ReduceStrings")
	x.c.SetAdd("views", "ReduceInts")
	x.c.SetAdd("views", "ReduceFloats")
	// untyped views: every element once, in order, with its index and value
	var fe, fv, ml, mv, fl []any
	var idxs []int
	l.ForEach(func(i int, v any) { idxs = append(idxs, i); fe = append(fe, v) })
	l.ForEachValue(func(v any) { fv = append(fv, v) })
	var midx []int
	mres := l.Map(func(i int, v any) any { midx = append(midx, i); ml = append(ml, v); return tag(v) })
	mvres := l.MapValues(func(v any) any { mv = append(mv, v); return tag(v) })
	calls := 0
	fres := l.Filter(func(v any) bool { fl = append(fl, v); calls++; return mask>>(uint(calls)&63)&1 == 1 })
	x.sameSeq("ForEach", fe, all, nil)
	x.sameSeq("ForEachValue", fv, all, nil)
	x.sameSeq("Map-calls", ml, all, nil)
	x.sameSeq("Map-result", listToSlice(mres), all, tag)
	x.sameSeq("MapValues-calls", mv, all, nil)
	x.sameSeq("MapValues-result", listToSlice(mvres), all, tag)
	x.sameSeq("Map-result(nil and other-kind results)", listToSlice(l.Map(func(i int, v any) any { return sparseTag(v) })), all, sparseTag)
	x.sameSeq("MapValues-result(nil and other-kind results)", listToSlice(l.MapValues(sparseTag)), all, sparseTag)
	x.sameSeq("Filter-calls", fl, all, nil)
	var keep []obs
	for i, w := range all {
		if mask>>(uint(i+1)&63)&1 == 1 {
			keep = append(keep, w)
		}
	}
	x.sameSeq("Filter-result", listToSlice(fres), keep, nil)
	for i := range idxs {
		if idxs[i] != i {
			x.fail("ForEach-index", "indices 0..n-1 in order", fmt.Sprint(idxs))
			break
		}
	}
	for i := range midx {
		if midx[i] != i {
			x.fail("Map-index", "indices 0..n-1 in order", fmt.Sprint(midx))
			break
		}
	}
	// Reduce visits all in order (also when the initial value is nil: it is the first accumulator, not an element)
	var rl []any
	l.Reduce(0, func(acc any, v any) any { rl = append(rl, v); return acc })
	x.sameSeq("Reduce", rl, all, nil)
	var rn []any
	firstAcc := any("unset")
	calls0 := 0
	l.Reduce(nil, func(acc any, v any) any {
		if calls0 == 0 {
			firstAcc = acc
		}
		calls0++
		rn = append(rn, v)
		return "acc"
	})
	x.sameSeq("Reduce(nil initial)", rn, all, nil)
	if len(all) > 0 && firstAcc != nil {
		x.fail("Reduce(nil initial)", "the first call receives the initial value nil as accumulator", fmt.Sprintf("%v", firstAcc))
	}
	// the accumulator is the caller's business: whatever Go value the function returns is what the next call receives
	// and what Reduce returns in the end (a slice collecting the values, a struct, a pointer, a value of a named type)
	type tally struct {
		n    int
		last any
	}
	type named int
	if pan, msg := drive.Protect(func() {
		got := l.Reduce([]any{}, func(acc any, v any) any { return append(acc.([]any), v) })
		gs, ok := got.([]any)
		if !ok {
			x.fail("Reduce(slice accumulator)", "the []any the function returned last (the initial one on an empty list)", fmt.Sprintf("%T", got))
			return
		}
		x.sameSeq("Reduce(slice accumulator)", gs, all, nil)
		gt := l.Reduce(tally{}, func(acc any, v any) any { t := acc.(tally); return tally{t.n + 1, v} })
		if t, ok := gt.(tally); !ok || t.n != len(all) {
			x.fail("Reduce(struct accumulator)", fmt.Sprintf("a tally of %d calls", len(all)), fmt.Sprintf("%T %v", gt, gt))
			return
		}
		cnt := new(int)
		gp := l.Reduce(cnt, func(acc any, v any) any { *acc.(*int)++; return acc })
		if gp != any(cnt) || *cnt != len(all) {
			x.fail("Reduce(pointer accumulator)", fmt.Sprintf("the same *int, counting %d calls", len(all)), fmt.Sprintf("%T, %d calls", gp, *cnt))
			return
		}
		gn := l.Reduce(named(0), func(acc any, v any) any { return acc.(named) + 1 })
		if n, ok := gn.(named); !ok || int(n) != len(all) {
			x.fail("Reduce(named int accumulator)", fmt.Sprintf("named(%d)", len(all)), fmt.Sprintf("%T %v", gn, gn))
		}
	}); pan {
		x.fail("Reduce(accumulator of the caller's own type)", "the accumulator is handed from call to call as it is", "panic: "+msg)
	}
	if x.bad {
		return
	}
	// re-entrancy: a callback may itself use read-only views of the same list; neither the inner nor the outer
	// result may be disturbed (run twice so that anything kept from the first call is in play)
	for round := 0; round < 2 && !x.bad && len(all) <= 100; round++ {
		innerOK := true
		outer := l.Map(func(i int, v any) any {
			switch (i + round) % 4 {
			case 0:
				if !sameAnySeq(listToSlice(l.MapValues(tag)), all, tag) {
					innerOK = false
				}
			case 1:
				if !sameAnySeq(listToSlice(l.MapInts(func(y int) any { return tag(y) })), ints, tag) {
					innerOK = false
				}
			case 2:
				if !sameAnySeq(listToSlice(l.Filter(func(any) bool { return true })), all, nil) {
					innerOK = false
				}
			default:
				var seen []any
				l.ForEachValue(func(w any) { seen = append(seen, w) })
				if !sameAnySeq(seen, all, nil) {
					innerOK = false
				}
			}
			return tag(v)
		})
		x.sameSeq("Map-with-reentrant-views-result", listToSlice(outer), all, tag)
		if !innerOK {
			x.fail("reentrant-inner-view", "a view called from inside a Map callback of the same list sees every element once, in order", "the inner result differs")
		}
		innerOK = true
		outerInts := l.MapInts(func(y int) any {
			if !sameAnySeq(listToSlice(l.MapInts(func(z int) any { return y * z })), ints, func(v any) any { return y * v.(int) }) {
				innerOK = false
			}
			return tag(y)
		})
		x.sameSeq("MapInts-nested-in-MapInts-result", listToSlice(outerInts), ints, tag)
		if !innerOK {
			x.fail("reentrant-inner-view", "MapInts called from inside a MapInts callback of the same list returns the inner products", "the inner result differs")
		}
	}
}

func sameAnySeq(got []any, want []obs, conv func(any) any) bool {
	if len(got) != len(want) {
		return false
	}
	for i := range got {
		w := want[i].v
		if conv != nil {
			w = conv(w)
		}
		if !eqSlot(got[i], w) {
			return false
		}
	}
	return true
}

// sortObs orders observations by key (objects are compared as sets).
func sortByKey(o []obs) []obs {
	out := append([]obs{}, o...)
	sort.Slice(out, func(i, j int) bool { return out[i].key < out[j].key })
	return out
}

type kv struct {
	k string
	v any
}

func (x *c14Run) sameSet(view string, got []kv, want []obs, conv func(any) any, keyed bool) {
	x.c.Count("views_checked")
	x.c.SetAdd("views", view)
	ok := len(got) == len(want)
	if ok && keyed {
		sort.Slice(got, func(i, j int) bool { return got[i].k < got[j].k })
		w := sortByKey(want)
		for i := range got {
			e := w[i].v
			if conv != nil {
				e = conv(e)
			}
			if got[i].k != w[i].key || !eqSlot(got[i].v, e) {
				ok = false
				break
			}
		}
	} else if ok {
		// multiset of values
		used := make([]bool, len(want))
		for _, g := range got {
			found := false
			for j, w := range want {
				e := w.v
				if conv != nil {
					e = conv(e)
				}
				if !used[j] && eqSlot(g.v, e) {
					used[j], found = true, true
					break
				}
			}
			if !found {
				ok = false
				break
			}
		}
	}
	if !ok {
		gs := make([]string, len(got))
		for i, g := range got {
			gs[i] = fmt.Sprintf("%q:%s", g.k, showSlot(g.v))
		}
		x.fail(view, "exactly the fields of that kind, each once: "+showObs(sortByKey(want)), "["+strings.Join(gs, " ")+"]")
	}
}

func objToKV(o at.Object) []kv {
	var out []kv
	for _, e := range observeObject(o) {
		out = append(out, kv{e.key, e.v})
	}
	return out
}

func (x *c14Run) checkObjectViews(o at.Object) {
	all := observeObject(o)
	var fe, fv []kv
	o.ForEach(func(k string, v any) { fe = append(fe, kv{k, v}) })
	o.ForEachValue(func(v any) { fv = append(fv, kv{"", v}) })
	x.sameSet("Object.ForEach", fe, all, nil, true)
	x.sameSet("Object.ForEachValue", fv, all, nil, false)
	var mlog []kv
	mres := o.Map(func(k string, v any) any { mlog = append(mlog, kv{k, v}); return tag(v) })
	x.sameSet("Object.Map-calls", mlog, all, nil, true)
	x.sameSet("Object.Map-result", objToKV(mres), all, tag, true)
	var mvlog []kv
	mvres := o.MapValues(func(v any) any { mvlog = append(mvlog, kv{"", v}); return tag(v) })
	x.sameSet("Object.MapValues-calls", mvlog, all, nil, false)
	x.sameSet("Object.MapValues-result", objToKV(mvres), all, tag, true)
	x.sameSet("Object.Map-result(nil and other-kind results)", objToKV(o.Map(func(k string, v any) any { return sparseTag(v) })), all, sparseTag, true)
	x.sameSet("Object.MapValues-result(nil and other-kind results)", objToKV(o.MapValues(sparseTag)), all, sparseTag, true)
	for _, t := range typedKinds {
		if x.bad {
			return
		}
		want := ofKind(all, t)
		name := typeNames[t]
		var fe, ml []kv
		var mres at.Object
		switch t {
		case at.TypeObject:
			o.ForEachObject(func(v at.Object) { fe = append(fe, kv{"", v}) })
			mres = o.MapObjects(func(v at.Object) any { ml = append(ml, kv{"", v}); return tag(v) })
		case at.TypeList:
			o.ForEachList(func(v at.List) { fe = append(fe, kv{"", v}) })
			mres = o.MapLists(func(v at.List) any { ml = append(ml, kv{"", v}); return tag(v) })
		case at.TypeString:
			o.ForEachString(func(v string) { fe = append(fe, kv{"", v}) })
			mres = o.MapStrings(func(v string) any { ml = append(ml, kv{"", v}); return tag(v) })
		case at.TypeBool:
			o.ForEachBool(func(v bool) { fe = append(fe, kv{"", v}) })
			mres = o.MapBools(func(v bool) any { ml = append(ml, kv{"", v}); return tag(v) })
		case at.TypeInt:
			o.ForEachInt(func(v int) { fe = append(fe, kv{"", v}) })
			mres = o.MapInts(func(v int) any { ml = append(ml, kv{"", v}); return tag(v) })
		case at.TypeFloat:
			o.ForEachFloat(func(v float64) { fe = append(fe, kv{"", v}) })
			mres = o.MapFloats(func(v float64) any { ml = append(ml, kv{"", v}); return tag(v) })
		}
		x.sameSet("Object.ForEach"+name, fe, want, nil, false)
		x.sameSet("Object.Map"+name+"s-calls", ml, want, nil, false)
		x.sameSet("Object.Map"+name+"s-result", objToKV(mres), want, tag, true)
		var mres2 at.Object
		switch t {
		case at.TypeObject:
			mres2 = o.MapObjects(func(v at.Object) any { return sparseTag(v) })
		case at.TypeList:
			mres2 = o.MapLists(func(v at.List) any { return sparseTag(v) })
		case at.TypeString:
			mres2 = o.MapStrings(func(v string) any { return sparseTag(v) })
		case at.TypeBool:
			mres2 = o.MapBools(func(v bool) any { return sparseTag(v) })
		case at.TypeInt:
			mres2 = o.MapInts(func(v int) any { return sparseTag(v) })
		case at.TypeFloat:
			mres2 = o.MapFloats(func(v float64) any { return sparseTag(v) })
		}
		x.sameSet("Object.Map"+name+"s-result(nil and other-kind results)", objToKV(mres2), want, sparseTag, true)
	}
}

var viewRe = regexp.MustCompile(`^(ForEach|Map|Filter|Reduce|All)|Slice$`)

// knownViews: the view methods this monitor covers (a view the API gains later shows up as unmonitored in evidence).
var knownViews = map[string]bool{}

func init() {
	for _, n := range []string{"ForEach", "ForEachValue", "Map", "MapValues", "Filter", "Reduce", "AllNumeric", "Slice", "NativeSlice", "ForEachAsync", "MapAsync",
		"ReduceStrings", "ReduceInts", "ReduceFloats", "FilterObjects", "FilterLists", "FilterStrings", "FilterInts", "FilterFloats"} {
		knownViews[n] = true
	}
	for _, n := range typeNames {
		knownViews[n+"Slice"] = true
		knownViews["ForEach"+n] = true
		knownViews["Map"+n+"s"] = true
		knownViews["All"+n+"s"] = true
	}
}

func runC14(c *fw.Ctx) {
	// report views the interfaces offer that this monitor does not know
	for _, t := range []reflect.Type{reflect.TypeOf((*at.List)(nil)).Elem(), reflect.TypeOf((*at.Object)(nil)).Elem()} {
		for i := 0; i < t.NumMethod(); i++ {
			n := t.Method(i).Name
			if viewRe.MatchString(n) && !knownViews[n] {
				c.SetAdd("unmonitored_views", t.Name()+"."+n)
			}
		}
	}
	S, I, F, L, O, B, N := spec.StrV, spec.IntV, spec.FloatV, spec.ListV, spec.ObjV, spec.BoolV, spec.NilV
	pins := []*spec.Spec{
		L(S("a"), S(""), S("b")), L(I(3), S("x"), I(1)), L(), L(N()), L(I(1), F(1), I(2), F(2.5)), L(O(), L(), O("a", I(1)), L(I(1))),
		L(B(true), I(0), B(false), S("false"), N(), F(0)), L(S(""), S(""), I(0), I(0)),
		O("a", S(""), "b", S("x"), "c", I(1), "d", N(), "e", L(), "f", O(), "", F(1.5), "g", B(false)), O(),
		// floats that are no ordinary numbers are of kind float like any other
		L(F(math.NaN())), L(I(1), F(2.5), F(math.NaN())), L(F(math.Inf(1)), F(math.NaN()), I(2), F(math.Inf(-1)), F(math.Copysign(0, -1))), L(F(math.NaN()), S("x"), F(math.NaN())),
		O("a", F(math.NaN()), "b", I(1), "c", F(math.Inf(-1))),
	}
	c.Cases("pinned", len(pins), true, func(i int, r *rng.R) { c14Case(c, r, pins[i]) })
	c.Cases("mutating-callbacks", c.N(400, 100000), false, func(i int, r *rng.R) { c14Mutating(c, r) })
	c.Cases("panicking-callbacks", c.N(400, 100000), false, func(i int, r *rng.R) { c14Panicking(c, r) })
	c.Cases("scratch-reuse", c.N(300, 50000), false, func(i int, r *rng.R) { c14Scratch(c, r) })
	c.Cases("current-values", c.N(300, 50000), false, func(i int, r *rng.R) { c14Current(c, r) })
	// histories: a tree goes through rounds of mutations (methods, nested in place, tree-form writes with padding, one
	// container instance stored at several places); after every round every list and object of the tree shows all its views
	historyCases(c, "history", 300, 30000, probeViews)
	c.Cases("embedded-values", c.N(60, 6000), false, func(i int, r *rng.R) { c14Embedded(c, r) })
	c.Cases("containers", c.N(2000, 1000000), false, func(i int, r *rng.R) {
		// several elements of each kind interleaved, none of a kind, neighbours of look-alike kinds, empty
		root := spec.List
		if r.Chance(1, 3) {
			root = spec.Obj
		}
		t := &spec.Spec{K: root}
		n := []int{0, 1, 2, 5, 9, r.Range(0, 14), r.Range(0, 14), 33, 70, r.Range(0, 14), []int{130, 300, 1025}[r.Intn(3)]}[r.Intn(11)]
		kinds := r.U64() | 1<<uint(r.Intn(7)) // which kinds may occur
		for j := 0; j < n; j++ {
			var v *spec.Spec
			for {
				k := r.Intn(7)
				if kinds>>uint(k)&1 == 0 {
					continue
				}
				switch k {
				case 0:
					v = N()
				case 1:
					v = B(r.Bool())
				case 2:
					v = I(r.Range(-3, 3))
					if r.Chance(1, 6) {
						v = I(spec.GenInt(r)) // ints beyond 2^53 included
					}
				case 3:
					v = F(float64(r.Range(-6, 6)) / 2)
					if r.Chance(1, 8) {
						v = F([]float64{math.NaN(), math.Inf(1), math.Inf(-1), math.Copysign(0, -1), math.MaxFloat64, math.SmallestNonzeroFloat64}[r.Intn(6)])
					}
				case 4:
					v = S([]string{"", "a", "b", "0", "true"}[r.Intn(5)])
				case 5:
					v = L(I(r.Intn(3)))
				default:
					v = O("k", I(r.Intn(3)))
				}
				break
			}
			if root == spec.List {
				t.L = append(t.L, v)
			} else {
				t.Set(c06Keys[r.Intn(len(c06Keys))]+fmt.Sprint(j%4), v)
			}
		}
		c14Case(c, r, t)
	})
}

// c14Mutating: callbacks that change the container they are iterating. What "the fields" are is then open for the
// entries the callback removed or added itself, but not for the others: an entry the callback never touches is visited
// exactly once (with its key / index and value), a removed or added one at most once, and the iteration ends normally.
func c14Mutating(c *fw.Ctx, r *rng.R) {
	n := r.Range(2, 9)
	keys := make([]string, n)
	for i := range keys {
		keys[i] = fmt.Sprintf("%c%d", 'a'+rune(r.Intn(6)), i)
	}
	victims := map[string]bool{}
	for i := r.Range(1, n-1); i > 0; i-- {
		victims[keys[r.Intn(n)]] = true
	}
	mode := r.Intn(3) // 0: remove the victims at the first call, 1: each call removes one victim, 2: the callback adds new fields
	view := r.Intn(6)
	names := []string{"ForEach", "ForEachValue", "ForEachInt", "Map", "MapValues", "MapInts"}
	in := func() string {
		return fmt.Sprintf("object with the int fields %v; Object.%s whose callback (mode %d) unsets / adds fields other than the current one; victims %v", keys, names[view], mode, victims)
	}
	guard(c, in, func() {
		c.Distinct(in())
		c.Count("mutating_callback_cases")
		o := at.NewObject()
		val := map[string]int{}
		for i, k := range keys {
			o.Set(k, i*10)
			val[k] = i * 10
		}
		byVal := map[int]string{}
		for k, v := range val {
			byVal[v] = k
		}
		visits := map[string]int{}
		removed := map[string]bool{}
		calls := 0
		act := func(cur string) {
			calls++
			visits[cur]++
			switch mode {
			case 0:
				if calls == 1 {
					for k := range victims {
						if k != cur {
							o.Unset(k)
							removed[k] = true
						}
					}
				}
			case 1:
				for k := range victims {
					if k != cur && !removed[k] {
						o.Unset(k)
						removed[k] = true
						break
					}
				}
			default:
				if calls <= 3 {
					o.Set(fmt.Sprintf("new%d", calls), 1000+calls)
				}
			}
		}
		var res at.Object
		pan, msg := drive.Protect(func() {
			switch view {
			case 0:
				o.ForEach(func(k string, v any) { act(k) })
			case 1:
				o.ForEachValue(func(v any) {
					if iv, ok := v.(int); ok && iv < 1000 {
						act(byVal[iv])
					}
				})
			case 2:
				o.ForEachInt(func(v int) {
					if v < 1000 {
						act(byVal[v])
					}
				})
			case 3:
				res = o.Map(func(k string, v any) any { act(k); return tag(v) })
			case 4:
				res = o.MapValues(func(v any) any {
					if iv, ok := v.(int); ok && iv < 1000 {
						act(byVal[iv])
					}
					return tag(v)
				})
			default:
				res = o.MapInts(func(v int) any {
					if v < 1000 {
						act(byVal[v])
					}
					return tag(v)
				})
			}
		})
		if pan {
			c.Violate("view-wrong:mutating-callback", in(), "the iteration ends normally; every field the callback did not touch is visited once", "panic: "+msg)
			return
		}
		for _, k := range keys {
			switch {
			case !removed[k] && visits[k] != 1:
				c.Violate("view-wrong:mutating-callback", in(), fmt.Sprintf("field %q, never removed, visited exactly once", k), fmt.Sprintf("visited %d times (visits %v)", visits[k], visits))
				return
			case visits[k] > 1:
				c.Violate("view-wrong:mutating-callback", in(), fmt.Sprintf("field %q visited at most once", k), fmt.Sprintf("visited %d times", visits[k]))
				return
			}
			if res != nil && !removed[k] {
				ok := false
				drive.Protect(func() { ok = res.KeyExists(k) && eqSlot(res.Get(k), tag(val[k])) })
				if !ok {
					c.Violate("view-wrong:mutating-callback", in(), fmt.Sprintf("Map result holds f(value) under the key %q of a field that was never removed", k), "it does not: "+stringCanon(res))
					return
				}
			}
		}
	})
	// lists: the callback appends elements; the elements that were there from the start are visited once each, in order
	m := r.Range(1, 8)
	inL := func() string {
		return fmt.Sprintf("list of the ints 0..%d; List.%s whose callback appends elements", m-1, []string{"ForEach", "ForEachValue", "ForEachInt", "Map", "MapValues", "MapInts"}[view])
	}
	guard(c, inL, func() {
		c.Distinct(inL())
		l := at.NewList()
		for i := 0; i < m; i++ {
			l.Add(i)
		}
		var seen []int
		calls := 0
		act := func(v int) {
			calls++
			if v < 1000 {
				seen = append(seen, v)
			}
			if calls <= 3 {
				l.Add(1000 + calls)
			}
		}
		pan, msg := drive.Protect(func() {
			switch view {
			case 0:
				l.ForEach(func(i int, v any) { act(v.(int)) })
			case 1:
				l.ForEachValue(func(v any) { act(v.(int)) })
			case 2:
				l.ForEachInt(func(v int) { act(v) })
			case 3:
				l.Map(func(i int, v any) any { act(v.(int)); return v })
			case 4:
				l.MapValues(func(v any) any { act(v.(int)); return v })
			default:
				l.MapInts(func(v int) any { act(v); return v })
			}
		})
		if pan {
			c.Violate("view-wrong:mutating-callback", inL(), "the iteration ends normally", "panic: "+msg)
			return
		}
		ok := len(seen) == m
		for i := 0; ok && i < m; i++ {
			ok = seen[i] == i
		}
		if !ok {
			c.Violate("view-wrong:mutating-callback", inL(), "the original elements visited once each, in order", fmt.Sprint(seen))
		}
	})
	// lists: the first callback shortens the list from its end (Pop, Delete of the last index, once or several times): the
	// elements that stay are visited once each, in order, the removed ones at most once, and the library does not panic
	pops := r.Range(1, 3)
	shortenBy := r.Intn(3)
	m2 := m + pops + 1
	view8 := r.Intn(8)
	inP := func() string {
		return fmt.Sprintf("list of the ints 0..%d; List.%s whose first callback removes the last %d element(s) by %s", m2-1,
			[]string{"ForEach", "ForEachValue", "ForEachInt", "Map", "MapValues", "MapInts", "Filter", "Reduce"}[view8], pops, []string{"Pop", "Delete(last)", "UnsetTF(#last)"}[shortenBy])
	}
	guard(c, inP, func() {
		c.Distinct(inP())
		c.Count("mutating_callback_cases")
		l := at.NewList()
		for i := 0; i < m2; i++ {
			l.Add(i)
		}
		var seen []int
		calls := 0
		act := func(v int) {
			calls++
			seen = append(seen, v)
			if calls == 1 {
				for k := 0; k < pops; k++ {
					switch shortenBy {
					case 0:
						l.Pop()
					case 1:
						l.Delete(l.Count() - 1)
					default:
						l.UnsetTF("#" + strconv.Itoa(l.Count()-1))
					}
				}
			}
		}
		pan, msg := drive.Protect(func() {
			switch view8 {
			case 0:
				l.ForEach(func(i int, v any) { act(v.(int)) })
			case 1:
				l.ForEachValue(func(v any) { act(v.(int)) })
			case 2:
				l.ForEachInt(func(v int) { act(v) })
			case 3:
				l.Map(func(i int, v any) any { act(v.(int)); return v })
			case 4:
				l.MapValues(func(v any) any { act(v.(int)); return v })
			case 5:
				l.MapInts(func(v int) any { act(v); return v })
			case 6:
				l.Filter(func(v any) bool { act(v.(int)); return true })
			default:
				l.Reduce(0, func(a, b any) any { act(b.(int)); return a })
			}
		})
		if pan {
			c.Violate("view-wrong:mutating-callback", inP(), "the iteration ends normally (the callback itself does not panic)", "panic: "+msg)
			return
		}
		stay := m2 - pops
		ok := len(seen) >= stay && len(seen) <= m2
		for i := 0; ok && i < len(seen); i++ {
			ok = seen[i] == i
		}
		if !ok {
			c.Violate("view-wrong:mutating-callback", inP(), fmt.Sprintf("0..%d visited once each, in order; the removed ones behind them at most once", stay-1), fmt.Sprint(seen))
		}
	})
	// lists of ONE kind: the first callback of a typed view turns a not yet visited element into another kind (Replace touches
	// that slot only): the untouched elements are visited once each, in order, the touched one at most once (as what it is
	// at that moment or not at all), and the library does not panic
	hk := r.Intn(3)
	hn := r.Range(3, 9)
	hv := r.Intn(4)
	inH := func() string {
		return fmt.Sprintf("list of %d %s; typed view %d whose first callback replaces a later element by a value of another kind", hn, []string{"ints", "strings", "floats"}[hk], hv)
	}
	guard(c, inH, func() {
		c.Distinct(inH())
		c.Count("mutating_callback_cases")
		l := at.NewList()
		for i := 0; i < hn; i++ {
			l.Add([]any{i, fmt.Sprintf("s%d", i), float64(i) + 0.5}[hk])
		}
		victim := r.Range(1, hn-1)
		other := []any{"other kind", 7, true}[hk]
		var seen []int
		calls := 0
		act := func(idx int) {
			calls++
			seen = append(seen, idx)
			if calls == 1 {
				l.Replace(victim, other)
			}
		}
		ofI := func(v int) int { return v }
		ofS := func(v string) int { n := 0; fmt.Sscanf(v, "s%d", &n); return n }
		ofF := func(v float64) int { return int(v) }
		pan, msg := drive.Protect(func() {
			switch hk {
			case 0:
				switch hv {
				case 0:
					l.ForEachInt(func(v int) { act(ofI(v)) })
				case 1:
					l.MapInts(func(v int) any { act(ofI(v)); return v })
				case 2:
					l.ReduceInts(0, func(a, v int) int { act(ofI(v)); return a })
				default:
					l.FilterInts(func(v int) bool { act(ofI(v)); return true })
				}
			case 1:
				switch hv {
				case 0:
					l.ForEachString(func(v string) { act(ofS(v)) })
				case 1:
					l.MapStrings(func(v string) any { act(ofS(v)); return v })
				case 2:
					l.ReduceStrings("", func(a, v string) string { act(ofS(v)); return a })
				default:
					l.FilterStrings(func(v string) bool { act(ofS(v)); return true })
				}
			default:
				switch hv {
				case 0:
					l.ForEachFloat(func(v float64) { act(ofF(v)) })
				case 1:
					l.MapFloats(func(v float64) any { act(ofF(v)); return v })
				case 2:
					l.ReduceFloats(0, func(a, v float64) float64 { act(ofF(v)); return a })
				default:
					l.FilterFloats(func(v float64) bool { act(ofF(v)); return true })
				}
			}
		})
		if pan {
			c.Violate("view-wrong:mutating-callback", inH(), "the iteration ends normally (the callback itself does not panic)", "panic: "+msg)
			return
		}
		var want []int
		for i := 0; i < hn; i++ {
			if i != victim {
				want = append(want, i)
			}
		}
		var got []int
		for _, x := range seen {
			if x != victim {
				got = append(got, x)
			}
		}
		if fmt.Sprint(got) != fmt.Sprint(want) || len(seen) > len(want)+1 {
			c.Violate("view-wrong:mutating-callback", inH(), fmt.Sprintf("the untouched elements %v once each, in order (element %d at most once)", want, victim), fmt.Sprint(seen))
		}
	})
	// lists: a typed view whose callback turns a not yet visited element of another kind into one of its own kind
	// (Replace touches that one slot only): every int that was there from the start is still visited once, in order
	inR := func() string {
		return fmt.Sprintf("list [0,\"s\",1,\"s\",...] with %d ints; typed view %d whose callback replaces a string further on by an int", m, view)
	}
	guard(c, inR, func() {
		c.Distinct(inR())
		l := at.NewList()
		for i := 0; i < m; i++ {
			l.Add(i, "s")
		}
		var seen []int
		calls := 0
		act := func(v int) {
			calls++
			if v < 1000 {
				seen = append(seen, v)
				// the string right behind this int (not yet visited) becomes an int
				if calls <= 3 && 2*v+1 < l.Count() {
					l.Replace(2*v+1, 1000+calls)
				}
			}
		}
		var red int
		pan, msg := drive.Protect(func() {
			switch view % 4 {
			case 0:
				l.ForEachInt(func(v int) { act(v) })
			case 1:
				l.MapInts(func(v int) any { act(v); return v })
			case 2:
				red = l.ReduceInts(0, func(a, b int) int { act(b); return a + 1 })
			default:
				l.FilterInts(func(v int) bool { act(v); return true })
			}
		})
		_ = red
		if pan {
			c.Violate("view-wrong:mutating-callback", inR(), "the iteration ends normally", "panic: "+msg)
			return
		}
		ok := len(seen) == m
		for i := 0; ok && i < m; i++ {
			ok = seen[i] == i
		}
		if !ok {
			c.Violate("view-wrong:mutating-callback", inR(), "the ints that were there from the start visited once each, in order", fmt.Sprint(seen))
		}
	})
}

// c14Panicking: the callback panics on one of the selected elements (with a string, an error, a genuine runtime type
// assertion error, an index-out-of-range runtime error, a struct). Either the panic reaches the caller, or - if the call
// returns normally all the same - what it returns must still cover every element of the kind; a result that silently
// lacks the element whose callback panicked satisfies neither.
func c14Panicking(c *fw.Ctx, r *rng.R) {
	n := r.Range(2, 7)
	at0 := r.Intn(n)
	kindOfPanic := r.Intn(5)
	view := r.Intn(8)
	names := []string{"List.MapInts", "List.FilterInts", "List.MapStrings", "List.FilterStrings", "List.Map", "List.Filter", "Object.MapInts", "Object.Map"}
	in := func() string {
		return fmt.Sprintf("%s over %d selected elements; the callback panics (kind %d) on its call number %d", names[view], n, kindOfPanic, at0+1)
	}
	boom := func() {
		switch kindOfPanic {
		case 0:
			panic("callback failed")
		case 1:
			panic(fmt.Errorf("callback failed"))
		case 2:
			var x any = "not an int"
			_ = x.(int) // a genuine *runtime.TypeAssertionError
		case 3:
			var s []int
			_ = s[len(s)+n] // runtime error: index out of range
		default:
			panic(struct{ code int }{7})
		}
	}
	guard(c, in, func() {
		c.Distinct(in())
		c.Count("panicking_callback_cases")
		l := at.NewList()
		o := at.NewObject()
		for i := 0; i < n; i++ {
			l.Add(i, fmt.Sprintf("s%d", i), 1.5)
			o.Set(fmt.Sprintf("i%d", i), i, fmt.Sprintf("s%d", i), "x")
		}
		calls := 0
		hit := func() {
			calls++
			if calls == at0+1 {
				boom()
			}
		}
		got, want := -1, n
		pan, _ := drive.Protect(func() {
			switch view {
			case 0:
				got = l.MapInts(func(v int) any { hit(); return v }).Count()
			case 1:
				got = l.FilterInts(func(v int) bool { hit(); return true }).Count()
			case 2:
				got = l.MapStrings(func(v string) any { hit(); return v }).Count()
			case 3:
				got = l.FilterStrings(func(v string) bool { hit(); return true }).Count()
			case 4:
				want = 3 * n
				got = l.Map(func(i int, v any) any { hit(); return v }).Count()
			case 5:
				want = 3 * n
				got = l.Filter(func(v any) bool { hit(); return true }).Count()
			case 6:
				got = o.MapInts(func(v int) any { hit(); return v }).Count()
			default:
				want = 2 * n
				got = o.Map(func(k string, v any) any { hit(); return v }).Count()
			}
		})
		if pan {
			c.Count("callback_panics_that_reached_the_caller")
			return
		}
		if got != want {
			c.Violate("view-wrong:callback-panic-swallowed", in(), fmt.Sprintf("the panic reaches the caller, or the returned result covers all %d selected elements", want), fmt.Sprintf("the call returned normally with %d entries", got))
		}
	})
}

// c14Scratch: a mapping function that hands back the SAME native slice / map every time, refilled for each element (a
// scratch buffer). What the result holds for element i is what the function returned for element i at that moment: the
// library takes its copy when it is given the value (C13: no storage shared with the Go value a container was built from).
func c14Scratch(c *fw.Ctx, r *rng.R) {
	n := r.Range(2, 6)
	view := r.Intn(8)
	useMap := r.Bool()
	names := []string{"List.Map", "List.MapValues", "List.MapInts", "List.MapStrings", "Object.Map", "Object.MapValues", "Object.MapInts", "Object.MapStrings"}
	in := func() string {
		return fmt.Sprintf("%s over %d elements with a function that returns one reused scratch %s", names[view], n, map[bool]string{true: "map", false: "slice"}[useMap])
	}
	guard(c, in, func() {
		c.Distinct(in())
		c.Count("scratch_reuse_cases")
		l := at.NewList()
		o := at.NewObject()
		for i := 0; i < n; i++ {
			l.Add(i, fmt.Sprintf("s%d", i))
			o.Set(fmt.Sprintf("i%d", i), i, fmt.Sprintf("s%d", i), fmt.Sprintf("s%d", i))
		}
		scratchS := make([]any, 2)
		scratchM := map[string]any{}
		give := func(tagv any) any {
			if useMap {
				for k := range scratchM {
					delete(scratchM, k)
				}
				scratchM["v"] = tagv
				return scratchM
			}
			scratchS[0], scratchS[1] = tagv, "x"
			return scratchS
		}
		wantOf := func(tagv any) string {
			if useMap {
				return spec.ObjV("v", specOfScalar(tagv)).Canon()
			}
			return spec.ListV(specOfScalar(tagv), spec.StrV("x")).Canon()
		}
		var resL at.List
		var resO at.Object
		switch view {
		case 0:
			resL = l.Map(func(i int, v any) any { return give(v) })
		case 1:
			resL = l.MapValues(func(v any) any { return give(v) })
		case 2:
			resL = l.MapInts(func(v int) any { return give(v) })
		case 3:
			resL = l.MapStrings(func(v string) any { return give(v) })
		case 4:
			resO = o.Map(func(k string, v any) any { return give(v) })
		case 5:
			resO = o.MapValues(func(v any) any { return give(v) })
		case 6:
			resO = o.MapInts(func(v int) any { return give(v) })
		default:
			resO = o.MapStrings(func(v string) any { return give(v) })
		}
		if resL != nil {
			var src []any
			switch view {
			case 2:
				for i := 0; i < n; i++ {
					src = append(src, i)
				}
			case 3:
				for i := 0; i < n; i++ {
					src = append(src, fmt.Sprintf("s%d", i))
				}
			default:
				src = l.Slice()
			}
			if resL.Count() != len(src) {
				c.Violate("view-wrong:scratch-result", in(), fmt.Sprintf("%d results", len(src)), fmt.Sprintf("%d results", resL.Count()))
				return
			}
			for i, v := range src {
				if got := stringCanon(resL.Get(i)); got != wantOf(v) {
					c.Violate("view-wrong:scratch-result", in(), fmt.Sprintf("result %d is what the function returned for element %v: %s", i, v, wantOf(v)), got)
					return
				}
			}
			return
		}
		for _, k := range o.Keys().StringSlice() {
			v := o.Get(k)
			_, isInt := v.(int)
			if (view == 6 && !isInt) || (view == 7 && isInt) {
				continue
			}
			if !resO.KeyExists(k) {
				c.Violate("view-wrong:scratch-result", in(), "a result under the key "+k, "missing")
				return
			}
			if got := stringCanon(resO.Get(k)); got != wantOf(v) {
				c.Violate("view-wrong:scratch-result", in(), fmt.Sprintf("result under %q is what the function returned for the value %v: %s", k, v, wantOf(v)), got)
				return
			}
		}
	})
}

func specOfScalar(v any) *spec.Spec {
	switch x := v.(type) {
	case int:
		return spec.IntV(x)
	case string:
		return spec.StrV(x)
	case float64:
		return spec.FloatV(x)
	case bool:
		return spec.BoolV(x)
	}
	return spec.NilV()
}

// c14Current: a callback replaces the values of entries that are still to come (no entry is added or removed; lists
// that had a SubList / Concat / Clone taken before, objects rewritten by one multi-pair Set). Whatever is visited is
// visited "with the value Get returns": at the moment of the visit the value handed to the callback is what Get(i) /
// Get(key) says.
func c14Current(c *fw.Ctx, r *rng.R) {
	n := r.Range(3, 9)
	view := r.Intn(8)
	prelude := r.Intn(4)
	inL := func() string {
		return fmt.Sprintf("list of %d strings (prelude %d: 0 none, 1 SubList taken, 2 Concat taken, 3 Clone taken); untyped view %d whose first callback replaces all later elements", n, prelude, view)
	}
	guard(c, inL, func() {
		c.Distinct(inL())
		c.Count("current_value_cases")
		l := at.NewList()
		for i := 0; i < n; i++ {
			l.Add(fmt.Sprintf("old%d", i))
		}
		var keepAlive any
		switch prelude {
		case 1:
			keepAlive = l.SubList(0, 0)
		case 2:
			keepAlive = l.Concat(at.NewList())
		case 3:
			keepAlive = l.Clone()
		}
		_ = keepAlive
		calls := 0
		bad := ""
		see := func(i int, v any) {
			calls++
			if calls == 1 {
				for j := i + 1; j < n; j++ {
					switch (j + prelude + n) % 3 {
					case 0:
						l.Replace(j, fmt.Sprintf("new%d", j))
					case 1:
						l.SetTF(fmt.Sprintf("#%d", j), fmt.Sprintf("new%d", j)) // the same write spelled as a path (the last index among them)
					default:
						// the element is taken out and its successor put in at the same index: the list has its length again
						// before the callback returns, no other element has moved
						l.Delete(j)
						l.Insert(j, fmt.Sprintf("new%d", j))
					}
				}
			}
			if i >= 0 && bad == "" {
				if cur := l.Get(i); !eqSlot(cur, v) {
					bad = fmt.Sprintf("element %d handed over as %v while Get(%d) is %v", i, v, i, cur)
				}
			}
		}
		idx := 0
		pan, msg := drive.Protect(func() {
			switch view {
			case 0:
				l.ForEach(func(i int, v any) { see(i, v) })
			case 1:
				l.ForEachValue(func(v any) { see(idx, v); idx++ })
			case 2:
				l.Map(func(i int, v any) any { see(i, v); return v })
			case 3:
				l.ForEachString(func(v string) { see(idx, v); idx++ })
			case 4:
				l.Reduce(0, func(acc, v any) any { see(idx, v); idx++; return acc })
			case 5:
				l.ReduceStrings("", func(acc, v string) string { see(idx, v); idx++; return acc })
			case 6:
				l.Filter(func(v any) bool { see(idx, v); idx++; return true })
			default:
				l.MapStrings(func(v string) any { see(idx, v); idx++; return v })
			}
		})
		if pan {
			c.Violate("view-wrong:stale-value", inL(), "the iteration ends normally", "panic: "+msg)
			return
		}
		if bad != "" {
			c.Violate("view-wrong:stale-value", inL(), "every element is handed over with the value Get returns at that moment", bad)
		}
	})
	// a filter keeps what its predicate approved: the predicate replaces the element it is looking at and says yes; the
	// result holds the value the predicate was given (the replaced slot is the list's business, not the result's)
	fview := r.Intn(3)
	inF := func() string {
		return fmt.Sprintf("Filter variant %d over the ints 0..%d whose predicate replaces the current element by a string and returns true", fview, n-1)
	}
	guard(c, inF, func() {
		c.Distinct(inF())
		l := at.NewList()
		for i := 0; i < n; i++ {
			l.Add(i)
		}
		idx := 0
		var res at.List
		pan, msg := drive.Protect(func() {
			switch fview {
			case 0:
				res = l.Filter(func(v any) bool { l.Replace(idx, fmt.Sprintf("replaced%d", idx)); idx++; return true })
			case 1:
				res = l.FilterInts(func(v int) bool { l.Replace(v, fmt.Sprintf("replaced%d", v)); return true })
			default:
				res = l.FilterInts(func(v int) bool { l.Replace(v, float64(v)+0.5); return v%2 == 0 })
			}
		})
		if pan {
			c.Violate("view-wrong:filter-result", inF(), "the call returns", "panic: "+msg)
			return
		}
		var want []int
		for i := 0; i < n; i++ {
			if fview != 2 || i%2 == 0 {
				want = append(want, i)
			}
		}
		ok := res.Count() == len(want)
		for j := 0; ok && j < len(want); j++ {
			ok = res.Get(j) == any(want[j])
		}
		if !ok {
			c.Violate("view-wrong:filter-result", inF(), fmt.Sprintf("the values the predicate approved: %v", want), stringCanon(res))
		}
	})
	m := r.Range(2, 7)
	oview := r.Intn(3)
	inO := func() string {
		return fmt.Sprintf("object with %d int fields; view %d whose first callback rewrites all fields in one Set call", m, oview)
	}
	guard(c, inO, func() {
		c.Distinct(inO())
		o := at.NewObject()
		for i := 0; i < m; i++ {
			o.Set(fmt.Sprintf("k%d", i), i)
		}
		calls := 0
		bad := ""
		see := func(k string, v any) {
			calls++
			if calls == 1 {
				var args []any
				for i := 0; i < m; i++ {
					args = append(args, fmt.Sprintf("k%d", i), 100+i)
				}
				o.Set(args...)
			}
			if k != "" && bad == "" {
				if cur := o.Get(k); !eqSlot(cur, v) && calls > 1 {
					bad = fmt.Sprintf("field %q handed over as %v while Get says %v", k, v, cur)
				}
			}
		}
		pan, msg := drive.Protect(func() {
			switch oview {
			case 0:
				o.ForEach(func(k string, v any) { see(k, v) })
			case 1:
				o.Map(func(k string, v any) any { see(k, v); return v })
			default:
				o.ForEachInt(func(v int) {
					// no key here: after the rewrite every value still to come is one of the new ones
					calls++
					if calls == 1 {
						var args []any
						for i := 0; i < m; i++ {
							args = append(args, fmt.Sprintf("k%d", i), 100+i)
						}
						o.Set(args...)
					} else if v < 100 && bad == "" {
						bad = fmt.Sprintf("ForEachInt handed over the old value %d after all fields were rewritten", v)
					}
				})
			}
		})
		if pan {
			c.Violate("view-wrong:stale-value", inO(), "the iteration ends normally", "panic: "+msg)
			return
		}
		if bad != "" {
			c.Violate("view-wrong:stale-value", inO(), "every field is handed over with the value Get returns at that moment", bad)
		}
	})
}

func c14Case(c *fw.Ctx, r *rng.R, tree *spec.Spec) {
	var hist []string
	x := &c14Run{c: c}
	x.desc = func() string {
		s := describeTree(tree)
		if len(hist) > 0 {
			s += "\nthen: " + strings.Join(hist, "; ")
		}
		return s
	}
	guard(c, x.desc, func() {
		c.Distinct(tree.Canon())
		real := drive.Build(r, tree)
		if l, ok := real.(at.List); ok && r != nil && r.Chance(1, 6) {
			// derived structures (user types embedding a List / Object) are containers of that kind too
			drive.Protect(func() {
				l.Insert(r.Intn(l.Count()+1), NewDObject("d", 1))
				l.Insert(r.Intn(l.Count()+1), NewDDList(1, 2))
				l.Add(NewDList())
			})
			hist = append(hist, "derived structures inserted")
			c.Count("lists_with_derived_elements")
		}
		if l, ok := real.(at.List); ok && r != nil && r.Chance(1, 4) {
			// one container instance at several indexes: an element is an element, however often its value occurs
			drive.Protect(func() {
				shared := []any{at.NewObject("shared", 1), at.NewList("shared"), at.NewObject(), at.NewList()}[r.Intn(4)]
				for j := 0; j < l.Count(); j++ {
					if r.Chance(1, 3) {
						switch l.TypeOf(j) {
						case at.TypeObject, at.TypeList:
							shared = l.Get(j)
						}
					}
				}
				for k := r.Range(2, 3); k > 0; k-- {
					l.Insert(r.Intn(l.Count()+1), shared)
				}
			})
			hist = append(hist, "one container instance inserted at several indexes")
			c.Count("lists_with_one_instance_at_several_indexes")
		}
		if c.WantSample() && tree.Size() > 4 && tree.Size() < 14 {
			c.Sample(map[string]any{"container": tree.Canon(), "check": "every typed and untyped view against the elements selected by TypeOf/Get"})
		}
		switch v := real.(type) {
		case at.List:
			before := top(v)
			x.checkListViews(v, r)
			if !x.bad && !sameTop(before, top(v)) {
				x.fail("views-modify-list", showTop(before), showTop(top(v)))
			}
			// a short history of mutations between view calls (catches views that cache what they saw)
			for round := 0; round < 2 && !x.bad; round++ {
				n := v.Count()
				drive.Protect(func() {
					switch r.Intn(7) {
					case 0:
						v.Add(drive.Native(spec.GenScalar(r)))
						hist = append(hist, "Add(scalar)")
					case 1:
						if n > 0 {
							v.Replace(r.Intn(n), drive.Native(spec.GenScalar(r)))
							hist = append(hist, "Replace")
						}
					case 2:
						if n > 0 {
							v.Delete(r.Intn(n))
							hist = append(hist, "Delete")
						}
					case 3:
						v.Reverse()
						hist = append(hist, "Reverse")
					case 4, 5:
						hist = append(hist, "Sort (whatever it does to a mixed list)")
						v.Sort()
					default:
						v.Insert(r.Intn(n+1), at.NewList())
						hist = append(hist, "Insert(list)")
					}
				})
				x.checkListViews(v, r)
			}
		case at.Object:
			if r != nil && r.Chance(1, 4) {
				// one container instance under two (or three) keys
				drive.Protect(func() {
					sh := at.NewObject("shared", 1)
					sl := at.NewList("shared")
					v.Set("dup-a", sh, "dup-b", sh, "dup-l1", sl, "dup-l2", sl, "dup-c", sh)
				})
				hist = append(hist, "one object under keys dup-a, dup-b, dup-c and one list under dup-l1, dup-l2")
			}
			before := top(v)
			x.checkObjectViews(v)
			if !x.bad && !sameTop(before, top(v)) {
				x.fail("views-modify-object", showTop(before), showTop(top(v)))
			}
			drive.Protect(func() {
				v.Set("added", drive.Native(spec.GenScalar(r)))
				hist = append(hist, "Set(added)")
				if ks := v.Keys(); ks.Count() > 1 {
					v.Unset(ks.GetString(0))
					hist = append(hist, "Unset(one key)")
				}
			})
			x.checkObjectViews(v)
		}
	})
}

func selfC14(s *fw.SelfCheck) {
	c := fw.NewCtx("C14", "quick", 1, 0, 1, "")
	x := &c14Run{c: c, desc: func() string { return "self" }}
	want := []obs{{idx: 0, t: at.TypeString, v: "a"}, {idx: 2, t: at.TypeString, v: ""}}
	x.sameSeq("t", []any{"a", ""}, want, nil)
	s.Expect(!x.bad, "sequence comparison rejects the right subsequence")
	x.sameSeq("t", []any{"a"}, want, nil)
	s.Expect(x.bad, "sequence comparison misses a skipped empty string")
	x = &c14Run{c: c, desc: func() string { return "self" }}
	x.sameSeq("t", []any{"", "a"}, want, nil)
	s.Expect(x.bad, "sequence comparison misses a wrong order")
	x = &c14Run{c: c, desc: func() string { return "self" }}
	x.sameSeq("t", []any{"a", "", ""}, want, nil)
	s.Expect(x.bad, "sequence comparison misses a duplicate")
}

// probeViews: every container reachable from the root shows all its typed and untyped views (judged, as everywhere in
// this monitor, against TypeOf / Get of the same container at that moment).
func probeViews(p *prog, root *model.Node, round int) {
	p.trace = append(p.trace, fmt.Sprintf("probe %d: all views of every container of the tree", round))
	for _, n := range reachable(root) {
		if n.Real == nil {
			continue
		}
		x := &c14Run{c: p.c}
		name := n.Name()
		x.desc = func() string { return p.input() + "\nviews of " + name }
		switch v := n.Real.(type) {
		case at.List:
			x.checkListViews(v, p.r)
		case at.Object:
			x.checkObjectViews(v)
		}
		if x.bad {
			p.failed = true
			return
		}
	}
	if d := p.h.CheckAll(); d != "" {
		p.failProbe("views-modify-container", "tree unchanged after the views were taken", d)
	}
}

// c14Embedded: elements / fields stored through a value embedded in a derived structure (`l.Add(d.Object)`): Get resolves
// the registered pointer, and the UNTYPED views are stated to hand over "the value Get returns". (The typed views hand
// over the stored value on the unchanged tree; C14 only says which elements they operate on, so they are not judged here.)
func c14Embedded(c *fw.Ctx, r *rng.R) {
	eo, el, late := NewDObject("emb", 1), NewDDList(1, 2), at.NewObject("late", true)
	vals := []any{0, eo.Object, "s", el.DList, nil, el.DList.List, 2.5, late, NewDList("plainly derived")}
	shuffled := make([]any, len(vals))
	for j, pj := range r.Perm(len(vals)) {
		shuffled[j] = vals[pj]
	}
	vals = shuffled
	l := at.NewList(vals...)
	o := at.NewObject()
	for j, v := range vals {
		o.Set(fmt.Sprintf("k%d", j), v)
	}
	wl := &DObject{Object: late, tag: "late"}
	late.Init(wl) // wrapped into a derived structure after it was stored
	in := func() string {
		return "a list / an object holding, next to scalars, d.Object (embedded in a DObject), d.DList and d.DList.List (embedded in a DDList), an object wrapped into a derived structure after it was stored, a DList"
	}
	guard(c, in, func() {
		c.Distinct(fmt.Sprintf("embedded %v", vals))
		n := l.Count()
		judgeL := func(view string, idx int, v any) {
			c.Count("views_checked")
			if idx < 0 || idx >= n || !eqSlot(v, l.Get(idx)) {
				got := fmt.Sprintf("%T", v)
				c.Violate("view-wrong:"+view, in(), fmt.Sprintf("the value Get(%d) returns (%T)", idx, l.Get(idx%maxInt(n, 1))), got)
			}
		}
		l.ForEach(func(i int, v any) { judgeL("ForEach", i, v) })
		k := 0
		l.ForEachValue(func(v any) { judgeL("ForEachValue", k, v); k++ })
		l.Map(func(i int, v any) any { judgeL("Map", i, v); return nil })
		k = 0
		l.MapValues(func(v any) any { judgeL("MapValues", k, v); k++; return nil })
		k = 0
		l.Filter(func(v any) bool { judgeL("Filter", k, v); k++; return true })
		k = 0
		l.Reduce(nil, func(acc, v any) any { judgeL("Reduce", k, v); k++; return acc })
		for i, v := range l.Slice() {
			judgeL("Slice", i, v)
		}
		judgeO := func(view string, key string, v any) {
			c.Count("views_checked")
			if !o.KeyExists(key) || !eqSlot(v, o.Get(key)) {
				c.Violate("view-wrong:Object."+view, in(), fmt.Sprintf("the value Get(%q) returns", key), fmt.Sprintf("%T", v))
			}
		}
		o.ForEach(func(key string, v any) { judgeO("ForEach", key, v) })
		o.Map(func(key string, v any) any { judgeO("Map", key, v); return nil })
		for key, v := range o.Dict() {
			judgeO("Dict", key, v)
		}
		// the values the keyless views hand over are, as a multiset, what Get returns
		seen := map[string]int{}
		o.ForEachValue(func(v any) { seen[fmt.Sprintf("%T %p", v, v)]++ })
		o.MapValues(func(v any) any { seen[fmt.Sprintf("%T %p", v, v)]--; return nil })
		want := map[string]int{}
		for j := range vals {
			v := o.Get(fmt.Sprintf("k%d", j))
			want[fmt.Sprintf("%T %p", v, v)]++
		}
		o.ForEachValue(func(v any) { want[fmt.Sprintf("%T %p", v, v)]-- })
		for key, cnt := range want {
			if cnt != 0 && !strings.HasPrefix(key, "int") && !strings.HasPrefix(key, "string") && !strings.HasPrefix(key, "float") && !strings.HasPrefix(key, "<nil>") {
				c.Violate("view-wrong:Object.ForEachValue", in(), "the values Get returns, each once", "a value of another identity: "+key)
				break
			}
		}
		for key, cnt := range seen {
			if cnt != 0 {
				c.Violate("view-wrong:Object.MapValues", in(), "the same values as ForEachValue", key)
				break
			}
		}
	})
}
