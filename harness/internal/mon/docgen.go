package mon

import (
	"fmt"
	"math"
	"math/big"
	"regexp"
	"strconv"
	"strings"
	"unicode/utf16"

	"verifharness/internal/refjson"
	"verifharness/internal/rng"
	"verifharness/internal/spec"
)

// The derivation generator: renders a spec tree as an RFC 8259 text choosing, at random, among all legal
// whitespace placements, string escape spellings and number spellings. It never uses the library's serializer.

type docStyle struct {
	WS      int  // 0 none, 1 sparse, 2 heavy whitespace
	Escape  int  // out of 10: how often a character that may be raw is escaped anyway
	Newline bool // allow LF/CR in whitespace
}

var jsonNumberRe = regexp.MustCompile(`^-?(0|[1-9][0-9]*)(\.[0-9]+)?([eE][+-]?[0-9]+)?$`)

func randStyle(r *rng.R) docStyle {
	return docStyle{WS: r.Intn(3), Escape: []int{0, 1, 3, 10}[r.Intn(4)], Newline: r.Chance(3, 4)}
}

func (st docStyle) ws(b *strings.Builder, r *rng.R) {
	if st.WS == 0 {
		return
	}
	n := 0
	if st.WS == 1 {
		if r.Chance(1, 3) {
			n = 1
		}
	} else {
		n = r.Intn(4)
	}
	for i := 0; i < n; i++ {
		c := " \t\n\r"[r.Intn(4)]
		if !st.Newline && (c == '\n' || c == '\r') {
			c = ' '
		}
		b.WriteByte(c)
	}
}

// spellRune writes one code point of a string literal in a randomly chosen legal spelling.
// mode: -1 random, 0 raw if legal else shortest escape, 1 short escape if any else \u, 2 \u lower, 3 \u upper
func spellRune(b *strings.Builder, r *rng.R, c rune, st docStyle, mode int) {
	mustEscape := c == '"' || c == '\\' || c < 0x20
	short := ""
	switch c {
	case '"':
		short = `\"`
	case '\\':
		short = `\\`
	case '/':
		short = `\/`
	case '\b':
		short = `\b`
	case '\f':
		short = `\f`
	case '\n':
		short = `\n`
	case '\r':
		short = `\r`
	case '\t':
		short = `\t`
	}
	if mode < 0 {
		if !mustEscape && !(r.Intn(10) < st.Escape) {
			mode = 0
		} else {
			mode = 1 + r.Intn(3)
		}
	}
	if mode == 0 && !mustEscape {
		b.WriteRune(c)
		return
	}
	if (mode == 0 || mode == 1) && short != "" {
		b.WriteString(short)
		return
	}
	format := "\\u%04x"
	if mode == 3 {
		format = "\\u%04X"
	}
	if c >= 0x10000 {
		hi, lo := utf16.EncodeRune(c)
		fmt.Fprintf(b, format, hi)
		fmt.Fprintf(b, format, lo)
		return
	}
	fmt.Fprintf(b, format, c)
}

func spellString(b *strings.Builder, r *rng.R, s string, st docStyle) {
	b.WriteByte('"')
	for _, c := range s {
		spellRune(b, r, c, st, -1)
	}
	b.WriteByte('"')
}

// genNumberLit produces a valid JSON number literal within float64 range in one of many spellings.
func genNumberLit(r *rng.R) string {
	digits := func(n int, firstNonZero bool) string {
		var b strings.Builder
		for i := 0; i < n; i++ {
			d := r.Intn(10)
			if i == 0 && firstNonZero && d == 0 {
				d = 1 + r.Intn(9)
			}
			b.WriteByte(byte('0' + d))
		}
		return b.String()
	}
	sign := ""
	if r.Chance(1, 3) {
		sign = "-"
	}
	switch r.Intn(19) {
	case 17, 18: // decimal expansions at and next to the midpoint of two adjacent float64 values (rounding decisions)
		for {
			bits := r.U64()&0x000fffffffffffff | uint64(r.Range(1023-60, 1023+200))<<52
			f := math.Float64frombits(bits)
			g := math.Nextafter(f, math.Inf(1))
			if math.IsInf(g, 0) {
				continue
			}
			mid := new(big.Rat).Add(new(big.Rat).SetFloat64(f), new(big.Rat).SetFloat64(g))
			mid.Quo(mid, big.NewRat(2, 1))
			var lit string
			if mid.IsInt() {
				n := new(big.Int).Set(mid.Num())
				n.Add(n, big.NewInt(int64(r.Range(-2, 2))))
				lit = n.String()
				if r.Chance(1, 4) {
					lit += ".0"
				}
			} else {
				// dyadic: the decimal expansion is finite; 80 fractional digits are enough for exponents >= -60
				lit = mid.FloatString(80)
				lit = strings.TrimRight(lit, "0")
				switch r.Intn(3) {
				case 0:
					lit += "1"
				case 1:
					lit = lit[:len(lit)-1] + string(lit[len(lit)-1]-1) + "9999"
				}
				if strings.HasSuffix(lit, ".") {
					lit += "0"
				}
			}
			return sign + lit
		}
	case 16: // very long literals (still inside the float64 range)
		switch r.Intn(3) {
		case 0:
			return sign + digits(r.Range(40, 300), true)
		case 1:
			return sign + "0." + strings.Repeat("0", r.Range(20, 300)) + digits(r.Range(1, 40), true)
		default:
			return sign + digits(r.Range(1, 100), true) + "." + digits(r.Range(100, 400), false) + "e-" + strconv.Itoa(r.Range(0, 100))
		}
	case 0:
		return sign + "0"
	case 1:
		return sign + strconv.Itoa(r.Intn(1000))
	case 2:
		return strconv.Itoa(spec.GenInt(r))
	case 3: // integers around the int32/int64 boundaries, in both directions
		base := []string{"2147483647", "2147483648", "2147483649", "9223372036854775807", "9223372036854775808", "9223372036854775809", "18446744073709551616", "4294967296"}[r.Intn(8)]
		return sign + base
	case 4: // long integers that do not fit any int; whole numbers just beyond the int ranges with few significant digits
		if r.Bool() {
			return sign + []string{"9300000000000000000", "9.3e18", "93e17", "9.3E+18", "10000000000000000000", "1e19", "9999990000000000000", "18000000000000000000", "1.8e19",
				"9223372036854775808.0", "9.5e18", "2200000000", "2.2e9", "4300000000", "43e8", "9000000000000000000", "9e18", "4611686018427388000"}[r.Intn(18)]
		}
		return sign + digits(r.Range(19, 30), true)
	case 5: // whole value with a fraction marker
		return sign + strconv.Itoa(r.Intn(100000)) + "." + strings.Repeat("0", r.Range(1, 4))
	case 6: // integer mantissa with exponent
		return sign + strconv.Itoa(r.Range(1, 999)) + []string{"e", "E"}[r.Intn(2)] + []string{"", "+", "-"}[r.Intn(3)] + []string{"", "", "", "0", "00", "000", "0000000"}[r.Intn(7)] + strconv.Itoa(r.Intn(20))
	case 7: // fraction with trailing zeros / leading zero digits
		return sign + strconv.Itoa(r.Intn(1000)) + "." + digits(r.Range(1, 6), false) + strings.Repeat("0", r.Intn(3))
	case 8: // long mantissa (more digits than a float64 holds)
		return sign + digits(r.Range(1, 3), true) + "." + digits(r.Range(17, 32), false)
	case 9: // near the top of the range
		return sign + []string{"1.7976931348623157e308", "1.7976931348623157E+308", "1e308", "9.9e307", "17976931348623157e292", "1.797693134862315e308"}[r.Intn(6)]
	case 10: // near the bottom / underflow
		return sign + []string{"5e-324", "4.9e-324", "2.2250738585072014e-308", "2.2250738585072011e-308", "1e-323", "1e-400", "0.0", "0e0", "0.0e-0", "3e-324",
			"0e1000", "0E+99999", "0.0e-5000", "1e0010", "2.5E-0003", "1e+000000000000000000007", "0.000e0000", "7e-0000300"}[r.Intn(18)]
	case 11: // shortest round trip of a random float
		f := spec.GenFloat(r)
		return refjson.FloatLit(f)
	case 12: // 'e' / 'f' renderings of a random float
		f := spec.GenFloat(r)
		if math.Abs(f) < 1e15 && math.Abs(f) > 1e-5 && r.Bool() {
			s := strconv.FormatFloat(f, 'f', -1, 64)
			if !strings.Contains(s, ".") {
				s += ".0"
			}
			return s
		}
		s := strconv.FormatFloat(f, 'e', -1, 64)
		if r.Bool() {
			s = strings.Replace(s, "e", "E", 1)
		}
		return s
	case 13: // decimal halfway cases and 17 digit mantissas
		return sign + []string{"0.1", "0.2", "0.3", "0.30000000000000004", "9007199254740993", "9007199254740993.0", "1.00000000000000011102230246251565404236316680908203125",
			"1.00000000000000011102230246251565404236316680908203124", "1.00000000000000011102230246251565404236316680908203126", "123456789012345678", "0.000001", "1e6", "1e-6", "1e21", "1e22", "1e23"}[r.Intn(16)]
	case 14:
		return sign + digits(r.Range(1, 17), true) + "e" + strconv.Itoa(r.Range(-300, 280))
	default:
		return sign + strconv.Itoa(r.Intn(10)) + "." + strconv.Itoa(r.Intn(10)) + "e" + []string{"", "+", "-"}[r.Intn(3)] + strconv.Itoa(r.Intn(300))
	}
}

// genDocNumber returns a number node carrying its literal; nil if the literal falls outside float64 range.
func genDocNumber(r *rng.R) *spec.Spec {
	for {
		lit := genNumberLit(r)
		v, err := refjson.ClassifyNumber(lit, IntBits)
		if err != nil {
			continue
		}
		v.Lit = lit
		return v
	}
}

// genDocTree draws a tree whose numbers carry explicit literals.
func genDocTree(r *rng.R, root spec.Kind, maxDepth, maxWidth int) *spec.Spec {
	var rec func(k spec.Kind, depth int) *spec.Spec
	scalar := func() *spec.Spec {
		switch r.Intn(7) {
		case 0:
			return spec.NilV()
		case 1:
			return spec.BoolV(r.Bool())
		case 2, 3:
			return genDocNumber(r)
		default:
			return spec.StrV(spec.GenStr(r))
		}
	}
	literalText := func(v *spec.Spec) string {
		switch v.K {
		case spec.Nil:
			return "null"
		case spec.Bool:
			return strconv.FormatBool(v.B)
		case spec.Int:
			if v.Lit != "" {
				return v.Lit
			}
			return strconv.Itoa(v.I)
		case spec.Float:
			if v.Lit != "" {
				return v.Lit
			}
			return refjson.FloatLit(v.F)
		}
		return v.S
	}
	lookalike := func(prev *spec.Spec) *spec.Spec {
		if prev.K != spec.Str {
			return spec.StrV(literalText(prev)) // 12 then "12", null then "null"
		}
		switch prev.S {
		case "null":
			return spec.NilV()
		case "true":
			return spec.BoolV(true)
		case "false":
			return spec.BoolV(false)
		}
		if !jsonNumberRe.MatchString(prev.S) {
			// (ClassifyNumber takes what strconv takes, "1." and ".5" among it: only texts of the JSON number grammar qualify)
		} else if v, err := refjson.ClassifyNumber(prev.S, IntBits); err == nil {
			v.Lit = prev.S
			return v // "12" then 12
		}
		return spec.StrV([]string{"null", "true", "false", "0", "-1", "1.5", "1e2"}[r.Intn(7)])
	}
	rec = func(k spec.Kind, depth int) *spec.Spec {
		s := &spec.Spec{K: k}
		var prev *spec.Spec
		n := r.Range(0, maxWidth)
		if r.Chance(1, 8) {
			n = 0
		}
		for i := 0; i < n; i++ {
			var v *spec.Spec
			if depth < maxDepth && r.Chance(3, 10) {
				ck := spec.List
				if r.Bool() {
					ck = spec.Obj
				}
				v = rec(ck, depth+1)
			} else {
				v = scalar()
				if prev != nil && r.Chance(1, 6) {
					v = lookalike(prev) // a neighbour spelled with the same characters, but of another kind
				}
				prev = v
			}
			if k == spec.List {
				s.L = append(s.L, v)
			} else if v.K != spec.List && v.K != spec.Obj && r.Chance(1, 12) {
				s.Set(literalText(v), v) // the key reads like its value
			} else {
				s.Set(spec.GenKey(r), v)
			}
		}
		return s
	}
	return rec(root, 1)
}

// renderDoc renders the tree; when dup is set, objects may carry earlier duplicates of their keys (last wins).
func renderDoc(b *strings.Builder, r *rng.R, s *spec.Spec, st docStyle, dup bool) {
	switch s.K {
	case spec.Nil:
		b.WriteString("null")
	case spec.Bool:
		b.WriteString(strconv.FormatBool(s.B))
	case spec.Int:
		if s.Lit != "" {
			b.WriteString(s.Lit)
		} else {
			b.WriteString(strconv.Itoa(s.I))
		}
	case spec.Float:
		if s.Lit != "" {
			b.WriteString(s.Lit)
		} else {
			b.WriteString(refjson.FloatLit(s.F))
		}
	case spec.Str:
		spellString(b, r, s.S, st)
	case spec.List:
		b.WriteByte('[')
		st.ws(b, r)
		for i, e := range s.L {
			if i > 0 {
				b.WriteByte(',')
				st.ws(b, r)
			}
			renderDoc(b, r, e, st, dup)
			st.ws(b, r)
		}
		b.WriteByte(']')
	case spec.Obj:
		b.WriteByte('{')
		st.ws(b, r)
		first := true
		member := func(k string, v *spec.Spec) {
			if !first {
				b.WriteByte(',')
				st.ws(b, r)
			}
			first = false
			spellString(b, r, k, st)
			st.ws(b, r)
			b.WriteByte(':')
			st.ws(b, r)
			renderDoc(b, r, v, st, dup)
			st.ws(b, r)
		}
		if dup && len(s.Keys) > 0 && r.Chance(1, 3) {
			// earlier duplicates with other values; the real members follow, so the last duplicate wins
			n := r.Range(1, 2)
			for i := 0; i < n; i++ {
				k := s.Keys[r.Intn(len(s.Keys))]
				var other *spec.Spec
				switch r.Intn(4) {
				case 0:
					other = spec.StrV("shadowed")
				case 1:
					other = spec.ListV(spec.IntV(1))
				case 2:
					other = spec.ObjV("x", spec.NilV())
				default:
					other = spec.IntV(-7)
				}
				member(k, other)
			}
		}
		for i, k := range s.Keys {
			member(k, s.Vals[i])
		}
		b.WriteByte('}')
	}
}

// renderRoot adds optional whitespace around the root value.
func renderRoot(r *rng.R, s *spec.Spec, st docStyle, dup bool) string {
	var b strings.Builder
	st.ws(&b, r)
	renderDoc(&b, r, s, st, dup)
	st.ws(&b, r)
	return b.String()
}
