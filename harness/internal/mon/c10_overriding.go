package mon

import (
	"fmt"
	"sort"
	"strings"

	at "github.com/DanielSvub/anytype"

	"verifharness/internal/drive"
	"verifharness/internal/fw"
	"verifharness/internal/rng"
	"verifharness/internal/spec"
)

// Derived structures whose types redefine the getters: an object that answers for the fields of a prototype it does
// not hold itself, a list that continues with the elements of a template. "Applying Get segment by segment" goes
// through these getters (a stored structure comes back as the registered outer value), so the tree-form reads do too.

type ProtoObject struct {
	at.Object
	proto at.Object
}

func (o *ProtoObject) own(k string) bool       { return o.Object.KeyExists(k) }
func (o *ProtoObject) KeyExists(k string) bool { return o.own(k) || o.proto.KeyExists(k) }
func (o *ProtoObject) TypeOf(k string) at.Type {
	if o.own(k) {
		return o.Object.TypeOf(k)
	}
	return o.proto.TypeOf(k)
}
func (o *ProtoObject) Get(k string) any {
	if o.own(k) {
		return o.Object.Get(k)
	}
	return o.proto.Get(k)
}
func (o *ProtoObject) GetObject(k string) at.Object {
	if o.own(k) {
		return o.Object.GetObject(k)
	}
	return o.proto.GetObject(k)
}
func (o *ProtoObject) GetList(k string) at.List {
	if o.own(k) {
		return o.Object.GetList(k)
	}
	return o.proto.GetList(k)
}

type TemplateList struct {
	at.List
	tmpl at.List
}

func (l *TemplateList) own(i int) bool { return i >= 0 && i < l.List.Count() }
func (l *TemplateList) Count() int {
	if n := l.tmpl.Count(); n > l.List.Count() {
		return n
	}
	return l.List.Count()
}
func (l *TemplateList) TypeOf(i int) at.Type {
	if l.own(i) {
		return l.List.TypeOf(i)
	}
	return l.tmpl.TypeOf(i)
}
func (l *TemplateList) Get(i int) any {
	if l.own(i) {
		return l.List.Get(i)
	}
	return l.tmpl.Get(i)
}
func (l *TemplateList) GetObject(i int) at.Object {
	if l.own(i) {
		return l.List.GetObject(i)
	}
	return l.tmpl.GetObject(i)
}
func (l *TemplateList) GetList(i int) at.List {
	if l.own(i) {
		return l.List.GetList(i)
	}
	return l.tmpl.GetList(i)
}

func newProto(own, proto at.Object) *ProtoObject {
	d := &ProtoObject{Object: own, proto: proto}
	d.Init(d)
	return d
}

func newTemplate(own, tmpl at.List) *TemplateList {
	d := &TemplateList{List: own, tmpl: tmpl}
	d.Init(d)
	return d
}

// tfSteps lists what can be stepped to from v with one Get: segment text and value.
func tfSteps(v any) (segs []string, vals []any) {
	switch x := v.(type) {
	case *ProtoObject:
		seen := map[string]bool{}
		var keys []string
		for _, src := range []at.Object{x.Object, x.proto} {
			ks := src.Keys()
			for i := 0; i < ks.Count(); i++ {
				if k := ks.GetString(i); !seen[k] {
					seen[k] = true
					keys = append(keys, k)
				}
			}
		}
		sort.Strings(keys)
		for _, k := range keys {
			segs, vals = append(segs, "."+k), append(vals, x.Get(k))
		}
	case *TemplateList:
		for i := 0; i < x.Count(); i++ {
			segs, vals = append(segs, fmt.Sprintf("#%d", i)), append(vals, x.Get(i))
		}
	case at.Object:
		ks := x.Keys()
		var keys []string
		for i := 0; i < ks.Count(); i++ {
			keys = append(keys, ks.GetString(i))
		}
		sort.Strings(keys)
		for _, k := range keys {
			segs, vals = append(segs, "."+k), append(vals, x.Get(k))
		}
	case at.List:
		for i := 0; i < x.Count(); i++ {
			segs, vals = append(segs, fmt.Sprintf("#%d", i)), append(vals, x.Get(i))
		}
	}
	return
}

func kindOfValue(v any) at.Type {
	switch v.(type) {
	case nil:
		return at.TypeNil
	case at.Object:
		return at.TypeObject
	case at.List:
		return at.TypeList
	case string:
		return at.TypeString
	case bool:
		return at.TypeBool
	case int:
		return at.TypeInt
	case float64:
		return at.TypeFloat
	}
	return at.TypeUndefined
}

func c10Overriding(c *fw.Ctx, i int, r *rng.R) {
	opts := spec.Opts{MaxDepth: 3, MaxWidth: 4, SafeKeys: true, ScalarBias: 2}
	objTree := func() at.Object {
		o := opts
		o.Root = spec.Obj
		return drive.Build(nil, spec.GenTree(r, o)).(at.Object)
	}
	listTree := func() at.List {
		o := opts
		o.Root = spec.List
		return drive.Build(nil, spec.GenTree(r, o)).(at.List)
	}
	// the prototype holds another such structure, the template too: inherited values of both kinds at depth
	proto := objTree().Set("inherited", objTree(), "rows", newTemplate(listTree(), at.NewList(0, at.NewObject("r", 2, "deep", at.NewList(7, at.NewObject("k", true))), at.NewList(5, 6), nil, "t")))
	cfg := newProto(objTree().Set("mine", 1), proto)
	rows := newTemplate(at.NewList(1, at.NewObject("own", "x")), listTree().Add(newProto(at.NewObject("a", 1), at.NewObject("b", at.NewList("in", "proto")))))
	var root any
	var how string
	switch i % 4 {
	case 0:
		root, how = cfg, "the root is an object that answers for the fields of a prototype"
	case 1:
		root, how = rows, "the root is a list that continues with the elements of a template"
	case 2:
		root, how = at.NewObject("cfg", cfg, "rows", rows, "n", 1), "a plain object holding both structures"
	default:
		root, how = at.NewList("x", at.NewObject("cfg", cfg), rows), "a plain list holding both structures"
	}
	in := func() string {
		return how + " (structures whose types redefine Get, GetObject, GetList, TypeOf, KeyExists / Count: a stored structure is what Get returns, so a step through it is a step through its getters)"
	}
	guard(c, in, func() {
		c.Count("trees_with_structures_that_redefine_the_getters")
		// every path that can be walked with Get, with the value at its end
		type at2 struct {
			path string
			val  any
		}
		var all []at2
		var walk func(v any, path string, depth int)
		walk = func(v any, path string, depth int) {
			if depth > 7 || len(all) > 400 {
				return
			}
			segs, vals := tfSteps(v)
			for j, s := range segs {
				all = append(all, at2{path + s, vals[j]})
				walk(vals[j], path+s, depth+1)
			}
		}
		walk(root, "", 0)
		check := func(p string, want any, resolvable bool) bool {
			q := func() string { return in() + "\npath " + p }
			c.Distinct(fmt.Sprintf("%d %s %v", i%4, p, resolvable))
			got, gpan, gmsg := getTF(root, p)
			t, tpan, tmsg := typeOfTF(root, p)
			if tpan {
				c.Violate("typeoftf-panics", q(), "a kind or TypeUndefined, without panicking", "panic: "+tmsg)
				return false
			}
			if !resolvable {
				if t != at.TypeUndefined {
					c.Violate("unresolvable-path-has-a-type", q(), "TypeUndefined", fmt.Sprintf("type %d", t))
					return false
				}
				if !gpan {
					c.Violate("gettf-resolves-unresolvable-path", q(), "panic", fmt.Sprintf("returned %v", got))
					return false
				}
				return true
			}
			if gpan {
				c.Violate("gettf-panics-on-resolvable-path", q(), fmt.Sprintf("what step-by-step Get returns: %T %v", want, want), "panic: "+gmsg)
				return false
			}
			if !eqSlot(got, want) {
				c.Violate("gettf-differs-from-stepwise-get", q(), fmt.Sprintf("%T %v", want, want), fmt.Sprintf("%T %v", got, got))
				return false
			}
			if t != kindOfValue(want) {
				c.Violate("typeoftf-wrong-kind", q(), fmt.Sprintf("%d, the kind of what step-by-step Get returns (%T)", kindOfValue(want), want), fmt.Sprintf("%d", t))
				return false
			}
			return true
		}
		for _, a := range all {
			c.Count("paths_through_redefined_getters")
			if !check(a.path, a.val, true) {
				return
			}
		}
		// steps that cannot be taken: a key nobody answers for, an index behind own elements and template, a step below a scalar
		for _, a := range all {
			if !r.Chance(1, 4) {
				continue
			}
			var bad []string
			switch a.val.(type) {
			case at.Object:
				bad = []string{a.path + ".nobody-answers", a.path + "#0", a.path + ".nobody.answers"}
			case at.List:
				n := a.val.(at.List).Count()
				bad = []string{a.path + fmt.Sprintf("#%d", n), a.path + fmt.Sprintf("#%d#0", n+3), a.path + ".k"}
			default:
				bad = []string{a.path + ".k", a.path + "#0"}
			}
			for _, p := range bad {
				if strings.Count(p, ".")+strings.Count(p, "#") == 0 {
					continue
				}
				c.Count("unresolvable_paths_through_redefined_getters")
				if !check(p, nil, false) {
					return
				}
			}
		}
	})
}
