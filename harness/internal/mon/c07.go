package mon

import (
	"fmt"
	"math"
	"math/big"
	"sort"
	"strconv"
	"strings"
	"verifharness/internal/refjson"

	at "github.com/DanielSvub/anytype"

	"verifharness/internal/drive"
	"verifharness/internal/fw"
	"verifharness/internal/rng"
	"verifharness/internal/spec"
)

func init() { register(&Monitor{ID: "C07", Run: runC07, Self: selfC07}) }

type slotRef struct {
	parent *spec.Spec
	idx    int // list index or key index
	node   *spec.Spec
	depth  int
}

func collectSlots(t *spec.Spec) (slots []slotRef, containers []slotRef) {
	var rec func(n *spec.Spec, depth int)
	containers = append(containers, slotRef{node: t})
	rec = func(n *spec.Spec, depth int) {
		kids := n.L
		if n.K == spec.Obj {
			kids = n.Vals
		}
		for i, k := range kids {
			s := slotRef{parent: n, idx: i, node: k, depth: depth}
			slots = append(slots, s)
			if k.IsContainer() {
				containers = append(containers, s)
				rec(k, depth+1)
			}
		}
	}
	rec(t, 1)
	return
}

func setSlot(s slotRef, v *spec.Spec) {
	if s.parent.K == spec.List {
		s.parent.L[s.idx] = v
	} else {
		s.parent.Vals[s.idx] = v
	}
}

// lookalike returns a value of another kind that prints the same or similarly.
func lookalike(r *rng.R, v *spec.Spec) *spec.Spec {
	switch v.K {
	case spec.Int:
		switch r.Intn(3) {
		case 0:
			return spec.FloatV(float64(v.I))
		case 1:
			return spec.StrV(fmt.Sprint(v.I))
		}
		if v.I == 0 {
			return spec.BoolV(false)
		}
		return spec.FloatV(float64(v.I))
	case spec.Float:
		if v.F == math.Trunc(v.F) && math.Abs(v.F) < 1e15 {
			return spec.IntV(int(v.F))
		}
		return spec.StrV(fmt.Sprint(v.F))
	case spec.Bool:
		if !v.B {
			return []*spec.Spec{spec.IntV(0), spec.NilV(), spec.StrV("false")}[r.Intn(3)]
		}
		return []*spec.Spec{spec.IntV(1), spec.StrV("true")}[r.Intn(2)]
	case spec.Nil:
		return []*spec.Spec{spec.StrV(""), spec.BoolV(false), spec.IntV(0), spec.StrV("null"), spec.ListV(), spec.ObjV()}[r.Intn(6)]
	case spec.Str:
		if v.S == "" {
			return spec.NilV()
		}
		return spec.NilV()
	case spec.List:
		if len(v.L) == 0 {
			return spec.ObjV()
		}
		return spec.NilV()
	case spec.Obj:
		if len(v.Keys) == 0 {
			return spec.ListV()
		}
		return spec.NilV()
	}
	return spec.NilV()
}

// editTree returns a copy of t with exactly one edit, and its description. keepEqual edits must leave the trees equal.
func editTree(r *rng.R, t *spec.Spec) (*spec.Spec, string) {
	c := t.Clone()
	slots, conts := collectSlots(c)
	for try := 0; try < 20; try++ {
		switch r.Intn(10) {
		case 0: // kind swap with a look-alike value
			if len(slots) == 0 {
				continue
			}
			s := slots[r.Intn(len(slots))]
			setSlot(s, lookalike(r, s.node))
			return c, fmt.Sprintf("kind-swap at depth %d", s.depth)
		case 1, 7: // scalar nudged
			var sc []slotRef
			for _, x := range slots {
				if x.node.K == spec.Int || x.node.K == spec.Float || x.node.K == spec.Str || x.node.K == spec.Bool {
					sc = append(sc, x)
				}
			}
			if len(sc) == 0 {
				continue
			}
			s := sc[r.Intn(len(sc))]
			if fl := floatsOnly(sc); len(fl) > 0 && r.Chance(1, 3) {
				s = fl[r.Intn(len(fl))]
			}
			switch s.node.K {
			case spec.Int:
				if s.node.I == math.MaxInt {
					setSlot(s, spec.IntV(s.node.I-1))
				} else {
					setSlot(s, spec.IntV(s.node.I+1))
				}
				return c, "int+1"
			case spec.Float:
				k := uint64(1)
				if r.Bool() {
					k = uint64(r.Range(1, 6000))
				}
				f := math.Float64frombits(math.Float64bits(s.node.F) + k)
				if math.IsNaN(f) || math.IsInf(f, 0) || f == s.node.F {
					continue
				}
				setSlot(s, spec.FloatV(f))
				return c, fmt.Sprintf("float nudged by %d ulp", k)
			case spec.Str:
				if r.Bool() && len(s.node.S) > 0 {
					setSlot(s, spec.StrV(s.node.S[:len(s.node.S)-1]))
				} else {
					setSlot(s, spec.StrV(s.node.S+"x"))
				}
				return c, "string changed"
			case spec.Bool:
				setSlot(s, spec.BoolV(!s.node.B))
				return c, "bool flipped"
			}
		case 2: // key renamed (count stays the same); the new key is not present
			var objs []slotRef
			for _, k := range conts {
				if k.node.K == spec.Obj && len(k.node.Keys) > 0 {
					objs = append(objs, k)
				}
			}
			if len(objs) == 0 {
				continue
			}
			o := objs[r.Intn(len(objs))].node
			i := r.Intn(len(o.Keys))
			nk := o.Keys[i] + "'"
			if r.Bool() {
				nk = spec.GenKey(r)
			}
			if o.Get(nk) != nil {
				continue
			}
			o.Keys[i] = nk
			return c, "key renamed"
		case 3: // element appended
			k := conts[r.Intn(len(conts))].node
			v := spec.GenScalar(r)
			if r.Chance(1, 3) {
				v = spec.NilV()
			}
			if k.K == spec.List {
				k.L = append(k.L, v)
			} else {
				nk := spec.GenKey(r)
				if k.Get(nk) != nil {
					continue
				}
				k.Set(nk, v)
			}
			return c, "element appended"
		case 4: // element removed
			k := conts[r.Intn(len(conts))].node
			if k.Len() == 0 {
				continue
			}
			if k.K == spec.List {
				i := r.Intn(len(k.L))
				if r.Bool() {
					i = len(k.L) - 1
				}
				k.L = append(k.L[:i:i], k.L[i+1:]...)
			} else {
				i := r.Intn(len(k.Keys))
				k.Keys = append(k.Keys[:i:i], k.Keys[i+1:]...)
				k.Vals = append(k.Vals[:i:i], k.Vals[i+1:]...)
			}
			return c, "element removed"
		case 5: // two list elements swapped (only if they differ)
			var ls []*spec.Spec
			for _, k := range conts {
				if k.node.K == spec.List && len(k.node.L) >= 2 {
					ls = append(ls, k.node)
				}
			}
			if len(ls) == 0 {
				continue
			}
			l := ls[r.Intn(len(ls))]
			i, j := r.Intn(len(l.L)), r.Intn(len(l.L))
			if i == j || spec.Equal(l.L[i], l.L[j]) {
				continue
			}
			l.L[i], l.L[j] = l.L[j], l.L[i]
			return c, "elements swapped"
		case 6: // keys re-inserted in permuted order: must stay equal
			for _, k := range conts {
				if k.node.K == spec.Obj && len(k.node.Keys) >= 2 {
					p := r.Perm(len(k.node.Keys))
					nk := make([]string, len(p))
					nv := make([]*spec.Spec, len(p))
					for a, b := range p {
						nk[a], nv[a] = k.node.Keys[b], k.node.Vals[b]
					}
					k.node.Keys, k.node.Vals = nk, nv
				}
			}
			return c, "keys permuted (equal)"
		case 8: // value replaced by nil / nil replaced
			if len(slots) == 0 {
				continue
			}
			s := slots[r.Intn(len(slots))]
			if s.node.K == spec.Nil {
				setSlot(s, spec.GenScalar(r))
				if spec.Equal(s.node, nodeAt(s)) {
					continue
				}
			} else {
				setSlot(s, spec.NilV())
			}
			return c, "nil swap"
		default:
			return c, "identical copy (equal)"
		}
	}
	return c, "identical copy (equal)"
}

func floatsOnly(sc []slotRef) (out []slotRef) {
	for _, x := range sc {
		if x.node.K == spec.Float {
			out = append(out, x)
		}
	}
	return
}

func nodeAt(s slotRef) *spec.Spec {
	if s.parent.K == spec.List {
		return s.parent.L[s.idx]
	}
	return s.parent.Vals[s.idx]
}

func runC07(c *fw.Ctx) {
	// pinned pairs
	S, I, F, L, O := spec.StrV, spec.IntV, spec.FloatV, spec.ListV, spec.ObjV
	pins := [][2]*spec.Spec{
		{L(I(1)), L(F(1))},
		{L(I(0)), L(spec.BoolV(false))},
		{L(S("")), L(spec.NilV())},
		{L(I(1), I(2)), L(I(1))},
		{L(I(1)), L(I(1), I(2))},
		{O("id", I(1), "name", S("x"), "note", spec.NilV()), O("id", I(1), "name", S("x"), "memo", spec.NilV())},
		{O("a", spec.NilV()), O("b", spec.NilV())},
		{O("a", I(1), "b", I(2)), O("b", I(2), "a", I(1))},
		{L(F(0.1 + 0.2)), L(F(0.3))},
		{L(F(1)), L(F(math.Float64frombits(math.Float64bits(1) + 3000)))},
		{L(O("k", L(O("k", spec.NilV())))), L(O("k", L(O("j", spec.NilV()))))},
		{L(), L()}, {O(), O()},
		{L(L()), L(O())},
		// +0.0 and -0.0 are the same value (==), in every position
		{L(F(0)), L(F(math.Copysign(0, -1)))}, {O("z", F(math.Copysign(0, -1))), O("z", F(0))}, {L(I(1), L(F(math.Copysign(0, -1)), F(0))), L(I(1), L(F(0), F(math.Copysign(0, -1))))},
		{L(F(math.Copysign(0, -1))), L(I(0))},
		// matrices with the same cells in the same order, rows cut at other places (same number of rows, same number of cells)
		{L(L(I(1), I(2)), L(I(3))), L(L(I(1)), L(I(2), I(3)))}, {L(L(I(1)), L(I(2)), L(I(3), I(4))), L(L(I(1), I(2)), L(I(3)), L(I(4)))},
		{L(L(), L(I(1), I(2))), L(L(I(1)), L(I(2)))}, {O("m", L(L(S("a"), S("b")), L(S("c")))), O("m", L(L(S("a")), L(S("b"), S("c"))))},
		{L(L(L(I(1), I(2)), L(I(3))), L(L(I(4)))), L(L(L(I(1)), L(I(2), I(3))), L(L(I(4))))}, {L(L(I(1), I(2)), L(I(3), I(4))), L(L(I(1), I(2), I(3)), L(I(4)))},
		{L(O("a", I(1), "b", I(2)), O("c", I(3))), L(O("a", I(1)), O("b", I(2), "c", I(3)))},
		// infinities are values like any other (NaN-free data): equal to themselves, different from each other and from the
		// largest finite numbers
		{L(F(math.Inf(1))), L(F(math.Inf(1)))}, {O("k", F(math.Inf(-1)), "l", L(F(math.Inf(1)))), O("l", L(F(math.Inf(1))), "k", F(math.Inf(-1)))},
		{L(F(math.Inf(1))), L(F(math.Inf(-1)))}, {L(F(math.Inf(1))), L(F(math.MaxFloat64))}, {L(I(1), L(F(math.Inf(-1)))), L(I(1), L(F(-math.MaxFloat64)))},
		{O("a", I(1)), O("a", I(1), "b", spec.NilV())},
	}
	c.Cases("pinned", len(pins), true, func(i int, r *rng.R) {
		c07Pair(c, r, pins[i][0], pins[i][1], "pinned")
	})
	// operands that hold the very same nested container instances: one built around the other's children or derived
	// from it by SubList / Concat / Pluck / Merge, then changed in one top-level place
	c.Cases("shared-instances", c.N(1500, 100000), false, func(i int, r *rng.R) {
		isList := r.Bool()
		n := r.Range(2, 6)
		kids := make([]any, n)
		kspec := make([]*spec.Spec, n)
		for j := range kids {
			if r.Chance(1, 2) {
				t := spec.GenTree(r, spec.Opts{MaxDepth: 2, MaxWidth: 3, SafeKeys: true})
				kspec[j], kids[j] = t, drive.Build(r, t)
			} else {
				t := spec.GenScalar(r)
				kspec[j], kids[j] = t, drive.Native(t)
			}
		}
		in := func() string {
			return fmt.Sprintf("two containers around the same %d children (instances shared), then one top-level change", n)
		}
		guard(c, in, func() {
			var a, b any
			sa := &spec.Spec{K: spec.List}
			if isList {
				la := at.NewList(kids...)
				var lb at.List
				switch r.Intn(3) {
				case 0:
					lb = at.NewList(kids...)
				case 1:
					lb = la.SubList(0, 0)
				default:
					lb = la.Concat(at.NewList())
				}
				sa.L = append(sa.L, kspec...)
				a, b = la, lb
			} else {
				sa = &spec.Spec{K: spec.Obj}
				oa := at.NewObject()
				for j := range kids {
					k := "k" + fmt.Sprint(j)
					oa.Set(k, kids[j])
					sa.Set(k, kspec[j])
				}
				var ob at.Object
				switch r.Intn(3) {
				case 0:
					ob = at.NewObject()
					for j := range kids {
						ob.Set("k"+fmt.Sprint(j), kids[j])
					}
				case 1:
					ob = oa.Pluck(sa.Keys...)
				default:
					ob = at.NewObject().Merge(oa)
				}
				a, b = oa, ob
			}
			sb := sa.Clone()
			// one top-level change of b (value replaced / element appended / nothing)
			pos := r.Intn(n)
			desc := "no change"
			switch r.Intn(4) {
			case 0:
			case 1, 2:
				nv := spec.StrV("changed")
				if isList {
					b.(at.List).Replace(pos, "changed")
					sb.L[pos] = nv
				} else {
					b.(at.Object).Set("k"+fmt.Sprint(pos), "changed")
					sb.Vals[pos] = nv
				}
				desc = fmt.Sprintf("slot %d replaced", pos)
			default:
				if isList {
					b.(at.List).Add(nil)
					sb.L = append(sb.L, spec.NilV())
				} else {
					b.(at.Object).Set("extra", nil)
					sb.Set("extra", spec.NilV())
				}
				desc = "one slot appended"
			}
			want := spec.Equal(sa, sb)
			c.Count("shared_instance_pairs")
			c.Distinct(sa.Canon() + "|" + sb.Canon() + desc)
			for rep := 0; rep < 2; rep++ {
				ab, ba := equalsOf(a, b), equalsOf(b, a)
				if ab != want || ba != want {
					c.Violate("equals-differs-from-structural-equality", fmt.Sprintf("a = %s\n b = %s (%s; nested containers are the same instances in a and b)", sa.Canon(), sb.Canon(), desc), fmt.Sprint(want), fmt.Sprintf("a.Equals(b)=%v b.Equals(a)=%v", ab, ba))
					return
				}
			}
		})
	})
	// long lists that differ only near the end (and equal long lists)
	c.Cases("long-lists", c.N(60, 3000), false, func(i int, r *rng.R) {
		n := []int{33, 64, 65, 127, 129, 255, 257, 511, 513, 514, 515, 1023, 1025, 2049, 4099}[r.Intn(15)]
		a := &spec.Spec{K: spec.List}
		for j := 0; j < n; j++ {
			switch r.Intn(4) {
			case 0:
				a.L = append(a.L, spec.StrV(c05Strs[r.Intn(len(c05Strs))]))
			case 1:
				a.L = append(a.L, spec.FloatV(float64(r.Intn(9))))
			default:
				a.L = append(a.L, spec.IntV(r.Intn(9)))
			}
		}
		b := a.Clone()
		desc := "equal long lists"
		pos := n - 1 - r.Intn(4)
		switch r.Intn(5) {
		case 0:
		case 1:
			b.L[pos] = lookalike(r, b.L[pos])
			desc = fmt.Sprintf("kind swap at %d of %d", pos, n)
		case 2:
			b.L[pos] = spec.ListV(b.L[pos])
			desc = fmt.Sprintf("element %d of %d wrapped in a list", pos, n)
		case 3:
			b.L = b.L[:n-1]
			desc = "last element removed"
		default:
			pos = r.Intn(n)
			b.L[pos] = spec.StrV("different")
			desc = fmt.Sprintf("element %d of %d replaced", pos, n)
		}
		root := r.Intn(3)
		if root == 1 {
			a, b = spec.ObjV("k", a), spec.ObjV("k", b)
		} else if root == 2 {
			a, b = spec.ListV(spec.IntV(1), a), spec.ListV(spec.IntV(1), b)
		}
		c.Count("long_list_pairs")
		c07Pair(c, r, a, b, desc)
	})
	// pairs that a comparison through some flattened form (joined strings, concatenated key/value text, folded keys)
	// would confuse: the pieces differ, the flattened text is the same
	seps := []string{"", ", ", "\",\"", "\":\"", "::", "\r\n", string(rune(0x2028)), string(rune(0xfffd)), string(rune(0x1f)) + string(rune(0x1f))}
	for ch := 0; ch < 128; ch++ {
		seps = append(seps, string(rune(ch)))
	}
	foldKeys := [][2]string{{"id", "ID"}, {"k", string(rune(0x212a))}, {"s", string(rune(0x17f))}, {"key", "key "}, {"key", " key"}, {"e" + string(rune(0x301)), string(rune(0xe9))},
		{"a", "A"}, {"ss", string(rune(0xdf))}, {"i", string(rune(0x130))}, {"x", "x" + string(rune(0))}, {"1", "01"}, {"1", "1.0"}, {"true", "True"}}
	// strings that collide under common hash functions and checksums, as elements, as values, as keys, alone and nested,
	// and random strings with a checksum-neutral edit (same length, byte sum and weighted sum)
	c.Cases("digest-collisions", len(spec.CollisionPairs)*4+200, true, func(i int, r *rng.R) {
		var x, y string
		if i < len(spec.CollisionPairs)*4 {
			x, y = spec.CollisionPairs[i/4][0], spec.CollisionPairs[i/4][1]
		} else {
			x = spec.GenStr(r)
			for len(x) < 3 || len(x) > 40 {
				x = fmt.Sprintf("order-%d-%s", r.Intn(1000), c05Strs[r.Intn(len(c05Strs))])
			}
			y = spec.ChecksumNeutral(r, x)
			if y == "" {
				x = fmt.Sprintf("item %04d of %04d", r.Intn(10000), r.Intn(10000))
				y = spec.ChecksumNeutral(r, x)
			}
		}
		var a, b *spec.Spec
		switch i % 4 {
		case 0:
			a, b = spec.ListV(spec.StrV(x)), spec.ListV(spec.StrV(y))
		case 1:
			a, b = spec.ObjV(x, spec.IntV(1)), spec.ObjV(y, spec.IntV(1))
		case 2:
			a, b = spec.ObjV("k", spec.ListV(spec.IntV(1), spec.StrV(x), spec.StrV(y))), spec.ObjV("k", spec.ListV(spec.IntV(1), spec.StrV(y), spec.StrV(x)))
		default:
			a, b = spec.ObjV(x, spec.StrV(y), y, spec.StrV(x)), spec.ObjV(x, spec.StrV(x), y, spec.StrV(y))
		}
		c.Count("digest_collision_pairs")
		c07Pair(c, r, a, b, fmt.Sprintf("strings that collide under a common digest: %q / %q", x, y))
	})
	c.Cases("flattening-collisions", len(seps)*4+len(foldKeys), true, func(i int, r *rng.R) {
		var a, b *spec.Spec
		var desc string
		if i >= len(seps)*4 {
			fk := foldKeys[i-len(seps)*4]
			a = spec.ObjV(fk[0], spec.IntV(1), fk[1], spec.IntV(2))
			b = spec.ObjV(fk[0], spec.IntV(2), fk[1], spec.IntV(1))
			desc = fmt.Sprintf("values swapped between the look-alike keys %q and %q", fk[0], fk[1])
		} else {
			sp := seps[i/4]
			u, v, w := "id", "7", "tag"
			if r.Bool() {
				u, v, w = c05Strs[r.Intn(len(c05Strs))], "m", c05Strs[r.Intn(len(c05Strs))]
			}
			switch i % 4 {
			case 0:
				a, b = spec.ListV(spec.StrV(u+sp+v), spec.StrV(w)), spec.ListV(spec.StrV(u), spec.StrV(v+sp+w))
				desc = fmt.Sprintf("string lists with the element boundary moved across the separator %q", sp)
			case 1:
				a, b = spec.ObjV(u+sp+v, spec.StrV(w)), spec.ObjV(u, spec.StrV(v+sp+w))
				desc = fmt.Sprintf("key / value boundary moved across the separator %q", sp)
			case 2:
				a, b = spec.ObjV("p"+sp+"q", spec.StrV("1"), "r", spec.StrV("2")), spec.ObjV("p", spec.StrV("1"), "q"+sp+"r", spec.StrV("2"))
				desc = fmt.Sprintf("two keys with the boundary moved across the separator %q", sp)
			default:
				a = spec.ListV(spec.ListV(spec.StrV(u), spec.StrV(v)), spec.ListV(spec.StrV(w)), spec.StrV(sp))
				b = spec.ListV(spec.ListV(spec.StrV(u)), spec.ListV(spec.StrV(v), spec.StrV(w)), spec.StrV(sp))
				desc = "nested lists with the inner boundary moved"
			}
		}
		if r.Chance(1, 3) {
			a, b = spec.ListV(a, spec.IntV(0)), spec.ListV(b, spec.IntV(0))
		}
		c.Count("flattening_collision_pairs")
		c07Pair(c, r, a, b, desc)
	})
	// operands that are, or contain, derived structures (user types embedding a List / Object and registered with Init,
	// the README's "Derived Structures"): they are Lists / Objects, so Equals is typed structural equality for them too
	c.Cases("derived-structures", c.N(400, 100000), false, func(i int, r *rng.R) {
		root := spec.List
		if r.Bool() {
			root = spec.Obj
		}
		a := spec.GenTree(r, spec.Opts{MaxDepth: r.Range(1, 3), MaxWidth: r.Range(1, 4), Root: root, ScalarBias: r.Range(4, 7), SafeKeys: true})
		b, desc := a.Clone(), "equal content"
		if r.Chance(2, 3) {
			b, desc = editTree(r, a)
		}
		var build func(t *spec.Spec, derivedChance int) any
		build = func(t *spec.Spec, derivedChance int) any {
			if !t.IsContainer() {
				return drive.Native(t)
			}
			derived := r.Intn(10) < derivedChance
			if t.K == spec.List {
				args := make([]any, len(t.L))
				for j, e := range t.L {
					args[j] = build(e, derivedChance)
				}
				if derived {
					switch r.Intn(3) {
					case 0:
						return NewDList(args...)
					case 1:
						return NewDDList(args...)
					}
					return NewDDDList(args...)
				}
				return at.NewList(args...)
			}
			args := make([]any, 0, 2*len(t.Keys))
			for j, k := range t.Keys {
				args = append(args, k, build(t.Vals[j], derivedChance))
			}
			if derived {
				switch r.Intn(3) {
				case 0:
					return NewDObject(args...)
				case 1:
					return NewDDObject(args...)
				}
				return NewDDDObject(args...)
			}
			return at.NewObject(args...)
		}
		in := func() string {
			return fmt.Sprintf("pair (%s) with derived structures at random nodes\n a = %s\n b = %s", desc, a.Canon(), b.Canon())
		}
		guard(c, in, func() {
			c.Distinct(in())
			c.Count("derived_structure_pairs")
			ops := []struct {
				name string
				t    *spec.Spec
				v    any
			}{{"plain a", a, build(a, 0)}, {"a with derived nodes", a, build(a, 5)}, {"a, every node derived", a, build(a, 10)}, {"b with derived nodes", b, build(b, 5)}, {"plain b", b, build(b, 0)}}
			for _, x := range ops {
				for _, y := range ops {
					want := spec.Equal(x.t, y.t)
					var got bool
					if p, msg := drive.Protect(func() { got = equalsOf(x.v, y.v) }); p {
						c.Violate("equals-panics", in()+"\n("+x.name+").Equals("+y.name+")", fmt.Sprint(want), "panic: "+msg)
						return
					}
					if got != want {
						c.Violate("equals-differs-from-structural-equality", in()+"\n("+x.name+").Equals("+y.name+")", fmt.Sprint(want), fmt.Sprint(got))
						return
					}
				}
			}
		})
	})
	// operands that came out of the parser from differently spelled documents of the same tree (number literals with
	// trailing zeros, exact decimal expansions, shifted exponents; other blanks and string escapes): what was parsed from
	// which text must not matter to Equals
	c.Cases("parsed-twins", c.N(400, 100000), false, func(i int, r *rng.R) {
		root := spec.List
		if r.Bool() {
			root = spec.Obj
		}
		a := spec.GenTree(r, spec.Opts{MaxDepth: r.Range(1, 3), MaxWidth: r.Range(1, 5), Root: root, ScalarBias: r.Range(5, 8)})
		// make sure some floats are there
		extra := []float64{0.1, 1.5, -2.25, 1e21, 1e-7, 123456.789, 0.30000000000000004, 5e-324, 1.7976931348623157e308, -0.0, 100, math.Inf(1), math.Inf(-1)}
		for k := r.Range(1, 3); k > 0; k-- {
			f := spec.FloatV(extra[r.Intn(len(extra))])
			if a.K == spec.List {
				a.L = append(a.L, f)
			} else {
				a.Set(fmt.Sprintf("f%d", k), f)
			}
		}
		b, desc := a.Clone(), "same tree"
		if r.Chance(1, 3) {
			b, desc = editTree(r, a)
		}
		in := func() string {
			return fmt.Sprintf("two documents (%s), floats spelled differently\n a = %s\n b = %s", desc, a.Canon(), b.Canon())
		}
		guard(c, in, func() {
			c.Distinct(in())
			d1 := renderRoot(r, respellFloats(r, a), randStyle(r), false)
			d2 := renderRoot(r, respellFloats(r, b), randStyle(r), false)
			c.MarkInput(d1 + "\n" + d2)
			p1, e1, pan1 := parseRoot(a.K, d1)
			p2, e2, pan2 := parseRoot(b.K, d2)
			if e1 != nil || e2 != nil || pan1 != "" || pan2 != "" || p1 == nil || p2 == nil {
				c.Count("twins_not_parsed") // the parser's reading of a document is C03's business
				return
			}
			w1, err1 := drive.Walk(p1)
			w2, err2 := drive.Walk(p2)
			if err1 != nil || err2 != nil || drive.Diff(w1, a) != "" || drive.Diff(w2, b) != "" {
				c.Count("twins_not_parsed_as_their_tree")
				return
			}
			c.Count("parsed_twin_pairs")
			want := spec.Equal(a, b)
			built := drive.Build(r, a)
			checks := []struct {
				name string
				x, y any
				want bool
			}{{"parsed(doc a).Equals(parsed(doc b))", p1, p2, want}, {"parsed(doc b).Equals(parsed(doc a))", p2, p1, want},
				{"built(a).Equals(parsed(doc a))", built, p1, true}, {"parsed(doc a).Equals(built(a))", p1, built, true},
				{"built(a).Equals(parsed(doc b))", built, p2, want}}
			for _, ch := range checks {
				var got bool
				if pan, msg := drive.Protect(func() { got = equalsOf(ch.x, ch.y) }); pan {
					c.Violate("equals-panics", in()+"\ndoc a = "+spec.Trunc(d1, 400)+"\ndoc b = "+spec.Trunc(d2, 400)+"\n"+ch.name, fmt.Sprint(ch.want), "panic: "+msg)
					return
				}
				if got != ch.want {
					c.Violate("equals-differs-from-structural-equality", in()+"\ndoc a = "+spec.Trunc(d1, 400)+"\ndoc b = "+spec.Trunc(d2, 400)+"\n"+ch.name, fmt.Sprint(ch.want), fmt.Sprint(got))
					return
				}
			}
		})
	})
	// operands that are results of deriving operations whose element order is up to the map iteration (Keys, Values) or
	// that went through other deriving operations: Equals is positional all the same, i.e. it agrees with what Get shows
	c.Cases("derived-operands", c.N(400, 100000), false, func(i int, r *rng.R) {
		n := r.Range(2, 7)
		keys := make([]string, n)
		vals := make([]any, n)
		for j := range keys {
			keys[j] = fmt.Sprintf("k%d", j)
			vals[j] = []any{j, "v", j % 2, 1.5, nil, true}[r.Intn(6)]
		}
		in := func() string {
			return fmt.Sprintf("Keys() / Values() lists of two objects with the fields %v = %v set in different orders", keys, vals)
		}
		guard(c, in, func() {
			c.Distinct(in())
			mk := func(order []int) at.Object {
				o := at.NewObject()
				for _, j := range order {
					o.Set(keys[j], vals[j])
				}
				return o
			}
			for rep := 0; rep < 4; rep++ {
				o1, o2 := mk(r.Perm(n)), mk(r.Perm(n))
				var x, y at.List
				var what string
				switch r.Intn(4) {
				case 0:
					x, y, what = o1.Keys(), o2.Keys(), "Keys()"
				case 1:
					x, y, what = o1.Values(), o2.Values(), "Values()"
				case 2:
					x, y, what = at.NewList(o1.Keys(), 1), at.NewList(o2.Keys(), 1), "[Keys(), 1]"
				default:
					x, y, what = o1.Keys().Clone(), o2.Values(), "Keys().Clone() / Values()"
				}
				wx, errx := drive.Walk(x)
				wy, erry := drive.Walk(y)
				if errx != nil || erry != nil {
					c.Violate("operand-unwalkable", in(), "walkable lists", fmt.Sprint(errx, erry))
					return
				}
				want := spec.Equal(wx.ToSpec(), wy.ToSpec())
				c.Count("derived_operand_pairs")
				if want {
					c.Count("derived_operand_pairs_equal")
				}
				for k := 0; k < 2; k++ {
					got := x.Equals(y)
					if k == 1 {
						got = y.Equals(x)
					}
					if got != want {
						c.Violate("equals-differs-from-structural-equality", in()+fmt.Sprintf("\noperands: %s  x = %s  y = %s", what, wx.Canon(), wy.Canon()), fmt.Sprint(want), fmt.Sprint(got))
						return
					}
				}
			}
		})
	})
	// a container and its clone that went separate ways: the same number of writes on each side, with different or with
	// the same outcome; what counts is what the two hold now, not where they came from or how often they were written to
	c.Cases("diverged-clones", c.N(600, 200000), false, func(i int, r *rng.R) {
		root := spec.Obj
		if i%3 == 0 {
			root = spec.List
		}
		tree := spec.GenTree(r, spec.Opts{MaxDepth: 3, MaxWidth: 4, Root: root, ScalarBias: 3, SafeKeys: true})
		var trace []string
		in := func() string {
			return "a = " + tree.Canon() + "; b = a.Clone(); then " + strings.Join(trace, "; ")
		}
		guard(c, in, func() {
			a := drive.Build(r, tree)
			var b any
			switch x := a.(type) {
			case at.List:
				b = x.Clone()
			case at.Object:
				b = x.Clone()
			}
			// nested containers of both sides in the same order (the clone has the same shape)
			var nodes func(v any) []any
			nodes = func(v any) []any {
				out := []any{v}
				switch x := v.(type) {
				case at.List:
					for j := 0; j < x.Count(); j++ {
						switch x.TypeOf(j) {
						case at.TypeList, at.TypeObject:
							out = append(out, nodes(x.Get(j))...)
						}
					}
				case at.Object:
					ks := x.Keys()
					var keys []string
					for j := 0; j < ks.Count(); j++ {
						keys = append(keys, ks.GetString(j))
					}
					sort.Strings(keys)
					for _, k := range keys {
						switch x.TypeOf(k) {
						case at.TypeList, at.TypeObject:
							out = append(out, nodes(x.Get(k))...)
						}
					}
				}
				return out
			}
			na, nb := nodes(a), nodes(b)
			if len(na) != len(nb) {
				return
			}
			edits := r.Range(1, 4)
			same := r.Chance(1, 4) // the writes of both sides have the same outcome
			for e := 0; e < edits; e++ {
				at2 := r.Intn(len(na))
				va, vb := any(e), any(e+100)
				if r.Chance(1, 3) {
					va, vb = fmt.Sprintf("s%d", e), fmt.Sprintf("t%d", e)
				}
				if same {
					vb = va
				}
				ka, kb := fmt.Sprintf("w%d", r.Intn(3)), fmt.Sprintf("w%d", r.Intn(3))
				if same || r.Bool() {
					kb = ka
				}
				for side, n := range []any{na[at2], nb[at2]} {
					k, v := ka, va
					if side == 1 {
						k, v = kb, vb
					}
					switch x := n.(type) {
					case at.List:
						if x.Count() > 0 && r.Bool() {
							x.Replace(0, v)
						} else {
							x.Add(v)
						}
					case at.Object:
						x.Set(k, v)
					}
				}
				trace = append(trace, fmt.Sprintf("container %d of a gets %v (key %s), of b %v (key %s)", at2, va, ka, vb, kb))
			}
			wa, erra := drive.Walk(a)
			wb, errb := drive.Walk(b)
			if erra != nil || errb != nil {
				return
			}
			want := spec.Equal(wa.ToSpec(), wb.ToSpec())
			c.Distinct(in())
			if want {
				c.Count("diverged_clones_equal_again")
			} else {
				c.Count("diverged_clones_unequal")
			}
			for rep := 0; rep < 2; rep++ {
				if ab, ba := equalsOf(a, b), equalsOf(b, a); ab != want || ba != want {
					c.Violate("equals-differs-from-structural-equality", in()+"\nnow a = "+stringCanon(a)+"\n    b = "+stringCanon(b), fmt.Sprintf("a.Equals(b) = b.Equals(a) = %v", want), fmt.Sprintf("%v / %v", ab, ba))
					return
				}
			}
		})
	})
	c.Cases("pairs", c.N(5000, 3000000), false, func(i int, r *rng.R) {
		root := spec.List
		if r.Bool() {
			root = spec.Obj
		}
		a := spec.GenTree(r, spec.Opts{MaxDepth: r.Range(1, 5), MaxWidth: r.Range(1, 5), Root: root, ScalarBias: r.Range(4, 8), Wide: true})
		b, desc := editTree(r, a)
		c.Count("edit/" + desc[:minInt(len(desc), 14)])
		c07Pair(c, r, a, b, desc)
	})
	historyCases(c, "history", 600, 60000, probeEquals)
	// triples from a small pool: equal triples are frequent, so transitivity is exercised
	c.Cases("triples", c.N(1000, 500000), false, func(i int, r *rng.R) {
		root := spec.List
		if r.Bool() {
			root = spec.Obj
		}
		base := spec.GenTree(r, spec.Opts{MaxDepth: 2, MaxWidth: 3, Root: root})
		ts := []*spec.Spec{base}
		for j := 0; j < 2; j++ {
			if r.Chance(2, 3) {
				x, _ := editTree(r, ts[r.Intn(len(ts))])
				ts = append(ts, x)
			} else {
				ts = append(ts, base.Clone())
			}
		}
		guard(c, func() string { return fmt.Sprintf("triple %s | %s | %s", ts[0].Canon(), ts[1].Canon(), ts[2].Canon()) }, func() {
			reals := []any{drive.Build(r, ts[0]), drive.Build(r, ts[1]), drive.Build(r, ts[2])}
			var eq [3][3]bool
			for x := 0; x < 3; x++ {
				for y := 0; y < 3; y++ {
					eq[x][y] = equalsOf(reals[x], reals[y])
					if eq[x][y] != spec.Equal(ts[x], ts[y]) {
						c.Violate("equals-differs-from-structural-equality", fmt.Sprintf("a=%s b=%s", ts[x].Canon(), ts[y].Canon()), fmt.Sprint(spec.Equal(ts[x], ts[y])), fmt.Sprint(eq[x][y]))
						return
					}
				}
			}
			c.Distinct(fmt.Sprintf("T %s|%s|%s", ts[0].Canon(), ts[1].Canon(), ts[2].Canon()))
			if eq[0][1] && eq[1][2] {
				c.Count("transitive_premises")
				if !eq[0][2] {
					c.Violate("equals-not-transitive", fmt.Sprintf("a=%s b=%s c=%s", ts[0].Canon(), ts[1].Canon(), ts[2].Canon()), "a==c", "a!=c")
				}
			}
		})
	})
}

func minInt(a, b int) int {
	if a < b {
		return a
	}
	return b
}

func c07Pair(c *fw.Ctx, r *rng.R, a, b *spec.Spec, desc string) {
	in := func() string { return fmt.Sprintf("pair (%s)\n a = %s\n b = %s", desc, a.Canon(), b.Canon()) }
	guard(c, in, func() {
		ra := drive.Build(r, a)
		if r != nil && r.Chance(1, 25) {
			// a lot happens between the construction of the two operands: thousands of other short strings, numbers and
			// containers are made and dropped (whatever the library shares or remembers across values has turned over)
			churn := at.NewList()
			for j := 0; j < 9000; j++ {
				churn.Add(fmt.Sprintf("s%05d", j), j, float64(j)+0.5)
				if j%3000 == 2999 {
					churn = at.NewList()
				}
			}
			c.Count("pairs_with_churn_between_the_operands")
		}
		rb := drive.Build(r, b)
		want := spec.Equal(a, b)
		if want {
			c.Count("equal_pairs")
		} else {
			c.Count("unequal_pairs")
		}
		c.Distinct(a.Canon() + "|" + b.Canon())
		if c.WantSample() && a.Size() < 12 && !want {
			c.Sample(map[string]any{"a": a.Canon(), "b": b.Canon(), "edit": desc, "expected_equals": want})
		}
		beforeA, beforeB := stringCanon(ra), stringCanon(rb)
		var ab, ba, aa, bb bool
		if p, msg := drive.Protect(func() {
			ab = equalsOf(ra, rb)
			ba = equalsOf(rb, ra)
			aa = equalsOf(ra, ra)
			bb = equalsOf(rb, rb)
			for rep := 0; rep < 3; rep++ {
				// objects are compared in map iteration order, which differs from call to call: the verdict must not
				if equalsOf(ra, rb) != ab || equalsOf(rb, ra) != ba {
					ab, ba = !want, !want
					c.Count("verdict_changes_between_calls")
				}
			}
		}); p {
			c.Violate("equals-panics", in(), "true/false", "panic: "+msg)
			return
		}
		if ab != want {
			c.Violate("equals-differs-from-structural-equality", in(), fmt.Sprintf("a.Equals(b) = %v", want), fmt.Sprintf("%v", ab))
			return
		}
		if ba != ab {
			c.Violate("equals-not-symmetric", in(), fmt.Sprintf("b.Equals(a) = %v", ab), fmt.Sprintf("%v", ba))
			return
		}
		if !aa || !bb {
			c.Violate("equals-not-reflexive", in(), "x.Equals(x)", "false")
			return
		}
		// an equal but separately built copy (different construction route) must be equal
		ra2 := drive.Build(r, a.Clone())
		if !equalsOf(ra, ra2) || !equalsOf(ra2, ra) {
			c.Violate("equals-false-for-equal-copy", in(), "a.Equals(copy of a built through another route)", "false")
			return
		}
		if stringCanon(ra) != beforeA || stringCanon(rb) != beforeB {
			c.Violate("equals-modifies-operand", in(), beforeA+" / "+beforeB, stringCanon(ra)+" / "+stringCanon(rb))
		}
	})
}

func selfC07(s *fw.SelfCheck) {
	s.Expect(!spec.Equal(spec.ListV(spec.IntV(1)), spec.ListV(spec.FloatV(1))), "structural equality confuses int and float")
	s.Expect(spec.Equal(spec.ObjV("a", spec.IntV(1), "b", spec.NilV()), spec.ObjV("b", spec.NilV(), "a", spec.IntV(1))), "structural equality depends on key order")
	s.Expect(!spec.Equal(spec.ObjV("a", spec.NilV()), spec.ObjV("b", spec.NilV())), "structural equality ignores key names")
	r := rng.New(3, "selfC07", 0)
	eq, ne := 0, 0
	for i := 0; i < 300; i++ {
		a := spec.GenTree(r, spec.Opts{MaxDepth: 3, MaxWidth: 4})
		b, _ := editTree(r, a)
		if spec.Equal(a, b) {
			eq++
		} else {
			ne++
		}
	}
	s.Expect(eq > 20 && ne > 100, fmt.Sprintf("edit generator unbalanced: %d equal, %d unequal", eq, ne))
}

// respellFloats returns a copy of the tree in which every float carries a literal that spells the same float64 in
// another way: trailing zeros, the exact decimal expansion, a shifted or differently written exponent.
func respellFloats(r *rng.R, t *spec.Spec) *spec.Spec {
	c := t.Clone()
	var rec func(s *spec.Spec)
	rec = func(s *spec.Spec) {
		switch s.K {
		case spec.Float:
			s.Lit = altFloatLit(r, s.F)
		case spec.List:
			for _, e := range s.L {
				rec(e)
			}
		case spec.Obj:
			for _, e := range s.Vals {
				rec(e)
			}
		}
	}
	rec(c)
	return c
}

func altFloatLit(r *rng.R, f float64) string {
	short := refjson.FloatLit(f)
	mant, exp := short, ""
	if i := strings.IndexAny(short, "eE"); i >= 0 {
		mant, exp = short[:i], short[i:]
	}
	zeros := strings.Repeat("0", r.Range(1, 25))
	switch r.Intn(6) {
	case 0:
		return short
	case 1: // trailing zeros in the fraction
		if strings.Contains(mant, ".") {
			return mant + zeros + exp
		}
		return mant + "." + zeros + exp
	case 2: // exact decimal expansion (moderate magnitudes only)
		if f != 0 && math.Abs(f) > 1e-30 && math.Abs(f) < 1e30 {
			x := new(big.Float).SetPrec(4000).SetFloat64(f).Text('f', 1200)
			x = strings.TrimRight(x, "0")
			if strings.HasSuffix(x, ".") {
				x += "0"
			}
			return x
		}
		return short
	case 3: // an explicit zero exponent, in several writings
		if exp == "" {
			return mant + []string{"e0", "E0", "e+0", "e-0", "E+00", "e000"}[r.Intn(6)]
		}
		return mant + strings.ToUpper(exp)
	case 4: // exponent shifted by one digit position
		if exp == "" && strings.Contains(mant, ".") && !strings.HasPrefix(strings.TrimPrefix(mant, "-"), "0.") {
			// d.ddd -> dddd e-k
			neg := strings.HasPrefix(mant, "-")
			m := strings.TrimPrefix(mant, "-")
			k := len(m) - 1 - strings.Index(m, ".")
			digits := strings.TrimLeft(strings.Replace(m, ".", "", 1), "0")
			if digits == "" {
				digits = "0"
			}
			out := digits + ".0e-" + strconv.Itoa(k)
			if neg {
				out = "-" + out
			}
			return out
		}
		return short
	default: // trailing zeros and a zero exponent together
		if exp == "" {
			if strings.Contains(mant, ".") {
				return mant + zeros + "e+00"
			}
			return mant + "." + zeros + "e+00"
		}
		return short
	}
}
