package mon

import (
	"fmt"
	"math"
	"strconv"
	"strings"

	at "github.com/DanielSvub/anytype"

	"verifharness/internal/drive"
	"verifharness/internal/fw"
	"verifharness/internal/model"
	"verifharness/internal/rng"
	"verifharness/internal/spec"
)

func init() { register(&Monitor{ID: "C10", Run: runC10, Self: selfC10}) }

var tfKeys = []string{"a", "b", "c", "key", "x", "inner", "list", "0", "1", "7", "name", "v a l", "\"q", "é", "clé", "日本", "naïve", "-1", "+1", "0x1", "nil", "A", "aa",
	// keys with characters that path syntaxes elsewhere treat specially: escapes, quotes, brackets, wildcards, blanks at the ends
	"back\\", "C:\\tmp\\", "\\", "x\\y", "a/b", "a[0]", "[0]", "*", "a*", "$", "$ref", "@", "~", "~1", "a b ", " a", "a\tb", "a\nb", "%2E", "%23", "'q'", "a,b", "a:b", "a=b", "{x}", "key ", "KEY", "Key"}
var tfObstacleKeys = []string{"", ".", "#", ".b", "#1", "a.b", "a#1", "..", "b.", ".a", "#0", "#"}

// genTFTree: trees for the tree-form monitors: addressable keys (ASCII and not), plus obstacle keys that contain sigils.
func genTFTree(r *rng.R, root spec.Kind, maxDepth int) *spec.Spec {
	var rec func(k spec.Kind, depth int) *spec.Spec
	rec = func(k spec.Kind, depth int) *spec.Spec {
		s := &spec.Spec{K: k}
		n := r.Range(0, 4)
		if depth == 1 && n == 0 {
			n = 2
		}
		if k == spec.List && r.Chance(1, 15) {
			n = []int{11, 12, 23, 101}[r.Intn(4)] // two- and three-digit indices
		}
		for i := 0; i < n; i++ {
			var v *spec.Spec
			if depth < maxDepth && r.Chance(5, 10) {
				ck := spec.List
				if r.Bool() {
					ck = spec.Obj
				}
				v = rec(ck, depth+1)
			} else {
				switch r.Intn(6) {
				case 0:
					v = spec.NilV()
				case 1:
					v = spec.BoolV(r.Bool())
				case 2:
					v = spec.IntV(r.Range(-3, 9))
				case 3:
					v = spec.FloatV(float64(r.Range(-4, 4)) / 2)
				default:
					v = spec.StrV(c05Strs[r.Intn(len(c05Strs))])
					if r.Chance(1, 5) {
						// a string is a scalar whatever its text looks like: JSON text, a path, a number
						v = spec.StrV([]string{`{"a":1,"id":2,"key":[3]}`, `[1,[2],{"a":3}]`, `{"0":"zero","1":"one"}`, `[]`, `{}`, `.a.b`, `#0`, `12`, `a`, `{"x":{"a":{"b":1}}}`, `["a","b","c","d","e","f","g","h","i","j","k"]`}[r.Intn(11)])
					}
				}
			}
			if k == spec.List {
				s.L = append(s.L, v)
			} else {
				key := tfKeys[r.Intn(len(tfKeys))]
				if r.Chance(1, 6) {
					key = tfObstacleKeys[r.Intn(len(tfObstacleKeys))]
				}
				s.Set(key, v)
			}
		}
		return s
	}
	return rec(root, 1)
}

func getTF(root any, p string) (v any, panicked bool, msg string) {
	panicked, msg = drive.Protect(func() {
		switch x := root.(type) {
		case at.List:
			v = x.GetTF(p)
		case at.Object:
			v = x.GetTF(p)
		}
	})
	return
}

func typeOfTF(root any, p string) (t at.Type, panicked bool, msg string) {
	panicked, msg = drive.Protect(func() {
		switch x := root.(type) {
		case at.List:
			t = x.TypeOfTF(p)
		case at.Object:
			t = x.TypeOfTF(p)
		}
	})
	return
}

// stepwise navigates the real tree with Get segment by segment (for well-formed resolvable paths).
func stepwise(root any, segs []model.Seg) (v any, ok bool) {
	cur := root
	pan, _ := drive.Protect(func() {
		for _, s := range segs {
			if s.Sigil == '.' {
				cur = cur.(at.Object).Get(s.Text)
			} else {
				i, _ := model.CanonIndex(s.Text)
				cur = cur.(at.List).Get(i)
			}
		}
	})
	return cur, !pan
}

// corruptions returns one-step corruptions of a resolvable path.
func corruptions(r *rng.R, root *model.Node, path string) []string {
	segs, _ := model.SplitPath(path)
	join := func(ss []model.Seg) string {
		var b strings.Builder
		for _, s := range ss {
			b.WriteByte(s.Sigil)
			b.WriteString(s.Text)
		}
		return b.String()
	}
	var out []string
	// something in front of the leading sigil (root markers of other path languages, blanks, punctuation): not a path
	for _, pre := range []string{"$", "@", "/", " ", "\t", "~", "^", "*", "&", "?", "!", "\\", "$$", "$root", "this", "root", "0", "\x00", "\ufeff"} {
		out = append(out, pre+path)
	}
	// names that other path languages treat as properties of a list or an object: here they are keys like any other
	for _, prop := range []string{".count", ".length", ".size", ".len", ".first", ".last", ".keys", ".values", ".type", ".*", "#*", "#-", "#last", "#$"} {
		out = append(out, path+prop)
	}
	out = append(out, path+".", path+"#", path[1:], "."+path, "#"+path, path+".zz", path+"#0", path+"#9", path+".a", path+".id", path+".key#0", path+"#1", path+"#2.a", path+".0", path+".x.a.b")
	for i := range segs {
		c := append([]model.Seg{}, segs...)
		// sigil swapped
		if c[i].Sigil == '.' {
			c[i].Sigil = '#'
		} else {
			c[i].Sigil = '.'
		}
		out = append(out, join(c))
		// segment dropped
		d := append(append([]model.Seg{}, segs[:i]...), segs[i+1:]...)
		if len(d) > 0 {
			out = append(out, join(d))
		}
		// doubled sigil (empty segment)
		e := append([]model.Seg{}, segs[:i]...)
		e = append(e, model.Seg{Sigil: segs[i].Sigil, Text: ""})
		e = append(e, segs[i:]...)
		out = append(out, join(e))
		// an empty segment of the other kind in front (".m.#1" is the key "" and then an index, not ".m#1")
		e2 := append([]model.Seg{}, e...)
		if e2[i].Sigil == '.' {
			e2[i].Sigil = '#'
		} else {
			e2[i].Sigil = '.'
		}
		out = append(out, join(e2))
		// emptied segment
		f := append([]model.Seg{}, segs...)
		f[i].Text = ""
		out = append(out, join(f))
		g := append([]model.Seg{}, segs...)
		if segs[i].Sigil == '#' {
			// index shifted to n, n+1, far away; non-numeric index
			parent, st := model.Resolve(root, join(segs[:i]))
			n := 0
			if i == 0 {
				n = len(root.E)
			} else if st == model.Resolved && parent.Ref != nil {
				n = len(parent.Ref.E)
			}
			for _, idx := range []string{strconv.Itoa(n), strconv.Itoa(n + 1), "99999999999999999999",
				// the ends of the integer ranges (an index computation such as i+1 or 2*i wraps there)
				strconv.Itoa(math.MaxInt), strconv.Itoa(math.MaxInt - 1), strconv.Itoa(math.MaxInt / 2), strconv.Itoa(math.MaxInt/2 + 1), "2147483647", "2147483648", "4294967295", "4294967296",
				"9223372036854775807", "9223372036854775808", "18446744073709551615", "18446744073709551616",
				// other number syntaxes (out of the domain: only the consistency of the two reads is judged)
				"-1", "-2", "-0", "-" + strconv.Itoa(n), "-" + strconv.Itoa(n+1), "+0", "+1", "00", "01", "0x0", "0x1", "0b1", "0o1", "1_0", "0_0", "x", "1x", " 1", "one", segs[i].Text + "-", segs[i].Text + "+", segs[i].Text + "/", segs[i].Text + ",", "1-", "1+", "1/", "2*", "1 ", "1:", segs[i].Text + "e", "0-"} {
				g[i].Text = idx
				out = append(out, join(g))
			}
		} else {
			t := segs[i].Text
			for _, k := range []string{t + "x", "zz", strings.ToUpper(t) + "_", t[:len(t)-1],
				// the key among alternatives, in a pattern, with blanks or quotes around it: keys of their own
				t + "|zz", "zz|" + t, t + "|" + t, t + ",zz", "zz," + t, t + "/zz", t + "?", "?" + t, t + "*", "*" + t, "*", "[" + t + "]", "\"" + t + "\"", "'" + t + "'", " " + t, t + " ", t + "||", "(" + t + ")", t + "=", "~" + t, "!" + t, t + "&" + t} {
				g[i].Text = k
				out = append(out, join(g))
			}
		}
	}
	return out
}

func randomPathString(r *rng.R) string {
	alpha := []string{".", "#", "0", "1", "2", "9", "a", "b", "key", "-", "+", "x", "_", " ", "é", "01", "0x1", "é", "/", ",", "*", "#1", "#1", "#0", "#2"}
	n := r.Range(0, 8)
	var b strings.Builder
	for i := 0; i < n; i++ {
		b.WriteString(alpha[r.Intn(len(alpha))])
	}
	return b.String()
}

func runC10(c *fw.Ctx) {
	S, I, L, O := spec.StrV, spec.IntV, spec.ListV, spec.ObjV
	pins := []*spec.Spec{
		O("a", O(".b", I(1), "b", I(2))),
		O("#1", I(1), ".b", I(2), "a", L(I(1), O("#0", I(3)))),
		L(I(0), I(1), L(I(2), O("k", S("v")))),
		O("clé", O("x", I(1)), "日本", L(I(1), O("naïve", I(2)))),
		L(L(I(1), I(2)), L()),
		O("", I(1), "a", O("", I(2))),
		O("a", spec.NilV(), "b", L(spec.NilV())),
	}
	c.Cases("pinned", len(pins), true, func(i int, r *rng.R) { c10Case(c, r, pins[i]) })
	c.Cases("trees", c.N(800, 300000), false, func(i int, r *rng.R) {
		root := spec.List
		if r.Bool() {
			root = spec.Obj
		}
		c10Case(c, r, genTFTree(r, root, r.Range(2, 5)))
	})
	// long paths: chains 20-60 levels deep, long keys
	historyCases(c, "history", 150, 15000, probePaths)
	c.Cases("deep-paths", c.N(40, 4000), false, func(i int, r *rng.R) {
		d := r.Range(20, 60)
		longKey := strings.Repeat("k", []int{1, 40, 300, 2000}[r.Intn(4)])
		tree := spec.ListV(spec.IntV(1), spec.ObjV("leaf", spec.StrV("v")))
		for j := 0; j < d; j++ {
			switch r.Intn(3) {
			case 0:
				tree = spec.ListV(spec.NilV(), tree, spec.IntV(j))
			case 1:
				tree = spec.ObjV(longKey, tree, "other", spec.IntV(j))
			default:
				tree = spec.ObjV(tfKeys[r.Intn(len(tfKeys))], tree)
			}
		}
		c.Count("deep_path_trees")
		c10Case(c, r, tree)
	})
	c.Cases("overriding-getters", c.N(80, 8000), true, func(i int, r *rng.R) { c10Overriding(c, i, r) })
}

func c10Case(c *fw.Ctx, r *rng.R, tree *spec.Spec) {
	in := func() string { return describeTree(tree) }
	guard(c, in, func() {
		h := &model.Heap{}
		root := h.FromSpec(tree)
		c.Distinct(tree.Canon())
		if r != nil && r.Chance(1, 4) {
			// somewhere in the tree sits a derived structure, handed over by its registered pointer or by a value it embeds
			// (`parent.Set("emb", d.Object)`): every read resolves the registered pointer, as step-by-step Get does
			nodes := reachable(root)
			parent := nodes[r.Intn(len(nodes))]
			do := NewDDObject("dk", 1, "ds", "x")
			dl := NewDList(7, "s")
			no, nl := h.NewObj(do), h.NewList(dl)
			no.M["dk"], no.M["ds"] = model.Int(1), model.Str("x")
			nl.E = []model.Val{model.Int(7), model.Str("s")}
			var ho, hl any = do, dl
			how := "their registered pointers"
			switch r.Intn(3) {
			case 1:
				ho, hl, how = do.DObject.Object, dl.List, "the library containers they embed"
			case 2:
				ho, how = do.DObject, "an intermediate embedded value / the library container"
				hl = dl.List
			}
			if parent.K == spec.List {
				parent.List().Add(ho, hl)
				parent.E = append(parent.E, model.Ref(no), model.Ref(nl))
			} else {
				parent.Object().Set("embo", ho, "embl", hl)
				parent.M["embo"], parent.M["embl"] = model.Ref(no), model.Ref(nl)
			}
			c.Count("trees_with_derived_structures")
			inner := in
			in = func() string {
				return inner() + "\nplus a DDObject {dk:1, ds:\"x\"} and a DList [7, \"s\"] stored in " + parent.Name() + " through " + how
			}
			tree = root.ToSpec()
		}
		c10Check(c, r, h, root, in, tree)
	})
}

// probePaths: the reads of c10Check on a tree that has a history of mutations behind it (tree-form writes with padding,
// method calls on nested containers, one container instance at several places).
func probePaths(p *prog, root *model.Node, round int) {
	p.trace = append(p.trace, fmt.Sprintf("probe %d: every resolvable path, corruptions of a sample, unresolvable strings", round))
	before := p.c.Violations()
	c10Check(p.c, p.r, p.h, root, p.input, root.ToSpec())
	if p.c.Violations() > before {
		p.failed = true
	}
}

func c10Check(c *fw.Ctx, r *rng.R, h *model.Heap, root *model.Node, describe func() string, tree *spec.Spec) {
	describeTree := func(*spec.Spec) string { return describe() }
	in := describe
	{
		real := root.Real
		before := stringCanon(real)
		paths, vals := model.AllPaths(root, 400)
		check := func(p string) bool {
			c.MarkInput(p)
			want, st := model.Resolve(root, p)
			t, tpan, tmsg := typeOfTF(real, p)
			got, gpan, gmsg := getTF(real, p)
			q := func() string { return fmt.Sprintf("%s\npath %q", describeTree(tree), p) }
			switch st {
			case model.OutOfDomain:
				// an index spelled in another number syntax (sign, leading zero, base prefix, separator): whether it resolves
				// is not stated, but the two reads must tell the same story: TypeOfTF never panics, it says TypeUndefined
				// exactly when GetTF panics, and otherwise it is the kind of what GetTF returned
				c.Count("queries_out_of_domain")
				if tpan {
					c.Violate("typeoftf-panics", q(), "a kind or TypeUndefined, without panicking", "panic: "+tmsg)
					return false
				}
				if gpan != (t == at.TypeUndefined) {
					obs := fmt.Sprintf("TypeOfTF = %d, GetTF returned %v", t, got)
					if gpan {
						obs = fmt.Sprintf("TypeOfTF = %d, GetTF panicked: %s", t, gmsg)
					}
					c.Violate("gettf-and-typeoftf-disagree", q(), "TypeOfTF is TypeUndefined exactly when GetTF panics", obs)
					return false
				}
				if !gpan {
					if k, ok := drive.KindOfValue(got); !ok || drive.TypeOfKind(k) != t {
						c.Violate("gettf-and-typeoftf-disagree", q(), "TypeOfTF is the kind of the value GetTF returns", fmt.Sprintf("TypeOfTF = %d, GetTF returned %T %v", t, got, got))
						return false
					}
				}
				return true
			case model.Resolved:
				c.Count("queries_resolvable")
				if tpan {
					c.Violate("typeoftf-panics", q(), "kind "+want.K.String(), "panic: "+tmsg)
					return false
				}
				if gpan {
					c.Violate("gettf-panics-on-resolvable-path", q(), "the value "+want.String(), "panic: "+gmsg)
					return false
				}
				if t != drive.TypeOfKind(want.K) {
					c.Violate("typeoftf-wrong-kind", q(), fmt.Sprintf("kind %s (%d)", want.K, drive.TypeOfKind(want.K)), fmt.Sprintf("%d", t))
					return false
				}
				if d := h.MatchVal(got, want); d != "" {
					c.Violate("gettf-wrong-value", q(), "exactly what step-by-step Get returns: "+want.String(), d)
					return false
				}
				if segs, ok := model.WellFormed(root.K, p); ok {
					if sv, ok := stepwise(real, segs); ok {
						if !eqSlot(sv, got) {
							c.Violate("gettf-differs-from-stepwise-get", q(), fmt.Sprintf("%v", sv), fmt.Sprintf("%v", got))
							return false
						}
						c.Count("stepwise_comparisons")
					}
				}
			case model.Unresolved:
				c.Count("queries_unresolvable")
				if tpan {
					c.Violate("typeoftf-panics", q(), "TypeUndefined without panicking", "panic: "+tmsg)
					return false
				}
				if t != at.TypeUndefined {
					c.Violate("unresolvable-path-has-a-type", q(), "TypeUndefined", fmt.Sprintf("type %d", t))
					return false
				}
				if !gpan {
					c.Violate("gettf-resolves-unresolvable-path", q(), "panic", fmt.Sprintf("returned %v", got))
					return false
				}
			}
			return true
		}
		for i, p := range paths {
			_ = vals[i]
			if !check(p) {
				return
			}
		}
		// corruptions of a sample of the resolvable paths
		if len(paths) > 0 {
			k := 6
			if len(paths) < k {
				k = len(paths)
			}
			for _, pi := range r.Perm(len(paths))[:k] {
				for _, q := range corruptions(r, root, paths[pi]) {
					c.Count("corrupted_paths")
					if !check(q) {
						return
					}
				}
			}
		}
		for i := 0; i < 30; i++ {
			c.Count("random_strings")
			if !check(randomPathString(r)) {
				return
			}
		}
		// for every key of the tree that itself contains a sigil: the path that spells it out (read as segments it
		// addresses something else or nothing) from every object that holds such a key
		for _, n := range reachable(root) {
			if n.K != spec.Obj {
				continue
			}
			prefixes := []string{""}
			for pi, pp := range paths {
				if vals[pi].Ref == n {
					prefixes = append(prefixes, pp)
				}
			}
			if n != root && len(prefixes) == 1 {
				continue
			}
			for _, k := range n.SortedKeys() {
				if model.AddressableKey(k) || k == "" {
					continue
				}
				for _, pre := range prefixes {
					if pre == "" && n != root {
						continue
					}
					c.Count("sigil_key_paths")
					if !check(pre+"."+k) || !check(pre+"."+k+".x") || !check(pre+"."+k+"#0") {
						return
					}
				}
			}
		}
		for _, p := range []string{"", ".", "#", "..", "##", ".#", "#.", "invalid", "a", "0"} {
			if !check(p) {
				return
			}
		}
		if after := stringCanon(real); after != before {
			c.Violate("read-modifies-tree", in(), before, after)
		}
		if c.WantSample() && len(paths) > 3 && tree.Size() < 14 {
			n := len(paths)
			if n > 8 {
				n = 8
			}
			c.Sample(map[string]any{"tree": tree.Canon(), "resolvable_paths": paths[:n]})
		}
	}
}

func selfC10(s *fw.SelfCheck) {
	h := &model.Heap{}
	root := h.FromSpec(spec.ObjV("a", spec.ObjV(".b", spec.IntV(1), "b", spec.ListV(spec.IntV(5), spec.IntV(6)))))
	v, st := model.Resolve(root, ".a.b#1")
	s.Expect(st == model.Resolved && v.K == spec.Int && v.I == 6, "resolver fails on .a.b#1")
	_, st = model.Resolve(root, ".a..b")
	s.Expect(st == model.Unresolved, "resolver resolves an empty segment")
	_, st = model.Resolve(root, ".a.b#2")
	s.Expect(st == model.Unresolved, "resolver resolves index n")
	_, st = model.Resolve(root, ".a.b#01")
	s.Expect(st == model.OutOfDomain, "resolver claims a verdict on a non-canonical index")
	_, st = model.Resolve(root, "#0")
	s.Expect(st == model.Unresolved, "resolver accepts the wrong leading sigil")
	_, st = model.Resolve(root, ".a.b#1.")
	s.Expect(st == model.Unresolved, "resolver accepts a trailing sigil")
	_, st = model.Resolve(root, ".a.b#x")
	s.Expect(st == model.Unresolved, "resolver accepts a non-numeric index")
}
