package mon

import (
	"fmt"
	at "github.com/DanielSvub/anytype"
	"strings"

	"verifharness/internal/drive"
	"verifharness/internal/fw"
	"verifharness/internal/refjson"
	"verifharness/internal/rng"
	"verifharness/internal/spec"
)

func init() { register(&Monitor{ID: "C03", Run: runC03, Self: selfC03}) }

// c03Check parses a harness-rendered valid document with the library and compares the result with the tree it was
// rendered from. The references (strict parser, encoding/json) are consulted first: if they do not reproduce the
// tree, the fault is in the harness and the case is inconclusive, never a violation.
func c03Check(c *fw.Ctx, tree *spec.Spec, text string, crossCheck bool) {
	c.MarkInput(text)
	in := func() string { return "document " + text }
	if crossCheck {
		ref, lone, depth, err := refjson.ParseInfo(text, IntBits)
		if err != nil || lone > 0 {
			c.Inconclusive(fmt.Sprintf("generator produced a document the strict parser rejects (%v, lone=%d): %s", err, lone, spec.Trunc(text, 200)))
			return
		}
		if d := spec.Diff(ref, tree); d != "" {
			c.Inconclusive("strict parser disagrees with the generating tree: " + d + " in " + spec.Trunc(text, 200))
			return
		}
		if depth < 9000 {
			std, err := refjson.DecodeStd(text, IntBits)
			if err != nil {
				c.Inconclusive(fmt.Sprintf("encoding/json rejects a generated document (%v): %s", err, spec.Trunc(text, 200)))
				return
			}
			if d := spec.Diff(std, tree); d != "" {
				c.Inconclusive("encoding/json disagrees with the generating tree: " + d + " in " + spec.Trunc(text, 200))
				return
			}
		}
	}
	parsed, err, pan := parseRoot(tree.K, text)
	if pan != "" {
		c.Violate("valid-document-panics", in(), "parsed", "panic: "+pan)
		return
	}
	if err != nil || parsed == nil {
		c.Violate("valid-document-rejected", in(), "valid RFC 8259 document is parsed without error", fmt.Sprintf("error: %v", err))
		return
	}
	w, werr := drive.Walk(parsed)
	if werr != nil {
		c.Violate("parsed-unwalkable", in(), "consistent container", werr.Error())
		return
	}
	if d := drive.Diff(w, tree); d != "" {
		sig := "parsed-tree-differs"
		switch {
		case strings.Contains(d, ": string "):
			sig = "parsed-string-differs"
		case strings.Contains(d, "key"):
			sig = "parsed-keys-differ"
		case strings.Contains(d, "kind int, expected float"), strings.Contains(d, "kind float, expected int"):
			sig = "parsed-number-kind-differs"
		case strings.Contains(d, ": float "), strings.Contains(d, ": int "):
			sig = "parsed-number-value-differs"
		}
		c.Violate(sig, in(), "same tree as the reference decoder: "+spec.Trunc(tree.Canon(), 1500), d+"\nparsed = "+spec.Trunc(w.Canon(), 1500))
		return
	}
	if tree.Size() > 400 {
		return
	}
	// what a document means does not depend on what happened to an earlier result: the first result is written over at
	// every level, then the same text is parsed again
	drive.Protect(func() { c03Scribble(parsed, 0) })
	again, err2, pan2 := parseRoot(tree.K, text)
	if pan2 != "" || err2 != nil || again == nil {
		c.Violate("valid-document-rejected", in()+"\n(second parse of the same text, after the first result was modified)", "parsed without error", fmt.Sprintf("error: %v panic: %s", err2, pan2))
		return
	}
	c.Count("documents_parsed_again_after_the_result_was_modified")
	w2, werr2 := drive.Walk(again)
	if werr2 != nil {
		c.Violate("parsed-unwalkable", in(), "consistent container", werr2.Error())
		return
	}
	if d := drive.Diff(w2, tree); d != "" {
		c.Violate("second-parse-differs", in()+"\n(second parse of the same text, after the first result was modified)", "the same tree as the first time: "+spec.Trunc(tree.Canon(), 1500), d+"\nparsed = "+spec.Trunc(w2.Canon(), 1500))
	}
}

// c03Scribble overwrites a parsed result at every level (new elements / fields, first entries replaced).
func c03Scribble(v any, depth int) {
	if depth > 60 {
		return
	}
	switch x := v.(type) {
	case at.List:
		x.ForEachObject(func(o at.Object) { c03Scribble(o, depth+1) })
		x.ForEachList(func(l at.List) { c03Scribble(l, depth+1) })
		if x.Count() > 0 {
			x.Replace(0, "scribbled")
		}
		x.Add("scribbled", 7)
	case at.Object:
		x.ForEachObject(func(o at.Object) { c03Scribble(o, depth+1) })
		x.ForEachList(func(l at.List) { c03Scribble(l, depth+1) })
		if ks := x.Keys(); ks.Count() > 0 {
			x.Set(ks.GetString(0), "scribbled")
		}
		x.Set("scribbled", 7)
	}
}

func pinnedDocs() []string {
	bs := "\\"
	return []string{
		`["a` + bs + `/b"]`,
		`["` + bs + `uD83D` + bs + `uDE00"]`,
		`["` + bs + `ud83d` + bs + `ude00x", "` + bs + `u00e9` + bs + `uD83D` + bs + `uDE00"]`,
		`{"a` + bs + `/b":1, "` + bs + `uD83D` + bs + `uDE00":2}`,
		"[\"" + string(rune(0xfffd)) + "\"]",
		"{\"" + string(rune(0xfffd)) + "\":\"" + string(rune(0xfffd)) + "\"}",
		`[0.1, 1e300, 1E-300, 3.141592653589793, 0.10000000149011612]`,
		`[1, -0, 0, -1, 2147483647, 2147483648, -2147483648, -2147483649, 9223372036854775807, 9223372036854775808, -9223372036854775808, -9223372036854775809]`,
		`[1.0, 1e0, 1E+2, 1.50, 100e-2, 0.0, -0.0, 0e0]`,
		`{"a":1,"a":2,"b":{"c":[],"c":{}},"a":3}`,
		" \t\r\n[ \t\r\n1 \t\r\n, \t\r\n\"x\" \t\r\n, \t\r\n{ \t\r\n\"k\" \t\r\n: \t\r\n[ \t\r\n] \t\r\n} \t\r\n] \t\r\n",
		`["` + bs + `"", "` + bs + bs + `", "` + bs + `b` + bs + `f` + bs + `n` + bs + `r` + bs + `t", "` + bs + `u0000", "` + bs + `u001F", "` + bs + `u007f", "` + bs + `u2028"]`,
		`[[],{},[[]],[{}],{"":[]},{"":{}}]`,
		`{"":""}`,
		`[true,false,null,[true],{"t":true,"f":false,"n":null}]`,
		`["` + bs + `u0041` + bs + `u0042", "` + bs + `u0001` + bs + `u0002", "` + bs + `u001b` + bs + `u001b[0m"]`,
		`[1e-400, 5e-324, 2.2250738585072011e-308, 1.7976931348623157e308, 123456789012345678901234567890]`,
		`{"k` + bs + `"q":"v` + bs + `"q","k` + bs + bs + `":"v` + bs + bs + `"}`,
	}
}

func runC03(c *fw.Ctx) {
	pins := pinnedDocs()
	c.Cases("pinned", len(pins), true, func(i int, r *rng.R) {
		text := pins[i]
		guard(c, func() string { return text }, func() {
			tree, err := refjson.Parse(text, IntBits)
			if err != nil {
				c.Inconclusive("pinned document rejected by the strict parser: " + err.Error())
				return
			}
			std, err2 := refjson.DecodeStd(text, IntBits)
			if err2 != nil || spec.Diff(std, tree) != "" {
				c.Inconclusive("references disagree on a pinned document: " + text)
				return
			}
			c.Distinct(text)
			c03Check(c, tree, text, false)
		})
	})
	n := c.N(6000, 3000000)
	if c.Arch386 {
		n /= 4
	}
	c.Cases("docs", n, false, func(i int, r *rng.R) {
		root := spec.List
		if r.Bool() {
			root = spec.Obj
		}
		tree := genDocTree(r, root, r.Range(1, 5), r.Range(1, 6))
		st := randStyle(r)
		text := renderRoot(r, tree, st, true)
		guard(c, func() string { return text }, func() {
			tree.Classes(func(s string) { c.Count("class/" + s) })
			if strings.Contains(text, "\\u") {
				c.Count("docs_with_u_escape")
			}
			if strings.Contains(text, "\\/") {
				c.Count("docs_with_escaped_slash")
			}
			if strings.Contains(text, "\\ud8") || strings.Contains(text, "\\uD8") || strings.Contains(text, "\\udb") || strings.Contains(text, "\\uDB") {
				c.Count("docs_with_surrogate_pair")
			}
			if st.WS == 2 {
				c.Count("docs_heavy_whitespace")
			}
			if tree.Size() >= 2 {
				c.Distinct(text)
			}
			if c.WantSample() && len(text) > 20 && len(text) < 200 {
				c.Sample(map[string]any{"document": text, "expected": tree.Canon()})
			}
			c03Check(c, tree, text, true)
		})
	})
	// number spellings on their own (many per document)
	c.Cases("numbers", c.N(300, 100000), false, func(i int, r *rng.R) {
		tree := &spec.Spec{K: spec.List}
		for j := 0; j < 40; j++ {
			tree.L = append(tree.L, genDocNumber(r))
		}
		text := renderRoot(r, tree, docStyle{WS: r.Intn(2)}, false)
		guard(c, func() string { return text }, func() {
			c.Add("number_literals", 40)
			c.Distinct(text)
			// big.Rat cross-check of the expected floats (short literals only)
			for _, e := range tree.L {
				if e.K == spec.Float && len(e.Lit) < 60 && !strings.Contains(e.Lit, "e-4") {
					if f, ok := refjson.RatFloat(e.Lit); ok && f != e.F {
						c.Inconclusive(fmt.Sprintf("ParseFloat and big.Rat disagree on %s", e.Lit))
						return
					}
				}
			}
			c03Check(c, tree, text, true)
		})
	})
	// escape-spelling sweep: every scalar value in every legal spelling (value and key position)
	chunks := spec.CodePointChunks(128)
	c.Cases("escape-sweep", chunks, true, func(i int, r *rng.R) {
		if c.Arch386 {
			return
		}
		if c.Quick() && !(i*128 < 0x400 || (i*128 >= 0x2000 && i*128 < 0x2080) || (i*128 >= 0xd780 && i*128 < 0xe080) || (i*128 >= 0xff80 && i*128 < 0x10100) || i%32 == int(c.Seed%32)) {
			return
		}
		ch := spec.CodePointChunk(i, 128)
		if ch == "" {
			return
		}
		for mode := 0; mode < 4; mode++ {
			var b strings.Builder
			b.WriteString("[\"")
			for _, cp := range ch {
				spellRune(&b, nil, cp, docStyle{}, mode)
			}
			b.WriteString("\",{\"")
			for _, cp := range ch {
				spellRune(&b, nil, cp, docStyle{}, mode)
			}
			b.WriteString("\":0}]")
			text := b.String()
			tree := spec.ListV(spec.StrV(ch), spec.ObjV(ch, spec.IntV(0)))
			c.Add("escape_sweep_spellings", int64(len([]rune(ch))))
			c.Distinct(text)
			guard(c, func() string { return text }, func() { c03Check(c, tree, text, i%64 == 0) })
		}
	})
	// large flat documents: many records of a small repeated shape (counters that leak per element show up here)
	c.Cases("large-flat", c.N(8, 60), true, func(i int, r0 *rng.R) {
		if c.Arch386 && i%4 != 0 {
			return
		}
		r := rng.New(c.Seed, "C03/large-flat", i)
		n := []int{10001, 12000, 20011, 40000, 70000}[i%5]
		shape := i % 8
		var b strings.Builder
		tree := &spec.Spec{K: spec.List}
		b.WriteString("[")
		for j := 0; j < n; j++ {
			if j > 0 {
				b.WriteString(",")
				if r.Chance(1, 50) {
					b.WriteString("\n")
				}
			}
			var rec *spec.Spec
			switch shape {
			case 0:
				rec = spec.ObjV("id", spec.IntV(j), "tags", spec.ListV(spec.StrV("x")))
				fmt.Fprintf(&b, `{"id":%d,"tags":["x"]}`, j)
			case 1:
				rec = spec.ListV(spec.IntV(j), spec.ListV(), spec.ObjV())
				fmt.Fprintf(&b, `[%d,[],{}]`, j)
			case 2:
				rec = spec.ObjV("o", spec.ObjV("l", spec.ListV(spec.ObjV("k", spec.NilV()))))
				b.WriteString(`{"o":{"l":[{"k":null}]}}`)
			case 3:
				rec = spec.IntV(j)
				fmt.Fprintf(&b, `%d`, j)
			case 4:
				rec = spec.StrV("s\n" + fmt.Sprint(j))
				fmt.Fprintf(&b, `"s\n%d"`, j)
			case 5:
				rec = spec.ObjV("a", spec.ListV(spec.ListV(spec.IntV(1))), "b", spec.ListV(spec.BoolV(true)))
				b.WriteString(`{"a":[[1]],"b":[true]}`)
			case 6:
				rec = spec.FloatV(float64(j) + 0.5)
				fmt.Fprintf(&b, `%d.5`, j)
			default:
				rec = spec.ListV(spec.ObjV("k", spec.ListV(spec.ObjV())))
				b.WriteString(`[{"k":[{}]}]`)
			}
			tree.L = append(tree.L, rec)
		}
		b.WriteString("]")
		text := b.String()
		if i%2 == 1 {
			// the same records as the fields of one large object
			ot := &spec.Spec{K: spec.Obj}
			var ob strings.Builder
			ob.WriteString("{")
			for j, rec := range tree.L[:n/4] {
				if j > 0 {
					ob.WriteString(",")
				}
				k := fmt.Sprintf("k%d", j)
				ot.Keys = append(ot.Keys, k)
				ot.Vals = append(ot.Vals, rec)
				fmt.Fprintf(&ob, "%q:%s", k, refjson.Render(rec))
			}
			ob.WriteString("}")
			tree, text = ot, ob.String()
		}
		c.Add("large_flat_records", int64(tree.Len()))
		c.Distinct(fmt.Sprintf("large-flat %d", i))
		guard(c, func() string { return spec.Trunc(text, 300) }, func() { c03Check(c, tree, text, i < 2) })
	})
	// deep nesting
	depths := []int{50, 200, 1000}
	if !c.Quick() {
		depths = append(depths, 5000, 50000)
	}
	c.Cases("deep", len(depths)*2, true, func(i int, r *rng.R) {
		d := depths[i/2]
		if c.Arch386 && d > 5000 {
			return // 32-bit address space: a 50000-deep recursion (library and walker) exhausts what the process can map
		}
		var text string
		var tree *spec.Spec
		if i%2 == 0 {
			text = strings.Repeat("[", d) + "1" + strings.Repeat("]", d)
			tree = spec.IntV(1)
			for j := 0; j < d; j++ {
				tree = spec.ListV(tree)
			}
		} else {
			text = strings.Repeat("{\"k\":[", d) + strings.Repeat("]}", d)
			tree = nil
			for j := 0; j < d; j++ {
				l := spec.ListV()
				if tree != nil {
					l = spec.ListV(tree)
				}
				tree = spec.ObjV("k", l)
			}
		}
		c.Max("max_depth", int64(d))
		c.Distinct(fmt.Sprintf("deep %d %d", d, i%2))
		guard(c, func() string { return spec.Trunc(text, 200) }, func() { c03Check(c, tree, text, false) })
	})
}

func selfC03(s *fw.SelfCheck) {
	r := rng.New(1, "selfC03", 0)
	for i := 0; i < 300; i++ {
		tree := genDocTree(r, spec.List, 3, 4)
		text := renderRoot(r, tree, randStyle(r), true)
		ref, err := refjson.Parse(text, IntBits)
		if err != nil {
			s.Expect(false, "derivation generator produced invalid JSON: "+err.Error()+" "+spec.Trunc(text, 200))
			return
		}
		if d := spec.Diff(ref, tree); d != "" {
			s.Expect(false, "strict parser disagrees with generator: "+d)
			return
		}
		std, err := refjson.DecodeStd(text, IntBits)
		if err != nil || spec.Diff(std, tree) != "" {
			s.Expect(false, "encoding/json disagrees with generator on "+spec.Trunc(text, 200))
			return
		}
	}
	v, _ := refjson.ClassifyNumber("9223372036854775808", 64)
	s.Expect(v != nil && v.K == spec.Float, "number rule: 2^63 must be a float")
	v, _ = refjson.ClassifyNumber("-9223372036854775808", 64)
	s.Expect(v != nil && v.K == spec.Int, "number rule: -2^63 must be an int")
	v, _ = refjson.ClassifyNumber("2147483648", 32)
	s.Expect(v != nil && v.K == spec.Float, "number rule: 2^31 must be a float on 32-bit")
	v, _ = refjson.ClassifyNumber("-0", 64)
	s.Expect(v != nil && v.K == spec.Int && v.I == 0, "number rule: -0 is int 0")
	v, _ = refjson.ClassifyNumber("1.0", 64)
	s.Expect(v != nil && v.K == spec.Float, "number rule: 1.0 is a float")
}
