package mon

import (
	"fmt"
	"math"
	"math/big"

	at "github.com/DanielSvub/anytype"

	"verifharness/internal/drive"
	"verifharness/internal/fw"
	"verifharness/internal/rng"
	"verifharness/internal/spec"
)

func init() { register(&Monitor{ID: "C18", Run: runC18, Self: selfC18}) }

// i64 converts at run time (the harness is also compiled for a 32-bit int).
func i64(x int64) int { return int(x) }

func toF(v any) float64 {
	switch x := v.(type) {
	case int:
		return float64(x)
	case float64:
		return x
	}
	return math.NaN()
}

func ratOf(f float64) *big.Rat {
	r := new(big.Rat)
	r.SetFloat64(f)
	return r
}

// within: |got - exact| <= tol (all as rationals; tol given as a float64 bound computed in big arithmetic).
func within(got float64, exact *big.Rat, tol *big.Rat) bool {
	if math.IsNaN(got) || math.IsInf(got, 0) {
		return false
	}
	d := new(big.Rat).Sub(ratOf(got), exact)
	d.Abs(d)
	return d.Cmp(tol) <= 0
}

var minNormalRat = new(big.Rat).SetFloat64(2.2250738585072014e-308)
var halfSubnormalUlp = new(big.Rat).SetFrac(big.NewInt(1), new(big.Int).Lsh(big.NewInt(1), 1075))
var twoM52 = new(big.Rat).SetFrac(big.NewInt(1), new(big.Int).Lsh(big.NewInt(1), 52))

// genNumeric draws a numeric list. class: 0 exact (small ints and dyadic fractions), 1 general, 2 extreme ints, 3 product-friendly
func genNumeric(r *rng.R) (vals []any, class int) {
	if r.Chance(1, 12) {
		// class 4: factors of magnitude >= 1 whose product certainly leaves the float64 range
		n := r.Range(3, 12)
		vals = make([]any, n)
		for i := range vals {
			f := math.Pow(10, float64(r.Range(60, 200))) * (1 + r.Float01())
			if r.Chance(1, 3) {
				f = -f
			}
			vals[i] = f
			if r.Chance(1, 5) {
				vals[i] = (1 << 20) * (1 - 2*r.Intn(2))
			}
		}
		// make sure of the overflow: the first six factors alone exceed 1e360
		for i := 0; i < 3 && i < n; i++ {
			if f, ok := vals[i].(float64); ok && math.Abs(f) < 1e120 {
				vals[i] = math.Copysign(1e150, f)
			} else if !ok {
				vals[i] = 1e150
			}
		}
		return vals, 4
	}
	n := []int{1, 1, 2, 3, 5, 8, 13, 30, r.Range(1, 30), r.Range(1, 30), 64, 200, r.Range(1, 30), []int{513, 1025, 5000}[r.Intn(3)]}[r.Intn(14)]
	class = r.Intn(4)
	mode := r.Intn(5) // 0 ints, 1 floats, 2.. mixed
	neg := r.Chance(1, 4)
	vals = make([]any, n)
	for i := range vals {
		isInt := mode == 0 || (mode >= 2 && r.Bool())
		switch class {
		case 0:
			if isInt {
				vals[i] = r.Range(-1000, 1000)
			} else {
				vals[i] = float64(r.Range(-8000, 8000)) / 8
			}
		case 1:
			if isInt {
				vals[i] = int(int32(r.U64()))
			} else {
				vals[i] = (r.Float01() - 0.5) * math.Pow(10, float64(r.Range(-6, 12)))
				if mode == 1 && r.Chance(1, 4) {
					// floats far outside the int range (all of one sign in some lists)
					vals[i] = (1 + r.Float01()) * math.Pow(10, float64(r.Range(19, 290)))
					if neg || r.Chance(1, 4) {
						vals[i] = -vals[i].(float64)
					}
				}
			}
		case 2:
			if isInt {
				vals[i] = []int{math.MaxInt, math.MinInt, math.MaxInt - 1, math.MinInt + 1, math.MaxInt / 2, 1, -1, 2, 0}[r.Intn(9)]
			} else {
				vals[i] = []float64{2.5, -1.0, 9.223372036854775807e18, -9.223372036854775808e18, 0.5, 1e18}[r.Intn(6)]
			}
		default:
			if isInt {
				vals[i] = []int{1, 2, -2, 3, -1, 4, 5, 7, 1, 1}[r.Intn(10)]
			} else {
				vals[i] = math.Ldexp(1+r.Float01(), r.Range(-8, 8)) * float64(1-2*r.Intn(2))
			}
		}
		if neg {
			switch x := vals[i].(type) {
			case int:
				if x > 0 {
					vals[i] = -x
				} else if x == 0 {
					vals[i] = -1
				}
			case float64:
				if x > 0 {
					vals[i] = -x
				} else if x == 0 {
					vals[i] = -0.5
				}
			}
		}
	}
	return
}

func showNums(v []any) string {
	s := "["
	for i, e := range v {
		if i > 0 {
			s += " "
		}
		switch x := e.(type) {
		case int:
			s += fmt.Sprintf("%d", x)
		case float64:
			s += fmt.Sprintf("%vf", x)
		default:
			s += showSlot(e)
		}
	}
	return s + "]"
}

func runC18(c *fw.Ctx) {
	pins := [][]any{{-3, -1, -2}, {-2.5, -7, -0.5}, {-4}, {-1.25}, {math.MaxInt, 1}, {math.MaxInt, 2.5, math.MaxInt}, {math.MinInt, -1.0, math.MinInt}, {1.0, 4, 5.0}, {0, 5, 5, 10},
		{7}, {7.5}, {0}, {0.0}, {math.MaxInt}, {math.MinInt}, {3, 3.0}, {1e300, 1e300}, {-1, 1}, {0.1, 0.2, 0.3}, {2, 0.5}, {5, -5.0, 5},
		// one float close to the end of the float64 range next to small numbers (sum and mean stay finite in every order)
		{1e308, 4}, {4, 1e308}, {1.7e308, 1, 2}, {-1.7e308, 3}, {1e308, 0, 0, 0}, {math.MaxFloat64, 1, -1}, {2, 8.9e307, 3.5},
		// products at the ends of the int range (exact in float64 in every order)
		// factors of very different magnitude whose product is an ordinary number (in the order given; other orders leave
		// the range on the way and end at an infinity or at zero, never at NaN)
		{1e200, 1e-200, 1e200, 1e-200}, {1e-200, 1e200, 1e-200, 1e200}, {1e300, 1e300, 1e-300, 1e-300}, {1e-300, 1e-300, 1e300, 1e300}, {1e200, 2, 1e200, 0.5, 1e-200, 4, 1e-200},
		{-1e250, 1e-250, -1e250, 1e-250, 3}, {1e308, 10, 0.1, 1e-308}, {5e-324, 1e308, 5e-324, 1e308},
		// the bottom of the range: sums of subnormals are exact, the mean is the correctly rounded quotient
		{5e-324, 5e-324}, {5e-324, 5e-324, 5e-324, 5e-324}, {1e-323, 5e-324}, {2.5e-323, 5e-324, 5e-324, 5e-324}, {5e-324}, {-5e-324, -5e-324}, {5e-324, -5e-324}, {1e-310, 3e-310, 5e-324, 0},
		{2e-323, 1, -1}, {5e-324, 0, 0, 0, 0, 0, 0, 0},
		// same-sign elements whose sum lies beyond the float64 range: every order of summation ends at that infinity
		{1e308, 1e308}, {math.MaxFloat64, math.MaxFloat64}, {-1e308, -1e308, -1e308}, {1e308, 1, 1e308}, {9e307, 9e307, 0, 9e307}, {-math.MaxFloat64, -1, -math.MaxFloat64}, {1.5e308, 3e307, 1e307, 1},
		{math.MinInt, -1}, {-1, math.MinInt}, {math.MinInt, -1, -1}, {math.MaxInt, -1}, {math.MinInt, 1}, {i64(1 << 31), i64(-(1 << 31)), 2, -1}, {math.MinInt, -1.0}, {-1, -1, math.MinInt, -1},
		{i64(3037000500), i64(3037000500)}, {i64(-3037000500), i64(3037000500), -1}, {math.MaxInt, math.MaxInt}, {math.MinInt, math.MinInt}, {math.MinInt, 0.5, -2}}
	c.Cases("pinned", len(pins), true, func(i int, r *rng.R) { c18Numeric(c, pins[i], 1) })
	// lists without any element, reached in different ways (fresh, emptied, empty results of deriving operations)
	c.Cases("empty", 12, true, func(i int, r *rng.R) {
		names := []string{"NewList()", "NewListFrom([]int{})", "NewListFrom([]float64(nil))", "NewListOf(1.5, 0)", "NewList(1, 2.5).Clear()", "NewList(3).Pop() list", "NewList(1, 2).Delete(0, 1)",
			"NewList(1, 2).Filter(none)", "NewList().Concat(NewList())", "NewList(1.5).SubList(1, 1)", "ParseList(\"[]\")", "NewList(2, 3).Clone().Clear()"}
		in := func() string { return "empty list made by " + names[i] }
		guard(c, in, func() {
			var l at.List
			switch i {
			case 0:
				l = at.NewList()
			case 1:
				l = at.NewListFrom([]int{})
			case 2:
				l = at.NewListFrom([]float64(nil))
			case 3:
				l = at.NewListOf(1.5, 0)
			case 4:
				l = at.NewList(1, 2.5).Clear()
			case 5:
				l = at.NewList(3)
				l.Pop()
			case 6:
				l = at.NewList(1, 2).Delete(0, 1)
			case 7:
				l = at.NewList(1, 2).Filter(func(any) bool { return false })
			case 8:
				l = at.NewList().Concat(at.NewList())
			case 9:
				l = at.NewList(1.5, 2.5).SubList(1, 1)
			case 10:
				l, _ = at.ParseList("[]")
			default:
				l = at.NewList(2, 3).Clone().Clear()
			}
			c.Distinct(in())
			if l == nil || l.Count() != 0 {
				c.Count("empty_route_not_empty") // the route is not what this workload is about (judged by C05 / C09)
				return
			}
			c18Empty(c, l, in())
		})
	})
	c.Cases("numeric", c.N(3000, 600000), false, func(i int, r *rng.R) {
		vals, class := genNumeric(r)
		c18Numeric(c, vals, class)
	})
	// Int* family on arbitrary lists (non-int elements interleaved), and the no-qualifying-element results
	c.Cases("int-family", c.N(2000, 500000), false, func(i int, r *rng.R) {
		n := []int{0, 1, 2, 5, 9, r.Range(0, 20), r.Range(0, 20), 40, 130}[r.Intn(9)]
		vals := make([]any, n)
		noInts := r.Chance(1, 6)
		for j := range vals {
			k := r.Intn(8)
			if noInts && k <= 3 {
				k = 4 + r.Intn(4)
			}
			switch k {
			case 0, 1:
				vals[j] = r.Range(-50, 50)
			case 2:
				vals[j] = []int{math.MaxInt, math.MinInt, math.MaxInt - 1, i64(1 << 40), i64(-(1 << 40)), i64(3037000500)}[r.Intn(6)]
			case 3:
				vals[j] = int(int32(r.U64()))
			case 4:
				vals[j] = float64(r.Range(-50, 50)) // a float with an integer value is not an int
			case 5:
				vals[j] = []any{"1", "", nil, true, false}[r.Intn(5)]
			case 6:
				vals[j] = at.NewList(1, 2)
			default:
				vals[j] = at.NewObject("a", 1)
			}
		}
		c18IntFamily(c, vals)
	})
}

func c18IntFamily(c *fw.Ctx, vals []any) {
	in := func() string { return "list " + showNums(vals) }
	guard(c, in, func() {
		l := at.NewList(vals...)
		if len(vals)%5 == 3 {
			// "any list": also one that holds itself (directly, or through an object field); these elements are not ints
			l.Add(l)
			l.Insert(0, at.NewObject("back", l))
			vals = append(append([]any{"<object leading back to the list>"}, vals...), "<the list itself>")
			c.Count("self_containing_lists")
			c.MarkInput(in())
		}
		before := top(l)
		sum, prod, mn, mx := 0, 1, 0, 0
		have := false
		for _, v := range vals {
			x, ok := v.(int)
			if !ok {
				continue
			}
			sum += x
			prod *= x
			if !have || x < mn {
				mn = x
			}
			if !have || x > mx {
				mx = x
			}
			have = true
		}
		if !have {
			c.Count("no_int_element_lists")
		}
		c.Count("int_family_lists")
		c.Distinct(in())
		check := func(name string, got, want int) {
			if got != want {
				c.Violate("aggregate-wrong:"+name, in(), fmt.Sprint(want), fmt.Sprint(got))
			}
		}
		check("IntSum", l.IntSum(), sum)
		check("IntProd", l.IntProd(), prod)
		check("IntMin", l.IntMin(), mn)
		check("IntMax", l.IntMax(), mx)
		if !sameTop(before, top(l)) {
			c.Violate("aggregate-modifies-list", in(), showTop(before), showTop(top(l)))
		}
	})
}

// c18Empty: "with no qualifying element the sums are 0, the products 1 and the minima and maxima 0" on a list without
// any element (Avg of nothing is not specified and only called).
func c18Empty(c *fw.Ctx, l at.List, desc string) {
	c.Count("empty_lists")
	var sum, prod, mn, mx float64
	var isum, iprod, imin, imax int
	if p, msg := drive.Protect(func() {
		sum, prod, mn, mx = l.Sum(), l.Prod(), l.Min(), l.Max()
		isum, iprod, imin, imax = l.IntSum(), l.IntProd(), l.IntMin(), l.IntMax()
	}); p {
		c.Violate("aggregate-panics", desc, "0 / 1 / 0 / 0 on a list without elements", msg)
		return
	}
	drive.Protect(func() { l.Avg() })
	// the sign of a zero is not part of the statement
	if sum != 0 || prod != 1 || mn != 0 || mx != 0 || isum != 0 || iprod != 1 || imin != 0 || imax != 0 {
		c.Violate("aggregate-wrong:empty", desc, "Sum 0 Prod 1 Min 0 Max 0 IntSum 0 IntProd 1 IntMin 0 IntMax 0",
			fmt.Sprintf("Sum %v Prod %v Min %v Max %v IntSum %v IntProd %v IntMin %v IntMax %v", sum, prod, mn, mx, isum, iprod, imin, imax))
	}
	if l.Count() != 0 {
		c.Violate("aggregate-modifies-list", desc, "still empty", stringCanon(l))
	}
}

func c18Numeric(c *fw.Ctx, vals []any, class int) {
	c18NumericHist(c, nil, vals, class, 0, spec.Hash(showNums(vals)), "")
}

// c18NumericHist checks all aggregates of a numeric list; with l != nil the list is an existing one whose current
// content (vals, as observed through Get) is the reference.
func c18NumericHist(c *fw.Ctx, l at.List, vals []any, class int, depth int, rr uint64, histNote string) {
	in := func() string {
		if histNote != "" {
			return "numeric list " + showNums(vals) + " (reached from " + histNote + ")"
		}
		return "numeric list " + showNums(vals)
	}
	guard(c, in, func() {
		if l == nil {
			l = at.NewList(vals...)
		}
		before := top(l)
		n := len(vals)
		if n == 0 {
			c18Empty(c, l, in())
			return
		}
		c.Count("numeric_lists")
		c.Count(fmt.Sprintf("class/%d", class))
		c.Distinct(in())
		if c.WantSample() && n > 2 && n < 8 {
			c.Sample(map[string]any{"list": showNums(vals)})
		}
		allNeg := true
		exactSum, exactProd, sumAbs := new(big.Rat), big.NewRat(1, 1), new(big.Rat)
		mn, mx := math.Inf(1), math.Inf(-1)
		// the product is judged whenever no evaluation order can overflow or underflow: the factors of magnitude above 1
		// multiply to at most 2^1000 and those below 1 to at least 2^-1000 (then every partial product of every order is
		// a normal number and the relative error is bounded by n * 2^-52)
		upLog, downLog := 0.0, 0.0
		for _, v := range vals {
			if a := math.Abs(toF(v)); a > 1 {
				upLog += math.Log2(a)
			} else if a > 0 && a < 1 {
				downLog += math.Log2(a)
			}
		}
		orderFree := upLog <= 1000 && downLog >= -1000
		wantProd := ((class == 0 || class == 3) && n <= 40) || (orderFree && n <= 24)
		for _, v := range vals {
			f := toF(v)
			if f >= 0 {
				allNeg = false
			}
			exactSum.Add(exactSum, ratOf(f))
			if wantProd {
				exactProd.Mul(exactProd, ratOf(f))
			}
			a := ratOf(math.Abs(f))
			sumAbs.Add(sumAbs, a)
			if f < mn {
				mn = f
			}
			if f > mx {
				mx = f
			}
		}
		if allNeg {
			c.Count("all_negative_lists")
		}
		if n == 1 {
			c.Count("single_element_lists")
		}
		var sum, prod, gmin, gmax, avg float64
		if p, msg := drive.Protect(func() { sum, prod, gmin, gmax, avg = l.Sum(), l.Prod(), l.Min(), l.Max(), l.Avg() }); p {
			c.Violate("aggregate-panics", in(), "a number", msg)
			return
		}
		// whatever the order of evaluation: finite elements never add up to NaN (a partial sum that left the range stays at its
		// infinity), and non-zero finite factors never multiply to NaN (a partial product that left the range stays at its
		// infinity or at zero) - NaN needs Inf - Inf or Inf * 0, which no fold of such elements contains
		hasZero := false
		for _, v := range vals {
			if toF(v) == 0 {
				hasZero = true
			}
		}
		c.Count("nan_freedom_checked")
		if math.IsNaN(sum) || math.IsNaN(avg) || math.IsNaN(gmin) || math.IsNaN(gmax) {
			c.Violate("aggregate-wrong:NaN", in(), "numbers (finite elements never add up to NaN in any order)", fmt.Sprintf("Sum %v Avg %v Min %v Max %v", sum, avg, gmin, gmax))
			return
		}
		if !hasZero && math.IsNaN(prod) {
			c.Violate("aggregate-wrong:Prod", in(), "a number (non-zero finite factors never multiply to NaN in any order)", "NaN")
			return
		}
		// Min / Max are exact
		if gmin != mn {
			c.Violate("aggregate-wrong:Min", in(), fmt.Sprint(mn), fmt.Sprint(gmin))
		}
		if gmax != mx {
			c.Violate("aggregate-wrong:Max", in(), fmt.Sprint(mx), fmt.Sprint(gmax))
		}
		// Sum: forward error bound of recursive summation in any order: (n-1) * 2^-53 * sum|x| (doubled for slack)
		nn := new(big.Rat).SetInt64(int64(n))
		tolSum := new(big.Rat).Mul(new(big.Rat).Mul(nn, twoM52), sumAbs)
		if class == 0 {
			tolSum = new(big.Rat) // every partial sum is exactly representable: any order gives the exact sum
		}
		if sumAbs.Cmp(minNormalRat) < 0 {
			// all partial sums of every order are subnormal: multiples of 2^-1074 below 2^-1022, added without rounding
			tolSum = new(big.Rat)
			c.Count("subnormal_lists")
		}
		exactF, _ := exactSum.Float64()
		if math.IsInf(exactF, 0) && (mn >= 0 || mx <= 0) {
			// elements of one sign: the partial sums of every order only grow in magnitude and stay within n * 2^-52 of the
			// exact ones until they leave the range; with the exact sum a thousandth beyond the range every order overflows
			limit := new(big.Rat).Mul(new(big.Rat).SetFloat64(math.MaxFloat64), big.NewRat(1001, 1000))
			if new(big.Rat).Abs(exactSum).Cmp(limit) > 0 {
				c.Count("overflowing_sums_checked")
				if sum != exactF {
					c.Violate("aggregate-wrong:Sum", in(), fmt.Sprintf("%v (elements of one sign, the exact sum lies beyond the float64 range)", exactF), fmt.Sprint(sum))
				}
				// the mean itself may well be representable: the overflowed sum divided by the count and the true mean are
				// both accepted, anything else (NaN, the other sign) is not
				exactAvg := new(big.Rat).Quo(exactSum, new(big.Rat).SetInt64(int64(n)))
				tolAvg := new(big.Rat).Mul(new(big.Rat).Abs(exactAvg), new(big.Rat).Mul(new(big.Rat).SetInt64(int64(n+1)), twoM52))
				if avg != exactF && !(!math.IsInf(avg, 0) && !math.IsNaN(avg) && within(avg, exactAvg, tolAvg)) {
					ea, _ := exactAvg.Float64()
					c.Violate("aggregate-wrong:Avg", in(), fmt.Sprintf("%v (the overflowed sum divided by the count) or the mean %v", exactF, ea), fmt.Sprint(avg))
				}
			}
		}
		if !math.IsInf(exactF, 0) {
			if !within(sum, exactSum, tolSum) {
				c.Violate("aggregate-wrong:Sum", in(), fmt.Sprintf("%v (exact %s, tolerance %s)", exactF, exactSum.FloatString(3), tolSum.FloatString(6)), fmt.Sprint(sum))
			}
			// Avg = Sum / n
			exactAvg := new(big.Rat).Quo(exactSum, nn)
			tolAvg := new(big.Rat).Quo(tolSum, nn)
			absAvg := new(big.Rat).Abs(exactAvg)
			tolAvg.Add(tolAvg, new(big.Rat).Mul(absAvg, twoM52)) // rounding of the division
			tolAvg.Add(tolAvg, halfSubnormalUlp)                 // ... which is absolute, not relative, at the bottom of the range
			if !within(avg, exactAvg, tolAvg) {
				ea, _ := exactAvg.Float64()
				c.Violate("aggregate-wrong:Avg", in(), fmt.Sprint(ea), fmt.Sprint(avg))
			}
		}
		// Prod: relative forward error (n-1) * 2^-53 (doubled), only where no ordering can overflow or underflow
		if class == 4 {
			// overflowing product of factors with magnitude >= 1 and no zero: in every evaluation order the partial
			// products only grow, so the result is an infinity whose sign is the parity of the negative factors
			negs := 0
			for _, v := range vals {
				if toF(v) < 0 {
					negs++
				}
			}
			want := math.Inf(1)
			if negs%2 == 1 {
				want = math.Inf(-1)
			}
			c.Count("overflowing_products_checked")
			if prod != want {
				c.Violate("aggregate-wrong:Prod", in(), fmt.Sprint(want), fmt.Sprint(prod))
			}
		}
		if wantProd {
			ep, _ := exactProd.Float64()
			absP := new(big.Rat).Abs(exactProd)
			tolP := new(big.Rat).Mul(new(big.Rat).Mul(nn, twoM52), absP)
			safe := true
			for _, v := range vals {
				a := math.Abs(toF(v))
				if a != 0 && (a > 1024 || a < 1.0/1024) {
					safe = false
				}
			}
			if orderFree {
				safe = true
			}
			if safe && !within(prod, exactProd, tolP) {
				c.Violate("aggregate-wrong:Prod", in(), fmt.Sprint(ep), fmt.Sprint(prod))
			}
			if safe {
				c.Count("products_checked")
			}
		}
		if !sameTop(before, top(l)) {
			c.Violate("aggregate-modifies-list", in(), showTop(before), showTop(top(l)))
		}
		// history: the aggregates were just computed; now modify the list (also through operations that are not
		// permutations for every input, like Sort on a mixed numeric list) and ask again
		if depth < 2 {
			var desc string
			n := l.Count()
			nv := func() any {
				if len(vals) > 0 && rr%2 == 0 {
					return vals[int(rr/2)%len(vals)]
				}
				return float64(int(rr%17)) / 4
			}
			pan, _ := drive.Protect(func() {
				switch rr % 7 {
				case 0:
					l.Sort()
					desc = "Sort()"
				case 1:
					l.Reverse()
					desc = "Reverse()"
				case 2:
					l.Add(nv())
					desc = "Add(v)"
				case 3:
					l.Insert(int(rr/7)%(n+1), nv())
					desc = "Insert(i, v)"
				case 4:
					l.Replace(int(rr/7)%n, nv())
					desc = "Replace(i, v)"
				case 5:
					l.Delete(int(rr/7) % n)
					desc = "Delete(i)"
				default:
					l.SetTF(fmt.Sprintf("#%d", int(rr/7)%(n+1)), nv())
					desc = "SetTF(#i, v)"
				}
			})
			if !pan && l.Count() > 0 {
				now := top(l).([]any)
				numeric := true
				for _, e := range now {
					switch e.(type) {
					case int, float64:
					default:
						numeric = false
					}
				}
				if numeric {
					c.Count("aggregates_after_mutation")
					c18NumericHist(c, l, now, 1, depth+1, rr/11+3, showNums(vals)+" after the aggregates were computed once and then "+desc)
				}
			}
		}
	})
}

func selfC18(s *fw.SelfCheck) {
	s.Expect(within(0.30000000000000004, new(big.Rat).Add(new(big.Rat).Add(ratOf(0.1), ratOf(0.2)), new(big.Rat)), new(big.Rat).Mul(big.NewRat(3, 1), twoM52)), "error bound rejects a correctly summed 0.1+0.2")
	s.Expect(!within(0, big.NewRat(-1, 1), new(big.Rat).Mul(big.NewRat(3, 1), twoM52)), "error bound accepts Max=0 for -1")
	big1 := new(big.Rat).Add(ratOf(float64(math.MaxInt)), ratOf(1))
	s.Expect(!within(-9.223372036854775808e18, big1, new(big.Rat).Mul(new(big.Rat).Mul(big.NewRat(2, 1), twoM52), big1)), "error bound accepts a wrapped int sum")
}
