package mon

import (
	"fmt"
	"math"
	"sort"
	"strings"

	at "github.com/DanielSvub/anytype"

	"verifharness/internal/drive"
	"verifharness/internal/fw"
	"verifharness/internal/model"
	"verifharness/internal/rng"
	"verifharness/internal/spec"
)

func init() { register(&Monitor{ID: "C05", Run: runC05, Self: selfC05}) }

// prog is the common driver of the program monitors: a model heap bound to real containers, a trace of the
// calls made so far and the step bookkeeping.
type prog struct {
	c       *fw.Ctx
	r       *rng.R
	h       *model.Heap
	trace   []string
	failed  bool
	op      string
	lazy    bool // vary the observation route and skip some intermediate observations
	ctx     bool // issue some of the calls from inside a callback of an iteration over a live container
	derived bool // some of the lists / objects of the program are derived structures
	// lazyHold > 0: the steps of a compound mutation are not observed one by one (no comparison, no read) unless a model
	// node still waits to be bound
	lazyHold int
}

// insideCallback wraps a call so that it is made by the first callback invocation of an iteration (ForEach, ForEachValue,
// Map, Filter ...) over some live container of the heap, possibly the very container the call changes; a container
// without elements never invokes the callback, then the call is made right after. A call is a call wherever it is made
// from: what the surrounding iteration goes on to visit is not judged.
func (p *prog) insideCallback(f func()) func() {
	var hosts []*model.Node
	for _, n := range p.h.Nodes {
		if n.Real != nil {
			hosts = append(hosts, n)
		}
	}
	if len(hosts) == 0 {
		return f
	}
	host := hosts[p.r.Intn(len(hosts))]
	mode := p.r.Intn(5)
	p.c.Count("calls_from_inside_a_callback")
	return func() {
		done := false
		once := func() {
			if !done {
				done = true
				f()
			}
		}
		switch x := host.Real.(type) {
		case at.List:
			switch mode {
			case 0:
				x.ForEach(func(int, any) { once() })
			case 1:
				x.ForEachValue(func(any) { once() })
			case 2:
				x.Map(func(i int, v any) any { once(); return nil })
			case 3:
				x.Filter(func(any) bool { once(); return true })
			default:
				x.Reduce(0, func(a, b any) any { once(); return a })
			}
		case at.Object:
			switch mode {
			case 0, 4:
				x.ForEach(func(string, any) { once() })
			case 1:
				x.ForEachValue(func(any) { once() })
			case 2:
				x.Map(func(k string, v any) any { once(); return nil })
			default:
				x.MapValues(func(v any) any { once(); return nil })
			}
		}
		once()
	}
}

func (p *prog) input() string {
	return "program:\n  " + strings.Join(p.trace, "\n  ")
}

func (p *prog) fail(sig, expected, observed string) {
	if p.failed {
		return
	}
	p.failed = true
	p.c.Violate(sig, p.input(), expected, observed+"\nmodel heap: "+p.h.Dump()+"\nreal heap:  "+p.h.DumpReal())
}

// step runs one library call, compares the panic behaviour with the prediction and then the whole heap with the model.
func (p *prog) step(op, desc string, wantPanic bool, f func()) (panicked bool) {
	p.op = op
	p.trace = append(p.trace, desc)
	p.c.SetAdd("ops", op)
	p.c.Count("steps")
	run := f
	if p.ctx && p.r != nil && p.r.Chance(1, 10) {
		run = p.insideCallback(f)
	}
	panicked, msg := drive.Protect(run)
	if panicked && !wantPanic {
		p.fail("unexpected-panic:"+op, "no panic (arguments inside the documented domain)", "panic: "+msg)
		return
	}
	if !panicked && wantPanic {
		p.fail("missing-panic:"+op, "panic (argument outside the documented domain)", "returned normally")
		return
	}
	if panicked {
		p.c.Count("predicted_panics")
	}
	// the heap is compared after most steps, through a varying read route; now and then a step is left unobserved so
	// that call sequences without any read in between occur as well (the next comparison still covers its effect)
	if p.lazyHold > 0 && !p.h.HasUnbound() {
		p.c.Count("steps_left_unobserved")
		return
	}
	if p.lazy && p.r != nil && !p.h.HasUnbound() && p.r.Chance(1, 4) {
		p.c.Count("steps_left_unobserved")
		return
	}
	if p.lazy && p.r != nil {
		p.h.Route = p.r.Intn(3)
	}
	p.checkHeap()
	p.h.Route = 0
	return
}

func (p *prog) checkHeap() {
	if p.failed {
		return
	}
	if d := p.h.CheckAll(); d != "" {
		p.fail("model-mismatch-after:"+p.op, "every live container shows what the reference model predicts", d)
	}
}

// expect compares an observer's answer.
func (p *prog) expect(ok bool, what, expected, observed string) {
	if !ok {
		p.fail("observer-mismatch:"+what, expected, observed)
	}
}

var c05Ints = []int{0, 1, 2, 3, -1, 7, 1 << 30, math.MaxInt, math.MinInt, -2}
var c05Floats = []float64{0.5, 1, 2.5, -3, 1e21, 0, math.Copysign(0, -1), math.Inf(1), math.Inf(-1), math.MaxFloat64, 5e-324,
	float64(float32(0.1)), float64(float32(3.14)), float64(float32(1.0) / 3)} // the last three are exact float32 values without a short decimal form
var c05Strs = []string{"a", "b", "", "zz", "a b", "é"}

// scalarVal draws from a small pool so that duplicates are frequent.
func scalarVal(r *rng.R) model.Val {
	switch r.Intn(6) {
	case 0:
		return model.Nil()
	case 1:
		return model.Bool(r.Bool())
	case 2, 3:
		return model.Int(c05Ints[r.Intn(len(c05Ints))])
	case 4:
		return model.Float(c05Floats[r.Intn(len(c05Floats))])
	default:
		return model.Str(c05Strs[r.Intn(len(c05Strs))])
	}
}

// anyVal: a scalar, or a reference to a live container that can be stored into target without creating a cycle.
func (p *prog) anyVal(target *model.Node, containerChance int) model.Val {
	if p.r.Intn(10) < containerChance {
		var cands []*model.Node
		for _, n := range p.h.Nodes {
			if n.Real != nil && (target == nil || !model.Reaches(n, target)) {
				cands = append(cands, n)
			}
		}
		if len(cands) > 0 && p.r.Chance(3, 4) {
			return model.Ref(cands[p.r.Intn(len(cands))])
		}
		// a fresh small container
		t := spec.GenTree(p.r, spec.Opts{MaxDepth: 2, MaxWidth: 3, SafeKeys: true})
		return model.Ref(p.h.FromSpec(t))
	}
	return scalarVal(p.r)
}

func boundaryIndex(r *rng.R, n int) int {
	switch r.Intn(12) {
	case 0:
		return -n - 1
	case 1:
		return -n
	case 2:
		return -1
	case 3:
		return 0
	case 4:
		return n - 1
	case 5:
		return n
	case 6:
		return n + 1
	case 7:
		return n + 5
	case 8:
		return 1
	default:
		if n > 0 {
			return r.Intn(n)
		}
		return 0
	}
}

func (p *prog) lists() []*model.Node {
	var out []*model.Node
	for _, n := range p.h.Nodes {
		if n.K == spec.List && n.Real != nil {
			out = append(out, n)
		}
	}
	return out
}

func (p *prog) objects() []*model.Node {
	var out []*model.Node
	for _, n := range p.h.Nodes {
		if n.K == spec.Obj && n.Real != nil {
			out = append(out, n)
		}
	}
	return out
}

func showVals(vs []model.Val) string {
	s := make([]string, len(vs))
	for i, v := range vs {
		s[i] = v.String()
	}
	return strings.Join(s, ", ")
}

func noteStorage(c *fw.Ctx, l at.List) {
	if sv, ok := any(l).(interface {
		VerifStorage() (uintptr, int, int)
	}); ok {
		_, ln, cp := sv.VerifStorage()
		c.SetAdd("hook_len_cap_states", fmt.Sprintf("%d/%d", ln, cp))
		if cp > ln {
			c.Count("hook_spare_capacity_observations")
		}
	}
}

// sortable: the list is inside the domain of Sort as C17 defines it (plus: no mix of -0 and +0, whose relative order
// a sort may choose freely).
func sortable(n *model.Node) bool {
	if len(n.E) == 0 {
		return false
	}
	k := n.E[0].K
	if k != spec.Str && k != spec.Int && k != spec.Float {
		return false
	}
	zeros := 0
	for _, e := range n.E {
		if e.K != k {
			return false
		}
		if k == spec.Float && e.F == 0 {
			zeros++
		}
	}
	return zeros <= 1
}

func modelSort(n *model.Node) {
	switch n.E[0].K {
	case spec.Str:
		sort.SliceStable(n.E, func(i, j int) bool { return n.E[i].S < n.E[j].S })
	case spec.Int:
		sort.SliceStable(n.E, func(i, j int) bool { return n.E[i].I < n.E[j].I })
	case spec.Float:
		sort.SliceStable(n.E, func(i, j int) bool { return n.E[i].F < n.E[j].F })
	}
}

func runC05(c *fw.Ctx) {
	steps := c.N(40, 60)
	c.Cases("pinned", 5, true, func(i int, r *rng.R) {
		p := &prog{c: c, r: r, h: &model.Heap{}}
		c05Pinned(p, i)
		c.Distinct(p.input())
	})
	// grow-and-shrink programs: one list taken across several capacity doublings, then shrunk again by single and
	// multi-index deletions of every size, with growth in between (the full model comparison runs after every step)
	c.Cases("grow-shrink", c.N(300, 30000), false, func(i int, r *rng.R) {
		p := &prog{c: c, r: r, h: &model.Heap{}}
		guard(c, p.input, func() {
			l := p.h.NewList(nil)
			p.step("NewList", l.Name()+" = NewList()", false, func() { l.Real = at.NewList() })
			target := []int{17, 33, 40, 65, 70, 129, 200, 300}[r.Intn(8)]
			for len(l.E) < target && !p.failed {
				k := r.Range(1, 16)
				vals := make([]model.Val, k)
				for j := range vals {
					vals[j] = model.Int(len(l.E) + j)
				}
				c05Add(p, l, vals)
			}
			for round := 0; round < 25 && !p.failed && len(l.E) > 0; round++ {
				n := len(l.E)
				switch r.Intn(6) {
				case 0:
					c05Pop(p, l)
				case 1:
					c05Add(p, l, []model.Val{model.Str("again"), model.Int(round)})
				case 2:
					idx := r.Intn(n)
					p.step("Delete", fmt.Sprintf("%s.Delete(%d) [n=%d]", l.Name(), idx, n), false, func() {
						l.E = append(l.E[:idx:idx], l.E[idx+1:]...)
						l.List().Delete(idx)
					})
				default:
					if n < 2 {
						continue
					}
					k := r.Range(2, n)
					switch r.Intn(3) {
					case 0:
						k = r.Range(2, minInt(4, n))
					case 1:
						k = n - r.Intn(minInt(n-1, 12)) - 1 // leave only a few
						if k < 2 {
							k = 2
						}
					}
					idxs := append([]int{}, r.Perm(n)[:k]...)
					p.step("Delete", fmt.Sprintf("%s.Delete(%d distinct indices) [n=%d]", l.Name(), k, n), false, func() {
						del := map[int]bool{}
						for _, x := range idxs {
							del[x] = true
						}
						var ne []model.Val
						for j, e := range l.E {
							if !del[j] {
								ne = append(ne, e)
							}
						}
						l.E = ne
						l.List().Delete(append([]int{}, idxs...)...)
					})
				}
				noteStorage(c, l.List())
			}
		})
		c.Distinct(p.input())
	})
	c.Cases("programs", c.N(1500, 150000), false, func(i int, r *rng.R) {
		p := &prog{c: c, r: r, h: &model.Heap{}, lazy: i%2 == 1, ctx: i%3 == 0, derived: i%4 == 1}
		guard(c, p.input, func() {
			c05Program(p, steps)
			p.checkHeap()
		})
		if len(p.trace) >= 5 {
			c.Distinct(p.input())
		}
		if c.WantSample() && len(p.trace) > 10 {
			t := p.trace
			if len(t) > 14 {
				t = t[:14]
			}
			c.Sample(map[string]any{"program_prefix": t})
		}
	})
}

// c05Pinned: the Concat aliasing program that failed on the original tree, and neighbours.
func c05Pinned(p *prog, which int) {
	h := p.h
	a := h.FromSpec(spec.ListV(spec.IntV(1), spec.IntV(2), spec.IntV(3), spec.IntV(4), spec.IntV(5)))
	b := h.FromSpec(spec.ListV(spec.IntV(9)))
	b2 := h.FromSpec(spec.ListV(spec.IntV(8)))
	e := h.FromSpec(spec.ListV())
	p.trace = append(p.trace, "L0 = NewList(1,2,3,4,5); L1 = NewList(9); L2 = NewList(8); L3 = NewList()")
	switch which {
	case 0:
		c05Concat(p, a, b)
		c05Concat(p, a, b2)
		c05Add(p, a, []model.Val{model.Int(7)})
	case 1:
		c05Concat(p, a, e)
		c05Replace(p, a, 0, model.Int(100))
		c05Reverse(p, a)
	case 2:
		c05Add(p, a, []model.Val{model.Int(6)})
		c05Pop(p, a)
		c05Concat(p, a, b)
		c05Insert(p, a, 2, model.Str("x"))
		c05Concat(p, a, b2)
	case 4:
		// a value leaves and an equal-looking one comes: what is stored is the value given, sign of zero and kind included
		c05Add(p, a, []model.Val{model.Float(0)})
		c05Pop(p, a)
		c05Add(p, a, []model.Val{model.Float(math.Copysign(0, -1))})
		c05Pop(p, a)
		c05Add(p, a, []model.Val{model.Float(0)})
		c05Pop(p, a)
		c05Add(p, a, []model.Val{model.Int(0)})
		c05Pop(p, a)
		c05Add(p, a, []model.Val{model.Float(math.Copysign(0, -1)), model.Float(0)})
		c05Replace(p, a, 0, model.Float(math.Copysign(0, -1)))
		c05Replace(p, a, 0, model.Float(0))
		c05Insert(p, a, 1, model.Float(math.Copysign(0, -1)))
	default:
		c05SubList(p, a, 1, -len(a.E))
		c05SubList(p, a, 0, -len(a.E))
		c05SubList(p, a, 0, 0)
		c05SubList(p, a, 2, 4)
	}
}

// sized hands a number over in another Go numeric type that holds exactly the same value (int8 ... uint64, float32): the
// library normalises all widths to int / float64, so the model value stays what it is.
func (p *prog) sized(a any) any {
	if p.r == nil || !p.r.Chance(1, 6) {
		return a
	}
	switch x := a.(type) {
	case int:
		var cands []any
		if x >= math.MinInt8 && x <= math.MaxInt8 {
			cands = append(cands, int8(x))
		}
		if x >= 0 && x <= math.MaxUint8 {
			cands = append(cands, uint8(x))
		}
		if x >= math.MinInt16 && x <= math.MaxInt16 {
			cands = append(cands, int16(x))
		}
		if x >= 0 && x <= math.MaxUint16 {
			cands = append(cands, uint16(x))
		}
		if int64(x) >= math.MinInt32 && int64(x) <= math.MaxInt32 {
			cands = append(cands, int32(x))
		}
		if x >= 0 {
			cands = append(cands, uint(x), uint64(x))
			if int64(x) <= math.MaxUint32 {
				cands = append(cands, uint32(x))
			}
		}
		cands = append(cands, int64(x))
		p.c.Count("numbers_handed_over_in_another_width")
		return cands[p.r.Intn(len(cands))]
	case float64:
		if f := float32(x); float64(f) == x {
			p.c.Count("numbers_handed_over_in_another_width")
			return f
		}
	}
	return a
}

// nativeVal: a Go map / slice (the unbound model node stands for the fresh container the library must create for it).
func (p *prog) nativeVal(kind spec.Kind, fixed bool) model.Val {
	o := spec.Opts{MaxDepth: 2, MaxWidth: 3, SafeKeys: true}
	if fixed {
		o.Root = kind
	}
	p.c.Count("native_arguments")
	return p.h.ModelFromSpec(spec.GenTree(p.r, o))
}

func c05Add(p *prog, l *model.Node, vals []model.Val) {
	args := make([]any, len(vals))
	wasNative := make([]bool, len(vals))
	for i, v := range vals {
		args[i] = p.sized(argFor(p.h, v))
		wasNative[i] = v.Ref != nil && v.Ref.Real == nil
	}
	var ret at.List
	p.step("Add", fmt.Sprintf("%s.Add(%s)", l.Name(), showVals(vals)), false, func() {
		l.E = append(l.E, vals...)
		ret = l.List().Add(args...)
	})
	p.expect(p.failed || any(ret) == l.Real, "Add-return", "the receiver", "another value")
	if !p.failed && p.r != nil && len(vals) > 0 && p.r.Chance(1, 5) {
		// the very same Go slice is spread into a second call (a caller may keep its argument slice): the same values are
		// appended once more; native maps / slices among them are converted afresh
		vals2 := make([]model.Val, len(vals))
		for i, v := range vals {
			vals2[i] = v
			if wasNative[i] {
				vals2[i] = p.h.ModelFromSpec(v.Ref.ToSpec())
			}
		}
		p.c.Count("argument_slices_reused")
		p.step("Add", fmt.Sprintf("%s.Add(the same argument slice again: %s)", l.Name(), showVals(vals2)), false, func() {
			l.E = append(l.E, vals2...)
			l.List().Add(args...)
		})
	}
}

func c05Insert(p *prog, l *model.Node, idx int, v model.Val) {
	n := len(l.E)
	want := idx < 0 || idx > n
	var ret at.List
	pan := p.step("Insert", fmt.Sprintf("%s.Insert(%d, %s) [n=%d]", l.Name(), idx, v, n), want, func() {
		if !want {
			l.E = append(l.E, model.Val{})
			copy(l.E[idx+1:], l.E[idx:])
			l.E[idx] = v
		}
		ret = l.List().Insert(idx, p.sized(argFor(p.h, v)))
	})
	if !pan {
		p.expect(p.failed || any(ret) == l.Real, "Insert-return", "the receiver", "another value")
	}
}

func c05Replace(p *prog, l *model.Node, idx int, v model.Val) {
	n := len(l.E)
	want := idx < 0 || idx >= n
	p.step("Replace", fmt.Sprintf("%s.Replace(%d, %s) [n=%d]", l.Name(), idx, v, n), want, func() {
		if !want {
			l.E[idx] = v
		}
		l.List().Replace(idx, p.sized(argFor(p.h, v)))
	})
}

func c05Pop(p *prog, l *model.Node) {
	want := len(l.E) == 0
	p.step("Pop", fmt.Sprintf("%s.Pop() [n=%d]", l.Name(), len(l.E)), want, func() {
		if !want {
			l.E = l.E[:len(l.E)-1]
		}
		l.List().Pop()
	})
}

func c05Reverse(p *prog, l *model.Node) {
	p.step("Reverse", l.Name()+".Reverse()", false, func() {
		for i, j := 0, len(l.E)-1; i < j; i, j = i+1, j-1 {
			l.E[i], l.E[j] = l.E[j], l.E[i]
		}
		l.List().Reverse()
	})
}

func c05Concat(p *prog, l, o *model.Node) *model.Node {
	res := p.h.NewList(nil)
	var ret at.List
	p.step("Concat", fmt.Sprintf("%s = %s.Concat(%s)", res.Name(), l.Name(), o.Name()), false, func() {
		res.E = append(append([]model.Val{}, l.E...), o.E...)
		ret = l.List().Concat(o.List())
		if d := p.h.Bind(res, ret); d != "" {
			p.fail("result-not-fresh:Concat", "a new list", d)
		}
	})
	return res
}

func c05SubList(p *prog, l *model.Node, start, end int) *model.Node {
	n := len(l.E)
	want := false
	e := end
	if end > n || end < -n {
		want = true
	} else {
		if e <= 0 {
			e = n + e
		}
		if start > e || start < 0 {
			want = true
		}
	}
	res := p.h.NewList(nil)
	p.step("SubList", fmt.Sprintf("%s = %s.SubList(%d, %d) [n=%d]", res.Name(), l.Name(), start, end, n), want, func() {
		if !want {
			res.E = append([]model.Val{}, l.E[start:e]...)
		}
		ret := l.List().SubList(start, end)
		if d := p.h.Bind(res, ret); d != "" {
			p.fail("result-not-fresh:SubList", "a new list", d)
		}
	})
	return res
}

func c05Program(p *prog, steps int) {
	r, h, c := p.r, p.h, p.c
	// one program in eight works on long lists (growth bursts across several capacity doublings)
	maxLen, burst := 24, 9
	if r.Chance(1, 8) {
		maxLen, burst = 150, 70
		c.Count("big_list_programs")
	}
	// initial heap: 2-5 lists and 0-2 objects, built through the constructors under test
	nl := r.Range(2, 5)
	for i := 0; i < nl && !p.failed; i++ {
		c05NewList(p)
	}
	for i := r.Intn(3); i > 0 && !p.failed; i-- {
		t := spec.GenTree(r, spec.Opts{MaxDepth: 1, MaxWidth: 3, SafeKeys: true, Root: spec.Obj})
		o := h.FromSpec(t)
		p.trace = append(p.trace, fmt.Sprintf("%s = NewObject%s", o.Name(), t.Canon()))
	}
	p.checkHeap()
	for s := 0; s < steps && !p.failed; s++ {
		ls := p.lists()
		l := ls[r.Intn(len(ls))]
		n := len(l.E)
		op := r.Intn(100)
		if n > maxLen && op < 45 {
			op = 45 + r.Intn(20) // prefer shrinking operations on long lists
		}
		switch {
		case op < 12: // Add (sometimes a growth burst past the capacity, now and then without any argument)
			if r.Chance(1, 15) && n <= 12 {
				// the list is given a one-level snapshot of itself or of another list: the same values once more (containers by
				// reference), whatever the receiver's storage does while it grows
				src := ls[r.Intn(len(ls))]
				if !model.Reaches(src, l) || src == l {
					cycle := false
					for _, e := range src.E {
						if e.Ref != nil && model.Reaches(e.Ref, l) {
							cycle = true
						}
					}
					if !cycle {
						c.Count("adds_of_a_list_snapshot")
						p.step("Add", fmt.Sprintf("%s.Add(%s.Slice()...) [n=%d]", l.Name(), src.Name(), n), false, func() {
							l.E = append(l.E[:len(l.E):len(l.E)], src.E...)
							l.List().Add(src.List().Slice()...)
						})
						continue
					}
				}
			}
			k := r.Range(1, 3)
			if r.Chance(1, 12) {
				k = 0
			}
			if r.Chance(1, 6) {
				k = r.Range(4, burst)
			}
			vals := make([]model.Val, k)
			for i := range vals {
				vals[i] = p.anyVal(l, 2)
				if r.Chance(1, 12) {
					vals[i] = p.nativeVal(spec.Kind(0), false)
				}
			}
			c05Add(p, l, vals)
		case op < 22:
			idx := boundaryIndex(r, n)
			v := p.anyVal(l, 2)
			if idx >= 0 && idx <= n && r.Chance(1, 10) {
				v = p.nativeVal(spec.Kind(0), false)
			}
			c05Insert(p, l, idx, v)
		case op < 30:
			idx := boundaryIndex(r, n)
			v := p.anyVal(l, 2)
			if idx >= 0 && idx < n && l.E[idx].Ref != nil && r.Chance(1, 2) {
				// a native Go map / slice written over a slot that holds a container of the matching kind: the slot gets
				// a fresh container, the old one (usually still reachable elsewhere) keeps its content
				v = p.nativeVal(l.E[idx].K, true)
				p.c.Count("native_over_container_replaces")
			} else if idx >= 0 && idx < n && r.Chance(1, 10) {
				v = p.nativeVal(spec.Kind(0), false)
			}
			c05Replace(p, l, idx, v)
		case op < 45: // observers with arbitrary arguments
			c05Observe(p, l)
		case op < 53: // Delete
			if r.Chance(1, 15) {
				// no index at all: nothing to delete, the list stays as it is
				p.step("Delete", fmt.Sprintf("%s.Delete() [no index, n=%d]", l.Name(), n), false, func() { l.List().Delete() })
				break
			}
			if n >= 3 && r.Chance(1, 3) {
				perm := r.Perm(n)
				k := r.Range(2, 3)
				if n > 12 && r.Bool() {
					k = r.Range(2, n-1) // remove a large part at once
				}
				idxs := append([]int{}, perm[:k]...)
				if r.Chance(1, 4) {
					// one of the (distinct) indices lies outside 0..n-1; also the case "as many indices as elements"
					if r.Bool() && n <= 6 {
						idxs = append([]int{}, perm...)
					}
					idxs[r.Intn(len(idxs))] = []int{n, n + 4, -1, -n - 1}[r.Intn(4)]
					c05DeleteInvalid(p, l, idxs)
					break
				}
				p.step("Delete", fmt.Sprintf("%s.Delete(%v) [n=%d]", l.Name(), idxs, n), false, func() {
					del := map[int]bool{}
					for _, x := range idxs {
						del[x] = true
					}
					var ne []model.Val
					for i, e := range l.E {
						if !del[i] {
							ne = append(ne, e)
						}
					}
					l.E = ne
					l.List().Delete(append([]int{}, idxs...)...)
				})
			} else {
				idx := boundaryIndex(r, n)
				want := idx < 0 || idx >= n
				p.step("Delete", fmt.Sprintf("%s.Delete(%d) [n=%d]", l.Name(), idx, n), want, func() {
					if !want {
						l.E = append(l.E[:idx:idx], l.E[idx+1:]...)
					}
					l.List().Delete(idx)
				})
			}
		case op < 60:
			c05Pop(p, l)
		case op < 63:
			p.step("Clear", l.Name()+".Clear()", false, func() {
				l.E = nil
				l.List().Clear()
			})
		case op < 68:
			c05Reverse(p, l)
		case op < 73:
			if sortable(l) {
				p.step("Sort", l.Name()+".Sort()", false, func() {
					modelSort(l)
					l.List().Sort()
				})
				if !p.failed && len(l.E) > 0 && r.Chance(1, 2) {
					// right behind a Sort: one Add of several values that each fit behind the sorted part but are not in order
					// among themselves, then Sort again
					last := l.E[len(l.E)-1]
					var batch []model.Val
					switch {
					case last.K == spec.Int && last.I < math.MaxInt-3:
						batch = []model.Val{model.Int(last.I + 2), model.Int(last.I + 1), last}
					case last.K == spec.Str:
						batch = []model.Val{model.Str(last.S + "b"), model.Str(last.S + "a"), last}
					case last.K == spec.Float && !math.IsInf(last.F, 0) && !math.IsNaN(last.F) && math.Abs(last.F) < 1e15:
						batch = []model.Val{model.Float(last.F + 2), model.Float(last.F + 1), last}
					}
					if batch != nil {
						c.Count("batches_added_behind_a_sorted_list")
						c05Add(p, l, batch[:r.Range(2, 3)])
						if !p.failed {
							p.step("Sort", l.Name()+".Sort() [again]", false, func() {
								modelSort(l)
								l.List().Sort()
							})
						}
					}
				}
			} else {
				c05Observe(p, l)
			}
		case op < 82:
			var start, end int
			switch r.Intn(4) {
			case 0:
				start, end = boundaryIndex(r, n), boundaryIndex(r, n)
			case 1:
				start, end = r.Intn(n+1), -r.Intn(n+2)
			case 2:
				start, end = 0, []int{0, n, -n, -n - 1, n + 1}[r.Intn(5)]
			default:
				a, b := r.Intn(n+1), r.Intn(n+1)
				if a > b {
					a, b = b, a
				}
				start, end = a, b
			}
			c05SubList(p, l, start, end)
		case op < 90:
			c05Concat(p, l, ls[r.Intn(len(ls))])
		case op < 92:
			c05NewList(p)
		case op < 94:
			// tree-form leaf write / unset on the list itself
			idx := boundaryIndex(r, n)
			if idx < 0 {
				idx = n
			}
			if idx > n+4 {
				idx = n + 4
			}
			if r.Chance(2, 3) {
				v := p.anyVal(l, 2)
				p.step("SetTF", fmt.Sprintf("%s.SetTF(\"#%d\", %s) [n=%d]", l.Name(), idx, v, n), false, func() {
					if idx >= n {
						for len(l.E) < idx {
							l.E = append(l.E, model.Nil())
						}
						l.E = append(l.E, v)
					} else {
						l.E[idx] = v
					}
					l.List().SetTF(fmt.Sprintf("#%d", idx), h.Arg(v))
				})
			} else {
				want := idx >= n
				p.step("UnsetTF", fmt.Sprintf("%s.UnsetTF(\"#%d\") [n=%d]", l.Name(), idx, n), want, func() {
					if !want {
						l.E = append(l.E[:idx:idx], l.E[idx+1:]...)
					}
					l.List().UnsetTF(fmt.Sprintf("#%d", idx))
				})
			}
		default:
			// mutate a nested container through an alias: an object by Set, or a nested list by Add
			if os := p.objects(); len(os) > 0 && r.Bool() {
				o := os[r.Intn(len(os))]
				key := spec.SafeKeys[r.Intn(6)]
				v := p.anyVal(o, 1)
				p.step("Object.Set", fmt.Sprintf("%s.Set(%q, %s)", o.Name(), key, v), false, func() {
					o.M[key] = v
					o.Object().Set(key, h.Arg(v))
				})
			} else {
				c05Observe(p, l)
			}
		}
		noteStorage(c, l.List())
		if len(h.Nodes) > 40 {
			break
		}
	}
}

// c05DeleteInvalid: a multi-index Delete with an index outside the domain must panic. How much was deleted before the
// panic is not specified, so the model adopts what the list shows afterwards — provided it is the old content minus
// some of the requested valid positions (nothing else may be gone, reordered or changed).
func c05DeleteInvalid(p *prog, l *model.Node, idxs []int) {
	n := len(l.E)
	p.op = "Delete"
	p.trace = append(p.trace, fmt.Sprintf("%s.Delete(%v) [n=%d, one index outside the domain]", l.Name(), idxs, n))
	p.c.SetAdd("ops", "Delete-invalid-multi")
	p.c.Count("steps")
	pan, _ := drive.Protect(func() { l.List().Delete(append([]int{}, idxs...)...) })
	if !pan {
		p.fail("missing-panic:Delete", "panic (an index outside 0..n-1)", "returned normally; the list is now "+spec.Trunc(l.List().String(), 300))
		return
	}
	p.c.Count("predicted_panics")
	requested := map[int]bool{}
	for _, x := range idxs {
		if x >= 0 && x < n {
			requested[x] = true
		}
	}
	var now []any
	if pan, msg := drive.Protect(func() { now = l.List().Slice() }); pan {
		p.fail("model-mismatch-after:Delete", "a consistent list after the panic", "panic: "+msg)
		return
	}
	// is the observed list the old one minus some subset of the requested valid positions? (dynamic programme over
	// old position i / observed position j; duplicates make a greedy match ambiguous)
	m := len(now)
	if m > n {
		p.fail("model-mismatch-after:Delete", "no extra elements after a panicking Delete", spec.Trunc(l.List().String(), 300))
		return
	}
	ok := make([][]bool, n+2)
	for i := range ok {
		ok[i] = make([]bool, m+2)
	}
	ok[n][m] = true
	for i := n - 1; i >= 0; i-- {
		for j := m; j >= 0; j-- {
			if requested[i] && ok[i+1][j] {
				ok[i][j] = true
				continue
			}
			if j < m && ok[i+1][j+1] && p.h.MatchVal(now[j], l.E[i]) == "" {
				ok[i][j] = true
			}
		}
	}
	if !ok[0][0] {
		p.fail("model-mismatch-after:Delete", "after a panicking multi-index Delete only requested positions may be missing", fmt.Sprintf("model %s, list is now %s", l.Show(), spec.Trunc(l.List().String(), 300)))
		return
	}
	var kept []model.Val
	i, j := 0, 0
	for i < n {
		if j < m && ok[i+1][j+1] && p.h.MatchVal(now[j], l.E[i]) == "" {
			kept = append(kept, l.E[i])
			i, j = i+1, j+1
		} else {
			i++
		}
	}
	l.E = kept
	p.checkHeap()
}

func c05NewList(p *prog) {
	r, h := p.r, p.h
	switch r.Intn(5) {
	case 0, 1:
		k := r.Intn(6)
		vals := make([]model.Val, k)
		args := make([]any, k)
		for i := range vals {
			vals[i] = p.anyVal(nil, 2)
			args[i] = h.Arg(vals[i])
		}
		n := h.NewList(nil)
		if p.derived && r.Chance(1, 4) {
			// a derived structure (a user type embedding a List, registered with Init) is a List like any other
			which := r.Intn(3)
			p.step("NewList", fmt.Sprintf("%s = derived list (embedding level %d) of (%s)", n.Name(), which+1, showVals(vals)), false, func() {
				n.E = vals
				switch which {
				case 0:
					n.Real = NewDList(args...)
				case 1:
					n.Real = NewDDList(args...)
				default:
					n.Real = NewDDDList(args...)
				}
			})
			p.c.Count("derived_lists_in_programs")
			return
		}
		p.step("NewList", fmt.Sprintf("%s = NewList(%s)", n.Name(), showVals(vals)), false, func() {
			n.E = vals
			n.Real = at.NewList(args...)
		})
	case 2:
		v := p.anyVal(nil, 2)
		cnt := r.Intn(5)
		n := h.NewList(nil)
		p.step("NewListOf", fmt.Sprintf("%s = NewListOf(%s, %d)", n.Name(), v, cnt), false, func() {
			for i := 0; i < cnt; i++ {
				n.E = append(n.E, v)
			}
			n.Real = at.NewListOf(h.Arg(v), cnt)
		})
	case 3:
		// NewListFrom([]any) with scalars, existing containers and nested native values (which become fresh containers)
		k := r.Intn(5)
		vals := make([]model.Val, k)
		args := make([]any, k)
		for i := range vals {
			if r.Chance(1, 4) {
				t := spec.GenTree(r, spec.Opts{MaxDepth: 2, MaxWidth: 2, SafeKeys: true})
				vals[i] = h.ModelFromSpec(t)
				args[i] = drive.Native(t)
			} else {
				vals[i] = p.anyVal(nil, 2)
				args[i] = h.Arg(vals[i])
			}
		}
		n := h.NewList(nil)
		p.step("NewListFrom", fmt.Sprintf("%s = NewListFrom([]any{%s})", n.Name(), showVals(vals)), false, func() {
			n.E = vals
			n.Real = at.NewListFrom(args)
		})
	default:
		// typed slices
		n := h.NewList(nil)
		k := r.Intn(4)
		switch r.Intn(5) {
		case 0:
			s := make([]int, k)
			for i := range s {
				s[i] = c05Ints[r.Intn(len(c05Ints))]
				n.E = append(n.E, model.Int(s[i]))
			}
			p.step("NewListFrom", fmt.Sprintf("%s = NewListFrom([]int%v)", n.Name(), s), false, func() { n.Real = at.NewListFrom(s) })
		case 1:
			s := make([]string, k)
			for i := range s {
				s[i] = c05Strs[r.Intn(len(c05Strs))]
				n.E = append(n.E, model.Str(s[i]))
			}
			p.step("NewListFrom", fmt.Sprintf("%s = NewListFrom([]string%q)", n.Name(), s), false, func() { n.Real = at.NewListFrom(s) })
		case 2:
			s := make([]float64, k)
			for i := range s {
				s[i] = c05Floats[r.Intn(len(c05Floats))]
				n.E = append(n.E, model.Float(s[i]))
			}
			p.step("NewListFrom", fmt.Sprintf("%s = NewListFrom([]float64%v)", n.Name(), s), false, func() { n.Real = at.NewListFrom(s) })
		case 3:
			s := make([]bool, k)
			for i := range s {
				s[i] = r.Bool()
				n.E = append(n.E, model.Bool(s[i]))
			}
			p.step("NewListFrom", fmt.Sprintf("%s = NewListFrom([]bool%v)", n.Name(), s), false, func() { n.Real = at.NewListFrom(s) })
		default:
			ls := p.lists()
			var s []at.List
			for i := 0; i < k && len(ls) > 0; i++ {
				x := ls[r.Intn(len(ls))]
				s = append(s, x.List())
				n.E = append(n.E, model.Ref(x))
			}
			if s == nil {
				s = []at.List{}
			}
			p.step("NewListFrom", fmt.Sprintf("%s = NewListFrom([]List{%s})", n.Name(), showVals(n.E)), false, func() { n.Real = at.NewListFrom(s) })
		}
	}
}

// c05Observe calls one observer with arbitrary (valid and invalid) arguments and compares with the model's answer.
func c05Observe(p *prog, l *model.Node) {
	r, h := p.r, p.h
	n := len(l.E)
	real := l.List()
	switch r.Intn(9) {
	case 0: // Get
		idx := boundaryIndex(r, n)
		want := idx < 0 || idx >= n
		var got any
		pan := p.step("Get", fmt.Sprintf("%s.Get(%d) [n=%d]", l.Name(), idx, n), want, func() { got = real.Get(idx) })
		if !pan && !want && !p.failed {
			if d := h.MatchVal(got, l.E[idx]); d != "" {
				p.fail("observer-mismatch:Get", "the stored value "+l.E[idx].String(), d)
			}
		}
	case 1, 2: // typed getters
		idx := boundaryIndex(r, n)
		kinds := []spec.Kind{spec.Obj, spec.List, spec.Str, spec.Bool, spec.Int, spec.Float}
		k := kinds[r.Intn(len(kinds))]
		if idx >= 0 && idx < n && r.Bool() && l.E[idx].K != spec.Nil {
			k = l.E[idx].K
		}
		want := idx < 0 || idx >= n || l.E[idx].K != k
		var got any
		pan := p.step("Get"+k.String(), fmt.Sprintf("%s.Get<%s>(%d) [n=%d]", l.Name(), k, idx, n), want, func() {
			switch k {
			case spec.Obj:
				got = real.GetObject(idx)
			case spec.List:
				got = real.GetList(idx)
			case spec.Str:
				got = real.GetString(idx)
			case spec.Bool:
				got = real.GetBool(idx)
			case spec.Int:
				got = real.GetInt(idx)
			case spec.Float:
				got = real.GetFloat(idx)
			}
		})
		if !pan && !want && !p.failed {
			if d := h.MatchVal(got, l.E[idx]); d != "" {
				p.fail("observer-mismatch:typed-getter", "the stored value "+l.E[idx].String(), d)
			}
		}
	case 3: // TypeOf never panics
		idx := boundaryIndex(r, n)
		var t at.Type
		pan := p.step("TypeOf", fmt.Sprintf("%s.TypeOf(%d) [n=%d]", l.Name(), idx, n), false, func() { t = real.TypeOf(idx) })
		if !pan && !p.failed {
			want := at.TypeUndefined
			if idx >= 0 && idx < n {
				want = drive.TypeOfKind(l.E[idx].K)
			}
			p.expect(t == want, "TypeOf", fmt.Sprint(want), fmt.Sprint(t))
		}
	case 4: // Slice
		var s []any
		pan := p.step("Slice", l.Name()+".Slice()", false, func() { s = real.Slice() })
		if !pan && !p.failed {
			if len(s) != n {
				p.fail("observer-mismatch:Slice", fmt.Sprintf("%d elements", n), fmt.Sprintf("%d elements", len(s)))
				return
			}
			for i := range s {
				if d := h.MatchVal(s[i], l.E[i]); d != "" {
					p.fail("observer-mismatch:Slice", "element "+fmt.Sprint(i)+" = "+l.E[i].String(), d)
					return
				}
			}
			// the returned slice is the caller's: writing into it must not change the list or later Slice() calls
			for i := range s {
				s[i] = "scribbled"
			}
			_ = append(s[:0], "appended")
			p.checkHeap()
		}
	case 5, 6: // Contains / IndexOf
		if r.Chance(1, 8) {
			// needles no list ever holds as they are (native slices and maps are stored as fresh containers, the rest is
			// refused): nothing is found, and looking is not an operation with an index that could be out of range
			needle := []any{[]any{1}, []any{}, []int{1, 2}, []string{"a"}, []float64{2.5}, map[string]any{"a": 1}, map[string]any{}, map[string]int{"n": 1}, func() {}, struct{}{}, []at.List{at.NewList()}, &n}[r.Intn(12)]
			gotC, gotI := true, 0
			p.c.Count("lookups_of_values_no_list_holds")
			pan := p.step("Contains/IndexOf", fmt.Sprintf("%s.Contains/IndexOf(%T %v)", l.Name(), needle, needle), false, func() {
				gotC = real.Contains(needle)
				gotI = real.IndexOf(needle)
			})
			if !pan && !p.failed {
				p.expect(!gotC, "Contains", "false", fmt.Sprint(gotC))
				p.expect(gotI == -1, "IndexOf", "-1", fmt.Sprint(gotI))
			}
			break
		}
		var v model.Val
		if n > 0 && r.Chance(2, 3) {
			v = l.E[r.Intn(n)]
			if v.Ref != nil && v.Ref.Real != nil && r.Chance(1, 2) {
				// an equal but distinct container: containers are held by reference, so it is not "contained"
				v = model.Ref(p.h.FromSpec(v.Ref.ToSpec()))
				p.c.Count("lookups_of_equal_but_distinct_containers")
			}
		} else {
			v = p.anyVal(nil, 3)
		}
		first := -1
		for i, e := range l.E {
			if e.Same(v) {
				first = i
				break
			}
		}
		var gotC bool
		var gotI int
		pan := p.step("Contains/IndexOf", fmt.Sprintf("%s.Contains/IndexOf(%s)", l.Name(), v), false, func() {
			gotC = real.Contains(h.Arg(v))
			gotI = real.IndexOf(h.Arg(v))
		})
		if !pan && !p.failed {
			p.expect(gotC == (first >= 0), "Contains", fmt.Sprint(first >= 0), fmt.Sprint(gotC))
			p.expect(gotI == first, "IndexOf", fmt.Sprint(first), fmt.Sprint(gotI))
		}
	default: // Count / Empty
		var cnt int
		var emp bool
		pan := p.step("Count/Empty", l.Name()+".Count()/Empty()", false, func() { cnt, emp = real.Count(), real.Empty() })
		if !pan && !p.failed {
			p.expect(cnt == n && emp == (n == 0), "Count/Empty", fmt.Sprintf("%d/%v", n, n == 0), fmt.Sprintf("%d/%v", cnt, emp))
		}
	}
}

func selfC05(s *fw.SelfCheck) {
	// the heap comparison must notice a changed element, a lost element and a swapped identity
	h := &model.Heap{}
	inner := h.FromSpec(spec.ListV(spec.IntV(1)))
	l := h.NewList(at.NewList(1, "a", inner.Real))
	l.E = []model.Val{model.Int(1), model.Str("a"), model.Ref(inner)}
	s.Expect(h.CheckAll() == "", "heap check rejects a faithful model: "+h.CheckAll())
	l.E[0] = model.Int(2)
	s.Expect(h.CheckAll() != "", "heap check misses a changed element")
	l.E[0] = model.Float(1)
	s.Expect(h.CheckAll() != "", "heap check misses int vs float")
	l.E[0] = model.Int(1)
	l.E = l.E[:2]
	s.Expect(h.CheckAll() != "", "heap check misses a lost element")
	l.E = append(l.E, model.Ref(h.FromSpec(spec.ListV(spec.IntV(1)))))
	s.Expect(h.CheckAll() != "", "heap check accepts an equal but different nested container")
	inner.E = append(inner.E, model.Int(5))
	l.E[2] = model.Ref(inner)
	s.Expect(h.CheckAll() != "", "heap check misses a stale nested list")
}
