package mon

import (
	"fmt"
	"math"
	"reflect"
	"sort"
	"strconv"
	"strings"

	at "github.com/DanielSvub/anytype"

	"verifharness/internal/drive"
	"verifharness/internal/fw"
	"verifharness/internal/rng"
	"verifharness/internal/spec"
)

func init() { register(&Monitor{ID: "C13", Run: runC13, Self: selfC13}) }

// nativeDiff: the native value must consist of map[string]any / []any / nil,string,bool,int,float64 only and equal the spec.
func nativeDiff(n any, s *spec.Spec, path string) string {
	if path == "" {
		path = "<root>"
	}
	switch x := n.(type) {
	case nil:
		if s.K != spec.Nil {
			return fmt.Sprintf("at %s: nil, expected %s", path, s.Short())
		}
	case bool:
		if s.K != spec.Bool || s.B != x {
			return fmt.Sprintf("at %s: bool %v, expected %s", path, x, s.Short())
		}
	case int:
		if s.K != spec.Int || s.I != x {
			return fmt.Sprintf("at %s: int %d, expected %s", path, x, s.Short())
		}
	case float64:
		if s.K != spec.Float || s.F != x {
			return fmt.Sprintf("at %s: float %v, expected %s", path, x, s.Short())
		}
	case string:
		if s.K != spec.Str || s.S != x {
			return fmt.Sprintf("at %s: string %q, expected %s", path, spec.Trunc(x, 60), s.Short())
		}
	case []any:
		if s.K != spec.List {
			return fmt.Sprintf("at %s: []any, expected %s", path, s.Short())
		}
		if x == nil {
			// deep-equal in Go's sense: a nil slice is not deep-equal to an empty one (it also marshals as null); the
			// conversion of an empty list is an empty slice, as NewListFrom([]any{}).NativeSlice() must reproduce its input
			return fmt.Sprintf("at %s: nil []any for a list (expected a non-nil slice of length %d)", path, len(s.L))
		}
		if len(x) != len(s.L) {
			return fmt.Sprintf("at %s: []any of length %d, expected %d", path, len(x), len(s.L))
		}
		for i := range x {
			if d := nativeDiff(x[i], s.L[i], path+"#"+strconv.Itoa(i)); d != "" {
				return d
			}
		}
	case map[string]any:
		if s.K != spec.Obj {
			return fmt.Sprintf("at %s: map, expected %s", path, s.Short())
		}
		if x == nil {
			return fmt.Sprintf("at %s: nil map for an object (expected a non-nil map with %d keys)", path, len(s.Keys))
		}
		if len(x) != len(s.Keys) {
			return fmt.Sprintf("at %s: map with %d keys, expected %d", path, len(x), len(s.Keys))
		}
		for i, k := range s.Keys {
			e, ok := x[k]
			if !ok {
				return fmt.Sprintf("at %s: key %q missing", path, k)
			}
			if d := nativeDiff(e, s.Vals[i], path+"."+k); d != "" {
				return d
			}
		}
	default:
		return fmt.Sprintf("at %s: value of Go type %T inside a native export (only map[string]any, []any and nil/string/bool/int/float64 are allowed)", path, n)
	}
	return ""
}

// deepCopyNative copies a native tree.
func deepCopyNative(n any) any {
	switch x := n.(type) {
	case []any:
		out := make([]any, len(x))
		for i, e := range x {
			out[i] = deepCopyNative(e)
		}
		return out
	case map[string]any:
		out := make(map[string]any, len(x))
		for k, e := range x {
			out[k] = deepCopyNative(e)
		}
		return out
	}
	return n
}

// scribble overwrites every slot of a native tree at every depth (and adds entries), to expose aliasing.
func scribble(n any) {
	switch x := n.(type) {
	case []any:
		for i, e := range x {
			scribble(e)
			x[i] = "scribbled"
		}
		_ = append(x[:0], "appended")
	case map[string]any:
		for k, e := range x {
			scribble(e)
			x[k] = "scribbled"
		}
		x["scribbled-new-key"] = 1
	}
}

func nativeOf(real any) any {
	switch x := real.(type) {
	case at.List:
		return x.NativeSlice()
	case at.Object:
		return x.NativeDict()
	}
	return nil
}

func fromNative(n any) any {
	switch x := n.(type) {
	case []any:
		return at.NewListFrom(x)
	case map[string]any:
		return at.NewObjectFrom(x)
	}
	return nil
}

func runC13(c *fw.Ctx) {
	I, L, O := spec.IntV, spec.ListV, spec.ObjV
	pins := []*spec.Spec{
		L(L(O("a", I(1)))), L(L(L())), O("rows", L(L(O("id", I(1))))), L(), O(), L(O()), O("a", L()),
		L(I(1), L(I(2), L(I(3), L(I(4), O("k", L(O("z", spec.NilV()))))))),
		O("count", I(3), "name", spec.StrV("test"), "tags", L(spec.StrV("a"), spec.StrV("b"))),
		// infinities are float64 values like any other for the native conversions (C13 has no finiteness clause; NaN is left
		// out because it is not deep-equal to itself)
		L(spec.FloatV(math.Inf(1)), spec.FloatV(math.Inf(-1)), O("k", spec.FloatV(math.Inf(1)), "l", L(spec.FloatV(math.Inf(-1)))), spec.FloatV(math.MaxFloat64), spec.FloatV(5e-324), spec.FloatV(math.Copysign(0, -1))),
		O("inf", spec.FloatV(math.Inf(1)), "ninf", spec.FloatV(math.Inf(-1)), "max", spec.FloatV(-math.MaxFloat64)),
		// tables: rows of one width, records of one shape
		L(L(I(1), I(2), I(3)), L(I(4), I(5), I(6))), O("t", L(L(I(1), I(2)), L(I(3), I(4)), L(I(5), I(6)))), L(L(L(I(1)), L(I(2))), L(L(I(3)), L(I(4)))),
		L(O("id", I(1), "v", spec.StrV("a")), O("id", I(2), "v", spec.StrV("b"))), L(L(spec.StrV("a")), L(spec.StrV("b")), L(spec.StrV("c"))), O("a", L(I(1), I(2)), "b", L(I(3), I(4))),
		// strings are byte strings to the native conversions: ill-formed UTF-8 in values and keys goes through unchanged
		L(spec.StrV("\xff"), spec.StrV("a\xc3"), spec.StrV("\xed\xa0\x80"), spec.StrV("ok\x80ok"), O("k", spec.StrV("\xfe\xff"), "\xc3", spec.StrV("v"), "l", L(spec.StrV("\xf0\x9f")))),
		O("\xff", spec.StrV("\xff"), "plain", L(spec.StrV("\x80"), spec.StrV(""), spec.StrV("\x00"))),
	}
	c.Cases("pinned", len(pins), true, func(i int, r *rng.R) { c13Case(c, r, pins[i]) })
	historyCases(c, "history", 600, 60000, probeNative)
	// lists of records and of rows whose cells change their kind from one to the next (a field that is nil or a scalar
	// in one record is a container in another, a row with a container early follows a row with one late)
	c.Cases("records-of-changing-kinds", c.N(300, 30000), false, func(i int, r *rng.R) {
		cell := func() *spec.Spec {
			switch r.Intn(7) {
			case 0:
				return spec.NilV()
			case 1:
				return spec.IntV(r.Intn(9))
			case 2:
				return spec.StrV([]string{"", "a", "b"}[r.Intn(3)])
			case 3:
				return spec.ObjV("in", spec.ListV(spec.IntV(1), spec.ObjV("deep", spec.NilV())))
			case 4:
				return spec.ListV(spec.ObjV("x", spec.IntV(1)), spec.IntV(2))
			case 5:
				return spec.ObjV()
			}
			return spec.FloatV(float64(r.Intn(7)) / 2)
		}
		n, w := r.Range(2, 6), r.Range(1, 4)
		rows := spec.ListV()
		for j := 0; j < n; j++ {
			if i%2 == 0 {
				rec := spec.ObjV()
				for k := 0; k < w; k++ {
					rec.Set(fmt.Sprintf("f%d", k), cell())
				}
				rows.L = append(rows.L, rec)
			} else {
				row := spec.ListV()
				for k := 0; k < w; k++ {
					row.L = append(row.L, cell())
				}
				rows.L = append(rows.L, row)
			}
		}
		tree := rows
		if r.Chance(1, 3) {
			tree = spec.ObjV("table", rows, "n", spec.IntV(n))
		}
		c.Count("tables_with_cells_of_changing_kinds")
		c13Case(c, r, tree)
	})
	c.Cases("shrink-and-grow", c.N(900, 90000), false, func(i int, r *rng.R) { c13ShrinkGrow(c, i, r) })
	c.Cases("re-homing", c.N(400, 40000), false, func(i int, r *rng.R) { c13Rehome(c, i, r) })
	// typed container flavours (with nil entries) inside native trees
	c.Cases("typed-flavours", 8, true, func(i int, r *rng.R) {
		o1, l1 := at.NewObject("x", 1), at.NewList(1)
		var nat any
		var want *spec.Spec
		switch i {
		case 0:
			nat = []any{[]at.Object{o1, nil}, "s"}
			want = spec.ListV(spec.ListV(spec.ObjV("x", spec.IntV(1)), spec.NilV()), spec.StrV("s"))
		case 1:
			nat = []any{[]at.List{nil, l1, nil}}
			want = spec.ListV(spec.ListV(spec.NilV(), spec.ListV(spec.IntV(1)), spec.NilV()))
		case 2:
			nat = map[string]any{"m": map[string]at.Object{"n": nil, "o": o1}}
			want = spec.ObjV("m", spec.ObjV("n", spec.NilV(), "o", spec.ObjV("x", spec.IntV(1))))
		case 3:
			nat = map[string]any{"m": map[string]at.List{"n": nil}, "t": []int{1, 2}}
			want = spec.ObjV("m", spec.ObjV("n", spec.NilV()), "t", spec.ListV(spec.IntV(1), spec.IntV(2)))
		case 6:
			// nil slices and maps of every typed flavour below the top level: empty containers like their non-nil twins
			nat = []any{[]int(nil), []string(nil), []float64(nil), []bool(nil), []at.Object(nil), []at.List(nil), []any(nil), map[string]int(nil), map[string]string(nil), map[string]float64(nil),
				map[string]bool(nil), map[string]at.Object(nil), map[string]at.List(nil), map[string]any(nil)}
			L, O := spec.ListV, spec.ObjV
			want = L(L(), L(), L(), L(), L(), L(), L(), O(), O(), O(), O(), O(), O(), O())
		case 7:
			nat = map[string]any{"li": []int(nil), "ms": map[string]string(nil), "in": []any{[]float64(nil), map[string]any{"deep": map[string]bool(nil), "l": []at.List(nil)}}, "lo": []at.Object(nil)}
			want = spec.ObjV("li", spec.ListV(), "ms", spec.ObjV(), "in", spec.ListV(spec.ListV(), spec.ObjV("deep", spec.ObjV(), "l", spec.ListV())), "lo", spec.ListV())
		case 4:
			nat = []any{make([]at.Object, 3), map[string]float64{"f": 0.5}}
			want = spec.ListV(spec.ListV(spec.NilV(), spec.NilV(), spec.NilV()), spec.ObjV("f", spec.FloatV(0.5)))
		default:
			nat = map[string]any{"e": []at.List{}, "s": []string{"a"}, "b": map[string]bool{"t": true}}
			want = spec.ObjV("e", spec.ListV(), "s", spec.ListV(spec.StrV("a")), "b", spec.ObjV("t", spec.BoolV(true)))
		}
		in := func() string { return fmt.Sprintf("native tree with typed container flavours: %v", nat) }
		guard(c, in, func() {
			imported := fromNative(nat)
			if w := stringCanon(imported); w != want.Canon() {
				c.Violate("import-differs", in(), want.Canon(), w)
				return
			}
			if d := nativeDiff(nativeOf(imported), want, ""); d != "" {
				c.Violate("import-export-roundtrip-differs", in(), want.Canon(), d)
			}
			c.Distinct(in())
		})
	})
	// native sources in which one slice / map instance occurs at several places, and slices that are views of one
	// backing array (prefixes, a middle part, the whole): every occurrence is converted according to ITS content; and
	// containers that hold one container instance (also an empty one) at several places: every occurrence is exported
	c.Cases("aliased-natives", c.N(300, 30000), false, func(i int, r *rng.R) {
		n := r.Range(1, 6)
		base := make([]any, n, n+r.Intn(3))
		for j := range base {
			base[j] = []any{j, "s", 2.5, nil, true}[r.Intn(5)]
			if r.Chance(1, 5) {
				base[j] = []any{j}
			}
		}
		m := map[string]any{"k": r.Intn(3)}
		if r.Chance(1, 3) {
			m = map[string]any{}
		}
		view := func() any {
			switch r.Intn(7) {
			case 0:
				return base
			case 1:
				return base[:r.Intn(n+1)]
			case 2:
				lo := r.Intn(n + 1)
				return base[lo : lo+r.Intn(n-lo+1)]
			case 3:
				return base[:0]
			case 4:
				return m
			case 5:
				return base[:n:n]
			default:
				return []any{}
			}
		}
		var src any
		k := r.Range(2, 5)
		if r.Bool() {
			l := make([]any, k)
			for j := range l {
				l[j] = view()
			}
			if r.Chance(1, 3) {
				l = append(l, map[string]any{"v": view(), "w": view()})
			}
			src = l
		} else {
			o := map[string]any{}
			for j := 0; j < k; j++ {
				o[fmt.Sprintf("k%d", j)] = view()
			}
			if r.Chance(1, 3) {
				o["nest"] = []any{view(), view()}
			}
			src = o
		}
		want := deepCopyNative(src)
		in := func() string {
			return fmt.Sprintf("native source with shared / overlapping slices and maps: %#v (views of one array %#v)", want, base)
		}
		guard(c, in, func() {
			c.Count("aliased_native_sources")
			c.Distinct(in())
			imported := fromNative(src)
			back := nativeOf(imported)
			if !reflect.DeepEqual(back, want) {
				c.Violate("import-export-roundtrip-differs", in(), fmt.Sprintf("%#v", want), fmt.Sprintf("%#v", back))
				return
			}
			// the source stays what it was, and is not aliased
			if !reflect.DeepEqual(src, want) {
				c.Violate("import-modifies-source", in(), fmt.Sprintf("%#v", want), fmt.Sprintf("%#v", src))
				return
			}
			scribble(src)
			if back2 := nativeOf(imported); !reflect.DeepEqual(back2, want) {
				c.Violate("import-aliases-source", in(), "container unchanged after the source was overwritten", fmt.Sprintf("%#v", back2))
				return
			}
			// the other direction: one container instance at several places of a container
			var shared any = at.NewList()
			desc := "an empty list"
			switch r.Intn(5) {
			case 0:
				shared, desc = at.NewObject(), "an empty object"
			case 1:
				shared, desc = at.NewList(1, at.NewList()), "[1,[]]"
			case 2:
				shared, desc = at.NewObject("e", at.NewList(), "o", at.NewObject()), "{e:[],o:{}}"
			case 3:
				shared, desc = at.NewList(at.NewObject("a", 1)), "[{a:1}]"
			}
			one := nativeOf(at.NewList(shared))
			var holder any
			reps := r.Range(2, 4)
			var wantH any
			if r.Bool() {
				args := make([]any, reps)
				w := make([]any, reps)
				for j := range args {
					args[j] = shared
					w[j] = deepCopyNative(one.([]any)[0])
				}
				holder, wantH = at.NewList(args...), w
			} else {
				o := at.NewObject()
				w := map[string]any{}
				for j := 0; j < reps; j++ {
					o.Set(fmt.Sprintf("k%d", j), shared)
					w[fmt.Sprintf("k%d", j)] = deepCopyNative(one.([]any)[0])
				}
				holder, wantH = o, w
			}
			c.Count("shared_instance_exports")
			got := nativeOf(holder)
			if !reflect.DeepEqual(got, wantH) {
				c.Violate("native-export-differs", fmt.Sprintf("container holding %s (one instance) %d times", desc, reps), fmt.Sprintf("every occurrence exported like a single one: %#v", wantH), fmt.Sprintf("%#v", got))
			}
		})
	})
	// native sources whose numbers come in all the Go widths: the export shows the normalised values (int, float64), a
	// float32 as the float64 that is exactly equal to it
	c.Cases("numeric-widths", 6, true, func(i int, r *rng.R) {
		third := float32(1.0) / 3
		src := []any{int8(-5), uint8(200), int16(-300), uint16(65535), int32(-70000), uint32(70000), int64(-9), uint64(12), uint(3), float32(0.1), float32(3.14), third, float32(1.5),
			'A', int32(0x4e2d), uint8('z'), int16(48), rune(0x1F600), int32(32), uint32('~'), int64(10), uint16(0x2028), // numbers that are also code points
			map[string]any{"f": float32(0.1), "i": int8(7), "l": []any{float32(16777217), uint16(1), 'x'}}}
		want := []any{-5, 200, -300, 65535, -70000, 70000, -9, 12, 3, float64(float32(0.1)), float64(float32(3.14)), float64(third), 1.5,
			65, 0x4e2d, 122, 48, 0x1F600, 32, 126, 10, 0x2028,
			map[string]any{"f": float64(float32(0.1)), "i": 7, "l": []any{float64(float32(16777217)), 1, 120}}}
		in := func() string { return fmt.Sprintf("native source with sized numbers %#v", src) }
		guard(c, in, func() {
			c.Distinct(fmt.Sprintf("numeric widths %d", i))
			var got any
			switch i {
			case 0:
				got = at.NewListFrom(src).NativeSlice()
			case 1:
				got = at.NewList(src...).NativeSlice()
			case 2:
				got = at.NewList().Add(src...).NativeSlice()
			case 3:
				got = at.NewObjectFrom(map[string]any{"k": src}).NativeDict()["k"]
			case 4:
				got = at.NewObject("k", src).NativeDict()["k"]
			default:
				got = at.NewList().SetTF("#0", src).NativeSlice()[0]
			}
			if !reflect.DeepEqual(got, any(want)) {
				c.Violate("native-export-differs", in(), fmt.Sprintf("%#v", want), fmt.Sprintf("%#v", got))
			}
		})
	})
	c.Cases("import-after-rejection", c.N(60, 3000), false, func(i int, r *rng.R) {
		t := spec.GenTree(r, spec.Opts{MaxDepth: r.Range(2, 4), MaxWidth: r.Range(2, 4), ScalarBias: 4})
		nat := drive.Native(t)
		in := func() string {
			return "native tree " + t.Canon() + ": first imported with one leaf replaced by an unsupported value (rejected), then repaired and imported again"
		}
		guard(c, in, func() {
			// collect the slots of the native tree
			var setters []func(v any, restore bool)
			var walk func(n any)
			walk = func(n any) {
				switch x := n.(type) {
				case []any:
					for j := range x {
						j, old := j, x[j]
						setters = append(setters, func(v any, restore bool) {
							if restore {
								x[j] = old
							} else {
								x[j] = v
							}
						})
						walk(old)
					}
				case map[string]any:
					for k := range x {
						k, old := k, x[k]
						setters = append(setters, func(v any, restore bool) {
							if restore {
								x[k] = old
							} else {
								x[k] = v
							}
						})
						walk(old)
					}
				}
			}
			walk(nat)
			if len(setters) == 0 {
				return
			}
			set := setters[r.Intn(len(setters))]
			set(complex(1, 2), false)
			pan, _ := drive.Protect(func() { fromNative(nat) })
			set(nil, true)
			if !pan {
				return // the leaf was not reached as a value (cannot happen for these trees); nothing to judge
			}
			var imported any
			if pan, msg := drive.Protect(func() { imported = fromNative(nat) }); pan {
				c.Violate("import-rejected-after-earlier-rejection", in(), "the repaired native tree is imported", "panic: "+msg)
				return
			}
			if w := stringCanon(imported); w != t.Canon() {
				c.Violate("import-differs", in(), t.Canon(), w)
				return
			}
			if d := nativeDiff(nativeOf(imported), t, ""); d != "" {
				c.Violate("import-export-roundtrip-differs", in(), t.Canon(), d)
			}
			c.Count("imports_after_rejection")
			c.Distinct(in())
		})
	})
	c.Cases("deep", c.N(60, 3000), false, func(i int, r *rng.R) {
		d := []int{10, 16, 17, 18, 33, 34, 35, 66, 67, 68, 137, 138, 139, 300}[r.Intn(14)]
		t := spec.ListV(spec.IntV(1), spec.ObjV("leaf", spec.ListV()))
		for j := 0; j < d; j++ {
			switch r.Intn(4) {
			case 0:
				t = spec.ObjV("k", t, "s", spec.IntV(j))
			case 1:
				t = spec.ListV(t)
			default:
				t = spec.ListV(spec.IntV(j), t, spec.StrV("after"))
			}
		}
		c.Count("deep_trees")
		c13Case(c, r, t)
	})
	c.Cases("trees", c.N(2000, 1000000), false, func(i int, r *rng.R) {
		c13Case(c, r, spec.GenTree(r, spec.Opts{MaxDepth: r.Range(1, 6), MaxWidth: r.Range(1, 5), ScalarBias: r.Range(3, 8), Wide: true}))
	})
}

func c13Case(c *fw.Ctx, r *rng.R, tree *spec.Spec) {
	in := func() string { return describeTree(tree) }
	guard(c, in, func() {
		c.Distinct(tree.Canon())
		c.Max("max_depth", int64(tree.Depth()))
		real := drive.Build(r, tree)
		if r != nil && r.Chance(1, 4) {
			// a derived structure (user type embedding a List / Object) somewhere inside: it is a container like any other
			if snap, err := drive.Walk(real); err == nil {
				node, _, _ := pickContainer(r, snap)
				dspec := spec.ObjV("derived", spec.IntV(1), "l", spec.ListV(spec.StrV("x")))
				var d any = NewDObject("derived", 1, "l", at.NewList("x"))
				if r.Bool() {
					dspec = spec.ListV(spec.IntV(7), spec.ObjV("k", spec.NilV()))
					d = NewDDList(7, at.NewObject("k", nil))
				}
				if r.Chance(1, 3) {
					// registered by value, with a slice among its fields: it cannot be compared or hashed, but it is a list
					sr := SliceRow{List: at.NewList(7, at.NewObject("k", nil)), cells: []string{"c"}}
					sr.Init(sr)
					d = sr
				}
				if r.Bool() {
					// handed over by one of the values it embeds (`parent.Set("k", d.Object)`): what is stored is then not the
					// registered pointer, Get resolves it, and the one-level snapshots hold what Get returns
					d = drive.Embedded(d, r.Intn(3))
					c.Count("trees_with_embedded_values_of_derived_structures")
				}
				ok := false
				drive.Protect(func() {
					switch x := node.Id.(type) {
					case at.List:
						x.Add(d)
						ok = true
					case at.Object:
						x.Set("derived-here", d)
						ok = true
					}
				})
				if ok {
					// the expected tree gets the same content at the same place: re-walk (the walker sees derived values as
					// what they are, containers) and use that as the reference
					if w, err := drive.Walk(real); err == nil {
						tree = w.ToSpec()
						_ = dspec
						c.Count("trees_with_derived_structures")
					}
				}
			}
		}
		// 1. export: plain Go values only, deep-equal to the content
		nat := nativeOf(real)
		if d := nativeDiff(nat, tree, ""); d != "" {
			c.Violate("native-export-differs", in(), "plain Go maps/slices equal to the container's content", d)
			return
		}
		c.Count("exports_checked")
		// 2. mutate the export at every depth: the container must not change; a second export is still right
		keep := deepCopyNative(nat)
		scribble(nat)
		if w := stringCanon(real); w != tree.Canon() {
			c.Violate("native-export-aliases-container", in(), "container unchanged after the exported value was overwritten at every depth", w)
			return
		}
		if d := nativeDiff(nativeOf(real), tree, ""); d != "" {
			c.Violate("second-native-export-differs", in(), "a later export is unaffected by modifications of an earlier one", d)
			return
		}
		// 3. import: NewXFrom(native).NativeX() reproduces the native tree; the source is not aliased
		src := deepCopyNative(keep)
		imported := fromNative(src)
		if w := stringCanon(imported); w != tree.Canon() {
			c.Violate("import-differs", in(), "NewObjectFrom/NewListFrom builds the content of the native value", w)
			return
		}
		back := nativeOf(imported)
		if !reflect.DeepEqual(back, deepCopyNative(keep)) { // the source consists of non-nil maps and slices only, so the reproduction is exact
			c.Violate("import-export-roundtrip-differs", in(), fmt.Sprintf("%v", keep), fmt.Sprintf("%v", back))
			return
		}
		scribble(src)
		if w := stringCanon(imported); w != tree.Canon() {
			c.Violate("import-aliases-source", in(), "container unchanged after the source map/slice was overwritten at every depth", w)
			return
		}
		c.Count("imports_checked")
		// 4. modify the container (deep): the earlier export stays as it was
		exp := nativeOf(real)
		expCopy := deepCopyNative(exp)
		snap, _ := drive.Walk(real)
		for m := 0; m < 6; m++ {
			node, path, ok := pickContainer(r, snap)
			mutate(r, real, node, path, ok)
			if s2, err := drive.Walk(real); err == nil {
				snap = s2
			}
		}
		if !reflect.DeepEqual(exp, expCopy) {
			c.Violate("export-changes-with-container", in(), "an exported native value is unaffected by later modifications of the container", fmt.Sprintf("%v", exp))
			return
		}
		// 4b. the container built from native data is a tree of containers of their own: the same writes (one element / field
		// added to every container, innermost first) on it and on a twin put together from plain constructors give the same
		// export again
		if tree.Size() <= 120 {
			grown, twin := fromNative(drive.Native(tree)), drive.Build(nil, tree)
			if r != nil && r.Bool() {
				grown = drive.Build(r, tree)
			}
			var grow func(v any, depth int)
			grow = func(v any, depth int) {
				if depth > 40 {
					return
				}
				switch x := v.(type) {
				case at.List:
					for i := 0; i < x.Count(); i++ {
						grow(x.Get(i), depth+1)
					}
					x.Add("grown")
				case at.Object:
					ks := x.Keys().StringSlice()
					sort.Strings(ks)
					for _, k := range ks {
						grow(x.Get(k), depth+1)
					}
					x.Set("grown", true)
				}
			}
			if pan, msg := drive.Protect(func() { grow(grown, 0); grow(twin, 0) }); pan {
				c.Violate("imported-container-unusable", in(), "every container of the tree takes one more element / field", "panic: "+msg)
				return
			}
			if a, b := fmt.Sprintf("%v", nativeOf(grown)), fmt.Sprintf("%v", nativeOf(twin)); a != b {
				c.Violate("imported-containers-share-storage", in(), "after the same writes the same export as a tree built from plain constructors: "+spec.Trunc(b, 500), spec.Trunc(a, 500))
				return
			}
			c.Count("grown_twins_compared")
		}
		// 5. Dict()/Slice(): one-level snapshots holding exactly what Get returns; not aliased in either direction
		real2 := drive.Build(r, tree)
		c13OneLevel(c, r, real2, tree, in)
		if r != nil && r.Chance(1, 3) {
			// the same for a container whose stored references are not what Get returns: values embedded in derived structures
			// (stored instead of the structure itself, or wrapped into one after having been stored)
			holder, what := c13EmbeddedHolder(r)
			c13OneLevel(c, r, holder, tree, func() string { return what })
		}
		if c.WantSample() && tree.Size() > 4 && tree.Size() < 16 {
			c.Sample(map[string]any{"tree": tree.Canon(), "native_export": fmt.Sprintf("%v", keep)})
		}
	})
}

// normaliseEmpty makes nil and empty slices/maps compare equal (content comparison).
func normaliseEmpty(n any) any {
	switch x := n.(type) {
	case []any:
		out := make([]any, len(x))
		for i, e := range x {
			out[i] = normaliseEmpty(e)
		}
		return out
	case map[string]any:
		out := make(map[string]any, len(x))
		for k, e := range x {
			out[k] = normaliseEmpty(e)
		}
		return out
	}
	return n
}

func c13OneLevel(c *fw.Ctx, r *rng.R, real any, tree *spec.Spec, in func() string) {
	switch x := real.(type) {
	case at.List:
		s := x.Slice()
		if len(s) != x.Count() {
			c.Violate("slice-length-differs", in(), fmt.Sprint(x.Count()), fmt.Sprint(len(s)))
			return
		}
		for i := range s {
			if !eqSlot(s[i], x.Get(i)) {
				c.Violate("slice-element-is-not-what-get-returns", in(), fmt.Sprintf("Slice()[%d] == Get(%d)", i, i), fmt.Sprintf("%v vs %v", s[i], x.Get(i)))
				return
			}
		}
		before := top(x)
		for i := range s {
			s[i] = "scribbled"
		}
		_ = append(s[:0], "appended")
		if !sameTop(before, top(x)) {
			c.Violate("slice-aliases-container", in(), "container unchanged after writing into Slice()", showTop(top(x)))
			return
		}
		s2 := x.Slice()
		for i := range s2 {
			if !eqSlot(s2[i], x.Get(i)) {
				c.Violate("second-slice-differs", in(), "a later Slice() holds what Get returns", fmt.Sprintf("index %d: %v", i, s2[i]))
				return
			}
		}
		keep := append([]any{}, s2...)
		x.Add("more")
		if x.Count() > 1 {
			x.Replace(0, "changed")
			x.Reverse()
		}
		if !sameTop(keep, top(s2)) {
			c.Violate("slice-changes-with-container", in(), "an earlier Slice() is unaffected by later modifications", fmt.Sprintf("%v", s2))
			return
		}
	case at.Object:
		d := x.Dict()
		if len(d) != x.Count() {
			c.Violate("dict-length-differs", in(), fmt.Sprint(x.Count()), fmt.Sprint(len(d)))
			return
		}
		for k, v := range d {
			if !x.KeyExists(k) || !eqSlot(v, x.Get(k)) {
				c.Violate("dict-entry-is-not-what-get-returns", in(), fmt.Sprintf("Dict()[%q] == Get(%q)", k, k), fmt.Sprintf("%v", v))
				return
			}
		}
		before := top(x)
		for k := range d {
			d[k] = "scribbled"
		}
		d["scribbled-new-key"] = true
		if !sameTop(before, top(x)) {
			c.Violate("dict-aliases-container", in(), "container unchanged after writing into Dict()", showTop(top(x)))
			return
		}
		d2 := x.Dict()
		if len(d2) != x.Count() {
			c.Violate("second-dict-differs", in(), "a later Dict() holds exactly the fields", fmt.Sprintf("%d entries for %d fields", len(d2), x.Count()))
			return
		}
		for k, v := range d2 {
			if !x.KeyExists(k) || !eqSlot(v, x.Get(k)) {
				c.Violate("second-dict-differs", in(), "a later Dict() holds what Get returns", fmt.Sprintf("key %q: %v", k, v))
				return
			}
		}
		keep := map[string]any{}
		for k, v := range d2 {
			keep[k] = v
		}
		x.Set("more", 1)
		for k := range keep {
			x.Set(k, "changed")
			break
		}
		if !sameTop(keep, top(d2)) {
			c.Violate("dict-changes-with-container", in(), "an earlier Dict() is unaffected by later modifications", fmt.Sprintf("%v", d2))
			return
		}
	}
	c.Count("one_level_snapshots_checked")
}

func selfC13(s *fw.SelfCheck) {
	t := spec.ListV(spec.IntV(1), spec.ObjV("a", spec.ListV()))
	s.Expect(nativeDiff([]any{1, map[string]any{"a": []any{}}}, t, "") == "", "native comparator rejects a faithful export")
	s.Expect(nativeDiff([]any{1, map[string]any{"a": at.NewList()}}, t, "") != "", "native comparator accepts an anytype container inside an export")
	s.Expect(nativeDiff([]any{1.0, map[string]any{"a": []any{}}}, t, "") != "", "native comparator confuses int and float")
	s.Expect(nativeDiff([]any{int64(1), map[string]any{"a": []any{}}}, t, "") != "", "native comparator accepts int64")
	n := []any{[]any{1}}
	c := deepCopyNative(n)
	scribble(n)
	s.Expect(reflect.DeepEqual(c, []any{[]any{1}}), "deep copy aliases its source")
}

// c13ShrinkGrow: a list / object comes out of one of the constructors or deriving operations (a container or native value
// repeated by NewListOf among them), optionally sits inside a parent, and is then taken apart and refilled call by call.
// After every call the native export of the container and of its parent must be plain Go values equal to the current
// content, whatever the container remembers about what it used to hold.
func c13ShrinkGrow(c *fw.Ctx, i int, r *rng.R) {
	var trace []string
	in := func() string {
		out := ""
		for k, t := range trace {
			out += fmt.Sprintf("%d. %s\n", k+1, t)
		}
		return out
	}
	say := func(f string, a ...any) { trace = append(trace, fmt.Sprintf(f, a...)) }
	elem := func() *spec.Spec {
		switch r.Intn(4) {
		case 0:
			return spec.GenScalar(r)
		case 1:
			return spec.ListV(spec.IntV(r.Intn(9)))
		case 2:
			return spec.ObjV("k", spec.IntV(r.Intn(9)))
		}
		return spec.GenTree(r, spec.Opts{MaxDepth: 2, MaxWidth: 2, SafeKeys: true})
	}
	arg := func(e *spec.Spec) any {
		if (e.K == spec.List || e.K == spec.Obj) && r.Bool() {
			return drive.Build(r, e)
		}
		return drive.Native(e)
	}
	scalar := func() *spec.Spec { return spec.IntV(100 + r.Intn(9)) }
	guard(c, in, func() {
		if i%2 == 0 {
			var l at.List
			var content []*spec.Spec
			n := r.Range(1, 5)
			switch (i / 2) % 7 {
			case 0, 1:
				e := []*spec.Spec{spec.ListV(spec.IntV(1)), spec.ObjV("k", spec.IntV(1)), elem()}[r.Intn(3)]
				for k := 0; k < n; k++ {
					content = append(content, e)
				}
				l = at.NewListOf(arg(e), n)
				say("l = NewListOf(%s, %d)", e.Canon(), n)
			case 2:
				args := make([]any, n)
				for k := range args {
					e := elem()
					content = append(content, e)
					args[k] = arg(e)
				}
				l = at.NewListFrom(args)
				say("l = NewListFrom(%s)", spec.ListV(content...).Canon())
			case 3:
				args := make([]any, n)
				for k := range args {
					e := elem()
					content = append(content, e)
					args[k] = arg(e)
				}
				l = at.NewList(args...)
				say("l = NewList(%s...)", spec.ListV(content...).Canon())
			case 4:
				a, b := at.NewList(), at.NewList()
				for k := 0; k < n; k++ {
					e := elem()
					content = append(content, e)
					if k < n/2 {
						a.Add(arg(e))
					} else {
						b.Add(arg(e))
					}
				}
				l = a.Concat(b)
				say("l = Concat of two lists: %s", spec.ListV(content...).Canon())
			case 5:
				src := at.NewList("pre")
				for k := 0; k < n; k++ {
					e := elem()
					content = append(content, e)
					src.Add(arg(e))
				}
				l = src.SubList(1, 0)
				say("l = SubList(1, 0) of [\"pre\", %s...]", spec.ListV(content...).Canon())
			default:
				src := at.NewList()
				for k := 0; k < n; k++ {
					e := elem()
					content = append(content, e)
					src.Add(arg(e))
				}
				l = src.Clone()
				say("l = Clone of %s", spec.ListV(content...).Canon())
			}
			var parent any
			switch r.Intn(3) {
			case 0:
				parent = at.NewObject("p", l)
				say("parent = NewObject(\"p\", l)")
			case 1:
				parent = at.NewList(0, l)
				say("parent = NewList(0, l)")
			}
			check := func() bool {
				want := spec.ListV(content...)
				nat := l.NativeSlice()
				if d := nativeDiff(nat, want, ""); d != "" {
					c.Violate("export-differs-after-history", in(), "plain Go values equal to the current content "+spec.Trunc(want.Canon(), 400), d)
					return false
				}
				if parent != nil {
					wp := spec.ObjV("p", want)
					if _, isList := parent.(at.List); isList {
						wp = spec.ListV(spec.IntV(0), want)
					}
					if d := nativeDiff(nativeOf(parent), wp, ""); d != "" {
						c.Violate("export-differs-after-history", in(), "parent export: plain Go values equal to the current content "+spec.Trunc(wp.Canon(), 400), d)
						return false
					}
				}
				scribble(nat)
				if d := nativeDiff(l.NativeSlice(), want, ""); d != "" {
					c.Violate("export-aliases-container", in(), "the container is unchanged after its export was overwritten", d)
					return false
				}
				c.Count("exports_judged_after_a_call")
				return true
			}
			if !check() {
				return
			}
			for steps := r.Range(2, 9); steps > 0; steps-- {
				ln := len(content)
				switch op := r.Intn(9); {
				case op == 0 && ln > 0:
					l.Pop()
					content = content[:ln-1]
					say("l.Pop()")
				case op <= 2 && ln > 0:
					idx := []int{0, ln - 1, r.Intn(ln)}[r.Intn(3)]
					l.Delete(idx)
					content = append(content[:idx:idx], content[idx+1:]...)
					say("l.Delete(%d)", idx)
				case op == 3 && ln > 0:
					idx := r.Intn(ln)
					v := scalar()
					l.Replace(idx, v.I)
					content = append(append(content[:idx:idx], v), content[idx+1:]...)
					say("l.Replace(%d, %d)", idx, v.I)
				case op == 4 && ln > 0:
					idx := r.Intn(ln)
					l.UnsetTF("#" + strconv.Itoa(idx))
					content = append(content[:idx:idx], content[idx+1:]...)
					say("l.UnsetTF(#%d)", idx)
				case op == 5 && ln > 0:
					idx := r.Intn(ln)
					v := scalar()
					l.SetTF("#"+strconv.Itoa(idx), v.I)
					content = append(append(content[:idx:idx], v), content[idx+1:]...)
					say("l.SetTF(#%d, %d)", idx, v.I)
				case op == 6:
					e := elem()
					l.Add(arg(e))
					content = append(content[:ln:ln], e)
					say("l.Add(%s)", e.Canon())
				case op == 7:
					e := elem()
					idx := r.Intn(ln + 1)
					l.Insert(idx, arg(e))
					content = append(append(content[:idx:idx], e), content[idx:]...)
					say("l.Insert(%d, %s)", idx, e.Canon())
				case op == 8 && r.Chance(1, 3):
					l.Clear()
					content = nil
					say("l.Clear()")
				default:
					continue
				}
				if !check() {
					return
				}
			}
			c.Distinct(in())
			return
		}
		// objects
		var o at.Object
		keys := []string{}
		vals := map[string]*spec.Spec{}
		n := r.Range(1, 5)
		pairs := func() (ps []any, m map[string]any) {
			m = map[string]any{}
			for k := 0; k < n; k++ {
				key := "k" + strconv.Itoa(k)
				e := elem()
				keys = append(keys, key)
				vals[key] = e
				a := arg(e)
				ps = append(ps, key, a)
				m[key] = a
			}
			return
		}
		switch (i / 2) % 5 {
		case 0:
			ps, _ := pairs()
			o = at.NewObject(ps...)
			say("o = NewObject(...)")
		case 1:
			_, m := pairs()
			o = at.NewObjectFrom(m)
			say("o = NewObjectFrom(...)")
		case 2:
			ps, _ := pairs()
			half := (len(ps) / 4) * 2
			o = at.NewObject(ps[:half]...).Merge(at.NewObject(ps[half:]...))
			say("o = Merge of two objects")
		case 3:
			ps, _ := pairs()
			src := at.NewObject(ps...).Set("other", 1)
			o = src.Pluck(keys...)
			say("o = Pluck(all keys but one)")
		default:
			ps, _ := pairs()
			o = at.NewObject(ps...).Clone()
			say("o = Clone")
		}
		wantSpec := func() *spec.Spec {
			kv := []any{}
			for _, k := range keys {
				kv = append(kv, k, vals[k])
			}
			return spec.ObjV(kv...)
		}
		say("content %s", wantSpec().Canon())
		var parent any
		switch r.Intn(3) {
		case 0:
			parent = at.NewObject("p", o)
			say("parent = NewObject(\"p\", o)")
		case 1:
			parent = at.NewList(0, o)
			say("parent = NewList(0, o)")
		}
		check := func() bool {
			want := wantSpec()
			nat := o.NativeDict()
			if d := nativeDiff(nat, want, ""); d != "" {
				c.Violate("export-differs-after-history", in(), "plain Go values equal to the current content "+spec.Trunc(want.Canon(), 400), d)
				return false
			}
			if parent != nil {
				wp := spec.ObjV("p", want)
				if _, isList := parent.(at.List); isList {
					wp = spec.ListV(spec.IntV(0), want)
				}
				if d := nativeDiff(nativeOf(parent), wp, ""); d != "" {
					c.Violate("export-differs-after-history", in(), "parent export: plain Go values equal to the current content "+spec.Trunc(wp.Canon(), 400), d)
					return false
				}
			}
			scribble(nat)
			if d := nativeDiff(o.NativeDict(), want, ""); d != "" {
				c.Violate("export-aliases-container", in(), "the container is unchanged after its export was overwritten", d)
				return false
			}
			c.Count("exports_judged_after_a_call")
			return true
		}
		if !check() {
			return
		}
		drop := func(k string) {
			delete(vals, k)
			for j, x := range keys {
				if x == k {
					keys = append(keys[:j:j], keys[j+1:]...)
					break
				}
			}
		}
		put := func(k string, e *spec.Spec) {
			if _, ok := vals[k]; !ok {
				keys = append(keys, k)
			}
			vals[k] = e
		}
		for steps := r.Range(2, 9); steps > 0; steps-- {
			switch op := r.Intn(7); {
			case op <= 1 && len(keys) > 0:
				k := keys[r.Intn(len(keys))]
				o.Unset(k)
				drop(k)
				say("o.Unset(%q)", k)
			case op == 2 && len(keys) > 0:
				k := keys[r.Intn(len(keys))]
				o.UnsetTF("." + k)
				drop(k)
				say("o.UnsetTF(.%s)", k)
			case op == 3 && len(keys) > 0:
				k := keys[r.Intn(len(keys))]
				v := scalar()
				if r.Bool() {
					o.Set(k, v.I)
				} else {
					o.SetTF("."+k, v.I)
				}
				put(k, v)
				say("o.Set / SetTF(%q, %d)", k, v.I)
			case op == 4 || op == 5:
				k := "n" + strconv.Itoa(r.Intn(4))
				e := elem()
				o.Set(k, arg(e))
				put(k, e)
				say("o.Set(%q, %s)", k, e.Canon())
			case op == 6 && r.Chance(1, 3):
				o.Clear()
				keys, vals = nil, map[string]*spec.Spec{}
				say("o.Clear()")
			default:
				continue
			}
			if !check() {
				return
			}
		}
		c.Distinct(in())
	})
}

// c13EmbeddedHolder: a list / object holding, next to scalars and an ordinary derived structure, library containers that
// are embedded in a derived structure: Get resolves the registered pointer, the stored reference is another one.
func c13EmbeddedHolder(r *rng.R) (any, string) {
	d1 := NewDList(1, 2)
	d2 := NewDDObject("k", 1)
	d3 := NewDDDList("x")
	late := at.NewObject("late", true)
	lateL := at.NewList("late")
	var holder any
	what := ""
	if r.Bool() {
		holder = at.NewList(0, d1.List, "s", d2.DObject.Object, d2.DObject, NewDObject("plainly", "derived"), d3.DDList, late, lateL, nil)
		what = "list [0, d1.List (embedded in a DList), \"s\", d2.DObject.Object, d2.DObject (embedded in a DDObject), a DObject, d3.DDList (embedded in a DDDList), an object and a list wrapped into derived structures after they were stored, nil]"
	} else {
		holder = at.NewObject("a", d1.List, "b", 1.5, "c", d2.DObject.Object, "d", d2.DObject, "e", NewDDList(7), "f", d3.DDList.DList, "g", late, "h", lateL)
		what = "object {a: d1.List (embedded in a DList), b: 1.5, c: d2.DObject.Object, d: d2.DObject (embedded in a DDObject), e: a DDList, f: d3.DDList.DList (embedded in a DDDList), g / h: an object and a list wrapped into derived structures after they were stored}"
	}
	// ... and derived structures registered by value whose struct cannot be compared or hashed
	sr := SliceRow{List: at.NewList("row", 1), cells: []string{"c"}}
	sr.Init(sr)
	mr := MapRec{Object: at.NewObject("rec", 1), attrs: map[string]int{"a": 1}}
	mr.Init(mr)
	switch h := holder.(type) {
	case at.List:
		h.Add(sr, mr, sr.List)
	case at.Object:
		h.Set("sr", sr, "mr", mr, "mri", mr.Object)
	}
	what += " plus a SliceRow and a MapRec (registered by value, not comparable) and their embedded containers"
	wl := &DObject{Object: late, tag: "late"}
	late.Init(wl)
	wll := &DList{List: lateL, tag: "late"}
	lateL.Init(wll)
	return holder, what
}

// c13Rehome: a container P is stored in a container A, leaves it again (in every way a slot can lose its content), and
// then A is stored in P - a legal, acyclic structure whichever way round the two once were. The export of P (and of a
// holder of P) is the plain tree of what is there now; whatever either container remembers about where it used to be
// is nobody's business.
func c13Rehome(c *fw.Ctx, i int, r *rng.R) {
	var trace []string
	in := func() string { return strings.Join(trace, "\n") }
	say := func(f string, a ...any) { trace = append(trace, fmt.Sprintf(f, a...)) }
	guard(c, in, func() {
		pIsList, aIsList := r.Bool(), r.Bool()
		var P, A any
		var pSpec, aSpec *spec.Spec
		if pIsList {
			P, pSpec = at.NewList("p", 1), spec.ListV(spec.StrV("p"), spec.IntV(1))
		} else {
			P, pSpec = at.NewObject("p", 1), spec.ObjV("p", spec.IntV(1))
		}
		if aIsList {
			A, aSpec = at.NewList("a"), spec.ListV(spec.StrV("a"))
		} else {
			A, aSpec = at.NewObject("a", true), spec.ObjV("a", spec.BoolV(true))
		}
		say("P = %s, A = %s", pSpec.Canon(), aSpec.Canon())
		// 1. P goes into A
		switch x := A.(type) {
		case at.List:
			switch r.Intn(4) {
			case 0:
				x.Add(P)
				say("A.Add(P)")
			case 1:
				x.Insert(0, P)
				say("A.Insert(0, P)")
			case 2:
				x.Add("slot").Replace(x.Count()-1, P)
				say("A.Add(slot).Replace(last, P)")
			default:
				x.SetTF("#3", P)
				say("A.SetTF(#3, P)")
			}
		case at.Object:
			if r.Bool() {
				x.Set("k", P)
				say("A.Set(k, P)")
			} else {
				x.SetTF(".k", P)
				say("A.SetTF(.k, P)")
			}
		}
		// 2. P leaves A
		switch x := A.(type) {
		case at.List:
			idx := -1
			for j := 0; j < x.Count(); j++ {
				if sameValue(x.Get(j), P) {
					idx = j
				}
			}
			switch r.Intn(6) {
			case 0:
				x.Replace(idx, "gone")
				say("A.Replace(%d, gone)", idx)
			case 1:
				x.Delete(idx)
				say("A.Delete(%d)", idx)
			case 2:
				x.SetTF(fmt.Sprintf("#%d", idx), nil)
				say("A.SetTF(#%d, nil)", idx)
			case 3:
				x.UnsetTF(fmt.Sprintf("#%d", idx))
				say("A.UnsetTF(#%d)", idx)
			case 4:
				x.Clear().Add("a")
				say("A.Clear().Add(a)")
			default:
				for x.Count() > idx {
					x.Pop()
				}
				say("A.Pop() down to %d", idx)
			}
		case at.Object:
			switch r.Intn(5) {
			case 0:
				x.Set("k", "gone")
				say("A.Set(k, gone)")
			case 1:
				x.Unset("k")
				say("A.Unset(k)")
			case 2:
				x.SetTF(".k", 7)
				say("A.SetTF(.k, 7)")
			case 3:
				x.UnsetTF(".k")
				say("A.UnsetTF(.k)")
			default:
				x.Clear().Set("a", true)
				say("A.Clear().Set(a, true)")
			}
		}
		aNow, err := drive.Walk(A)
		if err != nil {
			c.Violate("container-unwalkable", in(), "a consistent container", err.Error())
			return
		}
		aSpec = aNow.ToSpec()
		// 3. A goes into P
		var want *spec.Spec
		switch x := P.(type) {
		case at.List:
			if r.Bool() {
				x.Add(A)
				say("P.Add(A)")
			} else {
				x.SetTF("#2", A)
				say("P.SetTF(#2, A)")
			}
			want = spec.ListV(spec.StrV("p"), spec.IntV(1), aSpec)
		case at.Object:
			if r.Bool() {
				x.Set("a", A)
				say("P.Set(a, A)")
			} else {
				x.SetTF(".a", A)
				say("P.SetTF(.a, A)")
			}
			want = spec.ObjV("p", spec.IntV(1), "a", aSpec)
		}
		// (P is exported before anything else happens to it: storing it in a holder first would be one more re-homing)
		if d := nativeDiff(nativeOf(P), want, ""); d != "" {
			c.Violate("export-differs-after-history", in(), "plain Go values equal to the current content "+want.Canon(), d)
			return
		}
		holder := at.NewObject("h", P)
		if d := nativeDiff(nativeOf(holder), spec.ObjV("h", want), ""); d != "" {
			c.Violate("export-differs-after-history", in(), "holder export: "+spec.ObjV("h", want).Canon(), d)
			return
		}
		c.Count("rehomed_exports_judged")
		c.Distinct(in())
	})
}
