package mon

import (
	"fmt"
	"math"
	"reflect"
	"strconv"

	at "github.com/DanielSvub/anytype"

	"verifharness/internal/drive"
	"verifharness/internal/fw"
	"verifharness/internal/rng"
	"verifharness/internal/spec"
)

func init() { register(&Monitor{ID: "C13", Run: runC13, Self: selfC13}) }

// nativeDiff: the native value must consist of map[string]any / []any / nil,string,bool,int,float64 only and equal the spec.
func nativeDiff(n any, s *spec.Spec, path string) string {
	if path == "" {
		path = "<root>"
	}
	switch x := n.(type) {
	case nil:
		if s.K != spec.Nil {
			return fmt.Sprintf("at %s: nil, expected %s", path, s.Short())
		}
	case bool:
		if s.K != spec.Bool || s.B != x {
			return fmt.Sprintf("at %s: bool %v, expected %s", path, x, s.Short())
		}
	case int:
		if s.K != spec.Int || s.I != x {
			return fmt.Sprintf("at %s: int %d, expected %s", path, x, s.Short())
		}
	case float64:
		if s.K != spec.Float || s.F != x {
			return fmt.Sprintf("at %s: float %v, expected %s", path, x, s.Short())
		}
	case string:
		if s.K != spec.Str || s.S != x {
			return fmt.Sprintf("at %s: string %q, expected %s", path, spec.Trunc(x, 60), s.Short())
		}
	case []any:
		if s.K != spec.List {
			return fmt.Sprintf("at %s: []any, expected %s", path, s.Short())
		}
		if x == nil {
			// deep-equal in Go's sense: a nil slice is not deep-equal to an empty one (it also marshals as null); the
			// conversion of an empty list is an empty slice, as NewListFrom([]any{}).NativeSlice() must reproduce its input
			return fmt.Sprintf("at %s: nil []any for a list (expected a non-nil slice of length %d)", path, len(s.L))
		}
		if len(x) != len(s.L) {
			return fmt.Sprintf("at %s: []any of length %d, expected %d", path, len(x), len(s.L))
		}
		for i := range x {
			if d := nativeDiff(x[i], s.L[i], path+"#"+strconv.Itoa(i)); d != "" {
				return d
			}
		}
	case map[string]any:
		if s.K != spec.Obj {
			return fmt.Sprintf("at %s: map, expected %s", path, s.Short())
		}
		if x == nil {
			return fmt.Sprintf("at %s: nil map for an object (expected a non-nil map with %d keys)", path, len(s.Keys))
		}
		if len(x) != len(s.Keys) {
			return fmt.Sprintf("at %s: map with %d keys, expected %d", path, len(x), len(s.Keys))
		}
		for i, k := range s.Keys {
			e, ok := x[k]
			if !ok {
				return fmt.Sprintf("at %s: key %q missing", path, k)
			}
			if d := nativeDiff(e, s.Vals[i], path+"."+k); d != "" {
				return d
			}
		}
	default:
		return fmt.Sprintf("at %s: value of Go type %T inside a native export (only map[string]any, []any and nil/string/bool/int/float64 are allowed)", path, n)
	}
	return ""
}

// deepCopyNative copies a native tree.
func deepCopyNative(n any) any {
	switch x := n.(type) {
	case []any:
		out := make([]any, len(x))
		for i, e := range x {
			out[i] = deepCopyNative(e)
		}
		return out
	case map[string]any:
		out := make(map[string]any, len(x))
		for k, e := range x {
			out[k] = deepCopyNative(e)
		}
		return out
	}
	return n
}

// scribble overwrites every slot of a native tree at every depth (and adds entries), to expose aliasing.
func scribble(n any) {
	switch x := n.(type) {
	case []any:
		for i, e := range x {
			scribble(e)
			x[i] = "scribbled"
		}
		_ = append(x[:0], "appended")
	case map[string]any:
		for k, e := range x {
			scribble(e)
			x[k] = "scribbled"
		}
		x["scribbled-new-key"] = 1
	}
}

func nativeOf(real any) any {
	switch x := real.(type) {
	case at.List:
		return x.NativeSlice()
	case at.Object:
		return x.NativeDict()
	}
	return nil
}

func fromNative(n any) any {
	switch x := n.(type) {
	case []any:
		return at.NewListFrom(x)
	case map[string]any:
		return at.NewObjectFrom(x)
	}
	return nil
}

func runC13(c *fw.Ctx) {
	I, L, O := spec.IntV, spec.ListV, spec.ObjV
	pins := []*spec.Spec{
		L(L(O("a", I(1)))), L(L(L())), O("rows", L(L(O("id", I(1))))), L(), O(), L(O()), O("a", L()),
		L(I(1), L(I(2), L(I(3), L(I(4), O("k", L(O("z", spec.NilV()))))))),
		O("count", I(3), "name", spec.StrV("test"), "tags", L(spec.StrV("a"), spec.StrV("b"))),
		// infinities are float64 values like any other for the native conversions (C13 has no finiteness clause; NaN is left
		// out because it is not deep-equal to itself)
		L(spec.FloatV(math.Inf(1)), spec.FloatV(math.Inf(-1)), O("k", spec.FloatV(math.Inf(1)), "l", L(spec.FloatV(math.Inf(-1)))), spec.FloatV(math.MaxFloat64), spec.FloatV(5e-324), spec.FloatV(math.Copysign(0, -1))),
		O("inf", spec.FloatV(math.Inf(1)), "ninf", spec.FloatV(math.Inf(-1)), "max", spec.FloatV(-math.MaxFloat64)),
	}
	c.Cases("pinned", len(pins), true, func(i int, r *rng.R) { c13Case(c, r, pins[i]) })
	historyCases(c, "history", 600, 60000, probeNative)
	// typed container flavours (with nil entries) inside native trees
	c.Cases("typed-flavours", 6, true, func(i int, r *rng.R) {
		o1, l1 := at.NewObject("x", 1), at.NewList(1)
		var nat any
		var want *spec.Spec
		switch i {
		case 0:
			nat = []any{[]at.Object{o1, nil}, "s"}
			want = spec.ListV(spec.ListV(spec.ObjV("x", spec.IntV(1)), spec.NilV()), spec.StrV("s"))
		case 1:
			nat = []any{[]at.List{nil, l1, nil}}
			want = spec.ListV(spec.ListV(spec.NilV(), spec.ListV(spec.IntV(1)), spec.NilV()))
		case 2:
			nat = map[string]any{"m": map[string]at.Object{"n": nil, "o": o1}}
			want = spec.ObjV("m", spec.ObjV("n", spec.NilV(), "o", spec.ObjV("x", spec.IntV(1))))
		case 3:
			nat = map[string]any{"m": map[string]at.List{"n": nil}, "t": []int{1, 2}}
			want = spec.ObjV("m", spec.ObjV("n", spec.NilV()), "t", spec.ListV(spec.IntV(1), spec.IntV(2)))
		case 4:
			nat = []any{make([]at.Object, 3), map[string]float64{"f": 0.5}}
			want = spec.ListV(spec.ListV(spec.NilV(), spec.NilV(), spec.NilV()), spec.ObjV("f", spec.FloatV(0.5)))
		default:
			nat = map[string]any{"e": []at.List{}, "s": []string{"a"}, "b": map[string]bool{"t": true}}
			want = spec.ObjV("e", spec.ListV(), "s", spec.ListV(spec.StrV("a")), "b", spec.ObjV("t", spec.BoolV(true)))
		}
		in := func() string { return fmt.Sprintf("native tree with typed container flavours: %v", nat) }
		guard(c, in, func() {
			imported := fromNative(nat)
			if w := stringCanon(imported); w != want.Canon() {
				c.Violate("import-differs", in(), want.Canon(), w)
				return
			}
			if d := nativeDiff(nativeOf(imported), want, ""); d != "" {
				c.Violate("import-export-roundtrip-differs", in(), want.Canon(), d)
			}
			c.Distinct(in())
		})
	})
	// native sources in which one slice / map instance occurs at several places, and slices that are views of one
	// backing array (prefixes, a middle part, the whole): every occurrence is converted according to ITS content; and
	// containers that hold one container instance (also an empty one) at several places: every occurrence is exported
	c.Cases("aliased-natives", c.N(300, 30000), false, func(i int, r *rng.R) {
		n := r.Range(1, 6)
		base := make([]any, n, n+r.Intn(3))
		for j := range base {
			base[j] = []any{j, "s", 2.5, nil, true}[r.Intn(5)]
			if r.Chance(1, 5) {
				base[j] = []any{j}
			}
		}
		m := map[string]any{"k": r.Intn(3)}
		if r.Chance(1, 3) {
			m = map[string]any{}
		}
		view := func() any {
			switch r.Intn(7) {
			case 0:
				return base
			case 1:
				return base[:r.Intn(n+1)]
			case 2:
				lo := r.Intn(n + 1)
				return base[lo : lo+r.Intn(n-lo+1)]
			case 3:
				return base[:0]
			case 4:
				return m
			case 5:
				return base[:n:n]
			default:
				return []any{}
			}
		}
		var src any
		k := r.Range(2, 5)
		if r.Bool() {
			l := make([]any, k)
			for j := range l {
				l[j] = view()
			}
			if r.Chance(1, 3) {
				l = append(l, map[string]any{"v": view(), "w": view()})
			}
			src = l
		} else {
			o := map[string]any{}
			for j := 0; j < k; j++ {
				o[fmt.Sprintf("k%d", j)] = view()
			}
			if r.Chance(1, 3) {
				o["nest"] = []any{view(), view()}
			}
			src = o
		}
		want := deepCopyNative(src)
		in := func() string {
			return fmt.Sprintf("native source with shared / overlapping slices and maps: %#v (views of one array %#v)", want, base)
		}
		guard(c, in, func() {
			c.Count("aliased_native_sources")
			c.Distinct(in())
			imported := fromNative(src)
			back := nativeOf(imported)
			if !reflect.DeepEqual(back, want) {
				c.Violate("import-export-roundtrip-differs", in(), fmt.Sprintf("%#v", want), fmt.Sprintf("%#v", back))
				return
			}
			// the source stays what it was, and is not aliased
			if !reflect.DeepEqual(src, want) {
				c.Violate("import-modifies-source", in(), fmt.Sprintf("%#v", want), fmt.Sprintf("%#v", src))
				return
			}
			scribble(src)
			if back2 := nativeOf(imported); !reflect.DeepEqual(back2, want) {
				c.Violate("import-aliases-source", in(), "container unchanged after the source was overwritten", fmt.Sprintf("%#v", back2))
				return
			}
			// the other direction: one container instance at several places of a container
			var shared any = at.NewList()
			desc := "an empty list"
			switch r.Intn(5) {
			case 0:
				shared, desc = at.NewObject(), "an empty object"
			case 1:
				shared, desc = at.NewList(1, at.NewList()), "[1,[]]"
			case 2:
				shared, desc = at.NewObject("e", at.NewList(), "o", at.NewObject()), "{e:[],o:{}}"
			case 3:
				shared, desc = at.NewList(at.NewObject("a", 1)), "[{a:1}]"
			}
			one := nativeOf(at.NewList(shared))
			var holder any
			reps := r.Range(2, 4)
			var wantH any
			if r.Bool() {
				args := make([]any, reps)
				w := make([]any, reps)
				for j := range args {
					args[j] = shared
					w[j] = deepCopyNative(one.([]any)[0])
				}
				holder, wantH = at.NewList(args...), w
			} else {
				o := at.NewObject()
				w := map[string]any{}
				for j := 0; j < reps; j++ {
					o.Set(fmt.Sprintf("k%d", j), shared)
					w[fmt.Sprintf("k%d", j)] = deepCopyNative(one.([]any)[0])
				}
				holder, wantH = o, w
			}
			c.Count("shared_instance_exports")
			got := nativeOf(holder)
			if !reflect.DeepEqual(got, wantH) {
				c.Violate("native-export-differs", fmt.Sprintf("container holding %s (one instance) %d times", desc, reps), fmt.Sprintf("every occurrence exported like a single one: %#v", wantH), fmt.Sprintf("%#v", got))
			}
		})
	})
	// native sources whose numbers come in all the Go widths: the export shows the normalised values (int, float64), a
	// float32 as the float64 that is exactly equal to it
	c.Cases("numeric-widths", 6, true, func(i int, r *rng.R) {
		third := float32(1.0) / 3
		src := []any{int8(-5), uint8(200), int16(-300), uint16(65535), int32(-70000), uint32(70000), int64(-9), uint64(12), uint(3), float32(0.1), float32(3.14), third, float32(1.5),
			map[string]any{"f": float32(0.1), "i": int8(7), "l": []any{float32(16777217), uint16(1)}}}
		want := []any{-5, 200, -300, 65535, -70000, 70000, -9, 12, 3, float64(float32(0.1)), float64(float32(3.14)), float64(third), 1.5,
			map[string]any{"f": float64(float32(0.1)), "i": 7, "l": []any{float64(float32(16777217)), 1}}}
		in := func() string { return fmt.Sprintf("native source with sized numbers %#v", src) }
		guard(c, in, func() {
			c.Distinct(fmt.Sprintf("numeric widths %d", i))
			var got any
			switch i {
			case 0:
				got = at.NewListFrom(src).NativeSlice()
			case 1:
				got = at.NewList(src...).NativeSlice()
			case 2:
				got = at.NewList().Add(src...).NativeSlice()
			case 3:
				got = at.NewObjectFrom(map[string]any{"k": src}).NativeDict()["k"]
			case 4:
				got = at.NewObject("k", src).NativeDict()["k"]
			default:
				got = at.NewList().SetTF("#0", src).NativeSlice()[0]
			}
			if !reflect.DeepEqual(got, any(want)) {
				c.Violate("native-export-differs", in(), fmt.Sprintf("%#v", want), fmt.Sprintf("%#v", got))
			}
		})
	})
	c.Cases("import-after-rejection", c.N(60, 3000), false, func(i int, r *rng.R) {
		t := spec.GenTree(r, spec.Opts{MaxDepth: r.Range(2, 4), MaxWidth: r.Range(2, 4), ScalarBias: 4})
		nat := drive.Native(t)
		in := func() string {
			return "native tree " + t.Canon() + ": first imported with one leaf replaced by an unsupported value (rejected), then repaired and imported again"
		}
		guard(c, in, func() {
			// collect the slots of the native tree
			var setters []func(v any, restore bool)
			var walk func(n any)
			walk = func(n any) {
				switch x := n.(type) {
				case []any:
					for j := range x {
						j, old := j, x[j]
						setters = append(setters, func(v any, restore bool) {
							if restore {
								x[j] = old
							} else {
								x[j] = v
							}
						})
						walk(old)
					}
				case map[string]any:
					for k := range x {
						k, old := k, x[k]
						setters = append(setters, func(v any, restore bool) {
							if restore {
								x[k] = old
							} else {
								x[k] = v
							}
						})
						walk(old)
					}
				}
			}
			walk(nat)
			if len(setters) == 0 {
				return
			}
			set := setters[r.Intn(len(setters))]
			set(complex(1, 2), false)
			pan, _ := drive.Protect(func() { fromNative(nat) })
			set(nil, true)
			if !pan {
				return // the leaf was not reached as a value (cannot happen for these trees); nothing to judge
			}
			var imported any
			if pan, msg := drive.Protect(func() { imported = fromNative(nat) }); pan {
				c.Violate("import-rejected-after-earlier-rejection", in(), "the repaired native tree is imported", "panic: "+msg)
				return
			}
			if w := stringCanon(imported); w != t.Canon() {
				c.Violate("import-differs", in(), t.Canon(), w)
				return
			}
			if d := nativeDiff(nativeOf(imported), t, ""); d != "" {
				c.Violate("import-export-roundtrip-differs", in(), t.Canon(), d)
			}
			c.Count("imports_after_rejection")
			c.Distinct(in())
		})
	})
	c.Cases("deep", c.N(60, 3000), false, func(i int, r *rng.R) {
		d := []int{10, 16, 17, 18, 33, 34, 35, 66, 67, 68, 137, 138, 139, 300}[r.Intn(14)]
		t := spec.ListV(spec.IntV(1), spec.ObjV("leaf", spec.ListV()))
		for j := 0; j < d; j++ {
			switch r.Intn(4) {
			case 0:
				t = spec.ObjV("k", t, "s", spec.IntV(j))
			case 1:
				t = spec.ListV(t)
			default:
				t = spec.ListV(spec.IntV(j), t, spec.StrV("after"))
			}
		}
		c.Count("deep_trees")
		c13Case(c, r, t)
	})
	c.Cases("trees", c.N(2000, 1000000), false, func(i int, r *rng.R) {
		c13Case(c, r, spec.GenTree(r, spec.Opts{MaxDepth: r.Range(1, 6), MaxWidth: r.Range(1, 5), ScalarBias: r.Range(3, 8), Wide: true}))
	})
}

func c13Case(c *fw.Ctx, r *rng.R, tree *spec.Spec) {
	in := func() string { return describeTree(tree) }
	guard(c, in, func() {
		c.Distinct(tree.Canon())
		c.Max("max_depth", int64(tree.Depth()))
		real := drive.Build(r, tree)
		if r != nil && r.Chance(1, 6) {
			// a derived structure (user type embedding a List / Object) somewhere inside: it is a container like any other
			if snap, err := drive.Walk(real); err == nil {
				node, _, _ := pickContainer(r, snap)
				dspec := spec.ObjV("derived", spec.IntV(1), "l", spec.ListV(spec.StrV("x")))
				var d any = NewDObject("derived", 1, "l", at.NewList("x"))
				if r.Bool() {
					dspec = spec.ListV(spec.IntV(7), spec.ObjV("k", spec.NilV()))
					d = NewDDList(7, at.NewObject("k", nil))
				}
				ok := false
				drive.Protect(func() {
					switch x := node.Id.(type) {
					case at.List:
						x.Add(d)
						ok = true
					case at.Object:
						x.Set("derived-here", d)
						ok = true
					}
				})
				if ok {
					// the expected tree gets the same content at the same place: re-walk (the walker sees derived values as
					// what they are, containers) and use that as the reference
					if w, err := drive.Walk(real); err == nil {
						tree = w.ToSpec()
						_ = dspec
						c.Count("trees_with_derived_structures")
					}
				}
			}
		}
		// 1. export: plain Go values only, deep-equal to the content
		nat := nativeOf(real)
		if d := nativeDiff(nat, tree, ""); d != "" {
			c.Violate("native-export-differs", in(), "plain Go maps/slices equal to the container's content", d)
			return
		}
		c.Count("exports_checked")
		// 2. mutate the export at every depth: the container must not change; a second export is still right
		keep := deepCopyNative(nat)
		scribble(nat)
		if w := stringCanon(real); w != tree.Canon() {
			c.Violate("native-export-aliases-container", in(), "container unchanged after the exported value was overwritten at every depth", w)
			return
		}
		if d := nativeDiff(nativeOf(real), tree, ""); d != "" {
			c.Violate("second-native-export-differs", in(), "a later export is unaffected by modifications of an earlier one", d)
			return
		}
		// 3. import: NewXFrom(native).NativeX() reproduces the native tree; the source is not aliased
		src := deepCopyNative(keep)
		imported := fromNative(src)
		if w := stringCanon(imported); w != tree.Canon() {
			c.Violate("import-differs", in(), "NewObjectFrom/NewListFrom builds the content of the native value", w)
			return
		}
		back := nativeOf(imported)
		if !reflect.DeepEqual(back, deepCopyNative(keep)) { // the source consists of non-nil maps and slices only, so the reproduction is exact
			c.Violate("import-export-roundtrip-differs", in(), fmt.Sprintf("%v", keep), fmt.Sprintf("%v", back))
			return
		}
		scribble(src)
		if w := stringCanon(imported); w != tree.Canon() {
			c.Violate("import-aliases-source", in(), "container unchanged after the source map/slice was overwritten at every depth", w)
			return
		}
		c.Count("imports_checked")
		// 4. modify the container (deep): the earlier export stays as it was
		exp := nativeOf(real)
		expCopy := deepCopyNative(exp)
		snap, _ := drive.Walk(real)
		for m := 0; m < 6; m++ {
			node, path, ok := pickContainer(r, snap)
			mutate(r, real, node, path, ok)
			if s2, err := drive.Walk(real); err == nil {
				snap = s2
			}
		}
		if !reflect.DeepEqual(exp, expCopy) {
			c.Violate("export-changes-with-container", in(), "an exported native value is unaffected by later modifications of the container", fmt.Sprintf("%v", exp))
			return
		}
		// 5. Dict()/Slice(): one-level snapshots holding exactly what Get returns; not aliased in either direction
		real2 := drive.Build(r, tree)
		c13OneLevel(c, r, real2, tree, in)
		if c.WantSample() && tree.Size() > 4 && tree.Size() < 16 {
			c.Sample(map[string]any{"tree": tree.Canon(), "native_export": fmt.Sprintf("%v", keep)})
		}
	})
}

// normaliseEmpty makes nil and empty slices/maps compare equal (content comparison).
func normaliseEmpty(n any) any {
	switch x := n.(type) {
	case []any:
		out := make([]any, len(x))
		for i, e := range x {
			out[i] = normaliseEmpty(e)
		}
		return out
	case map[string]any:
		out := make(map[string]any, len(x))
		for k, e := range x {
			out[k] = normaliseEmpty(e)
		}
		return out
	}
	return n
}

func c13OneLevel(c *fw.Ctx, r *rng.R, real any, tree *spec.Spec, in func() string) {
	switch x := real.(type) {
	case at.List:
		s := x.Slice()
		if len(s) != x.Count() {
			c.Violate("slice-length-differs", in(), fmt.Sprint(x.Count()), fmt.Sprint(len(s)))
			return
		}
		for i := range s {
			if !eqSlot(s[i], x.Get(i)) {
				c.Violate("slice-element-is-not-what-get-returns", in(), fmt.Sprintf("Slice()[%d] == Get(%d)", i, i), fmt.Sprintf("%v vs %v", s[i], x.Get(i)))
				return
			}
		}
		before := top(x)
		for i := range s {
			s[i] = "scribbled"
		}
		_ = append(s[:0], "appended")
		if !sameTop(before, top(x)) {
			c.Violate("slice-aliases-container", in(), "container unchanged after writing into Slice()", showTop(top(x)))
			return
		}
		s2 := x.Slice()
		for i := range s2 {
			if !eqSlot(s2[i], x.Get(i)) {
				c.Violate("second-slice-differs", in(), "a later Slice() holds what Get returns", fmt.Sprintf("index %d: %v", i, s2[i]))
				return
			}
		}
		keep := append([]any{}, s2...)
		x.Add("more")
		if x.Count() > 1 {
			x.Replace(0, "changed")
			x.Reverse()
		}
		if !sameTop(keep, top(s2)) {
			c.Violate("slice-changes-with-container", in(), "an earlier Slice() is unaffected by later modifications", fmt.Sprintf("%v", s2))
			return
		}
	case at.Object:
		d := x.Dict()
		if len(d) != x.Count() {
			c.Violate("dict-length-differs", in(), fmt.Sprint(x.Count()), fmt.Sprint(len(d)))
			return
		}
		for k, v := range d {
			if !x.KeyExists(k) || !eqSlot(v, x.Get(k)) {
				c.Violate("dict-entry-is-not-what-get-returns", in(), fmt.Sprintf("Dict()[%q] == Get(%q)", k, k), fmt.Sprintf("%v", v))
				return
			}
		}
		before := top(x)
		for k := range d {
			d[k] = "scribbled"
		}
		d["scribbled-new-key"] = true
		if !sameTop(before, top(x)) {
			c.Violate("dict-aliases-container", in(), "container unchanged after writing into Dict()", showTop(top(x)))
			return
		}
		d2 := x.Dict()
		if len(d2) != x.Count() {
			c.Violate("second-dict-differs", in(), "a later Dict() holds exactly the fields", fmt.Sprintf("%d entries for %d fields", len(d2), x.Count()))
			return
		}
		for k, v := range d2 {
			if !x.KeyExists(k) || !eqSlot(v, x.Get(k)) {
				c.Violate("second-dict-differs", in(), "a later Dict() holds what Get returns", fmt.Sprintf("key %q: %v", k, v))
				return
			}
		}
		keep := map[string]any{}
		for k, v := range d2 {
			keep[k] = v
		}
		x.Set("more", 1)
		for k := range keep {
			x.Set(k, "changed")
			break
		}
		if !sameTop(keep, top(d2)) {
			c.Violate("dict-changes-with-container", in(), "an earlier Dict() is unaffected by later modifications", fmt.Sprintf("%v", d2))
			return
		}
	}
	c.Count("one_level_snapshots_checked")
}

func selfC13(s *fw.SelfCheck) {
	t := spec.ListV(spec.IntV(1), spec.ObjV("a", spec.ListV()))
	s.Expect(nativeDiff([]any{1, map[string]any{"a": []any{}}}, t, "") == "", "native comparator rejects a faithful export")
	s.Expect(nativeDiff([]any{1, map[string]any{"a": at.NewList()}}, t, "") != "", "native comparator accepts an anytype container inside an export")
	s.Expect(nativeDiff([]any{1.0, map[string]any{"a": []any{}}}, t, "") != "", "native comparator confuses int and float")
	s.Expect(nativeDiff([]any{int64(1), map[string]any{"a": []any{}}}, t, "") != "", "native comparator accepts int64")
	n := []any{[]any{1}}
	c := deepCopyNative(n)
	scribble(n)
	s.Expect(reflect.DeepEqual(c, []any{[]any{1}}), "deep copy aliases its source")
}
