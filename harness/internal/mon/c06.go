package mon

import (
	"errors"
	"fmt"
	"math"
	"sort"
	"strings"
	"time"

	at "github.com/DanielSvub/anytype"

	"verifharness/internal/drive"
	"verifharness/internal/fw"
	"verifharness/internal/model"
	"verifharness/internal/rng"
	"verifharness/internal/spec"
)

func init() { register(&Monitor{ID: "C06", Run: runC06, Self: selfC06}) }

var c06Keys = []string{"", "a", "b", "c", ".", "#", "a.b", "a#1", "k\"q", "é", "key with space", string(rune(0x1f600)), "\x00", "A", ".a", ".b", ".a.b", "a#0", "b.a", "a.a", ".a#0", "#0",
	// keys that collide under common digests (both of a pair are in the pool, so they meet in one object)
	"Aa", "BB", "liquid", "costarring", "aca", "bab", "ab", "ba", "a\x00", "a ",
	// a Go string is any byte sequence: keys that are not valid UTF-8
	"\xff", "\xfe\xff", "a\xc3", "\xed\xa0\x80", "\x80"}

func c06Key(r *rng.R) string {
	if r.Chance(1, 12) {
		return spec.GenKey(r)
	}
	return c06Keys[r.Intn(len(c06Keys))]
}

func runC06(c *fw.Ctx) {
	steps := c.N(40, 60)
	c.Cases("programs", c.N(1500, 600000), false, func(i int, r *rng.R) {
		p := &prog{c: c, r: r, h: &model.Heap{}, lazy: i%2 == 1, ctx: i%3 == 0, derived: i%4 == 1}
		guard(c, p.input, func() {
			c06Program(p, steps)
			p.checkHeap()
		})
		if len(p.trace) >= 5 {
			c.Distinct(p.input())
		}
		if c.WantSample() && len(p.trace) > 10 {
			t := p.trace
			if len(t) > 14 {
				t = t[:14]
			}
			c.Sample(map[string]any{"program_prefix": t})
		}
	})
}

func showPairs(keys []string, vals []model.Val) string {
	var b strings.Builder
	for i := range keys {
		if i > 0 {
			b.WriteString(", ")
		}
		fmt.Fprintf(&b, "%q: %s", keys[i], vals[i])
	}
	return b.String()
}

func c06NewObject(p *prog) {
	r, h := p.r, p.h
	n := h.NewObj(nil)
	k := r.Intn(5)
	if r.Chance(1, 25) {
		k = []int{9, 17, 40, 100}[r.Intn(4)] // beyond one map bucket / several growth steps
	}
	many := k > 8
	keyFor := func(i int) string {
		if many {
			return "k" + fmt.Sprint(i%(k-2)) // a few duplicates
		}
		return c06Key(r)
	}
	switch r.Intn(4) {
	case 0, 1: // NewObject(pairs...) with duplicates inside one call
		keys := make([]string, k)
		vals := make([]model.Val, k)
		args := make([]any, 0, 2*k)
		for i := range keys {
			keys[i] = keyFor(i)
			if i > 0 && r.Chance(1, 5) {
				keys[i] = keys[r.Intn(i)]
			}
			vals[i] = p.anyVal(nil, 2)
			args = append(args, keys[i], p.sized(h.Arg(vals[i])))
		}
		if p.derived && r.Chance(1, 4) {
			// a derived structure (a user type embedding an Object, registered with Init) is an Object like any other
			which := r.Intn(3)
			p.step("NewObject", fmt.Sprintf("%s = derived object (embedding level %d) of (%s)", n.Name(), which+1, showPairs(keys, vals)), false, func() {
				for i := range keys {
					n.M[keys[i]] = vals[i]
				}
				switch which {
				case 0:
					n.Real = NewDObject(args...)
				case 1:
					n.Real = NewDDObject(args...)
				default:
					n.Real = NewDDDObject(args...)
				}
			})
			p.c.Count("derived_objects_in_programs")
			return
		}
		p.step("NewObject", fmt.Sprintf("%s = NewObject(%s)", n.Name(), showPairs(keys, vals)), false, func() {
			for i := range keys {
				n.M[keys[i]] = vals[i]
			}
			n.Real = at.NewObject(args...)
		})
	case 2: // NewObjectFrom(map[string]any) with scalars, existing containers and nested natives
		m := map[string]any{}
		keys := []string{}
		vals := []model.Val{}
		for i := 0; i < k; i++ {
			key := keyFor(i)
			if _, dup := m[key]; dup {
				continue
			}
			var v model.Val
			if r.Chance(1, 4) {
				t := spec.GenTree(r, spec.Opts{MaxDepth: 2, MaxWidth: 2, SafeKeys: true})
				v = h.ModelFromSpec(t)
				m[key] = drive.Native(t)
			} else {
				v = p.anyVal(nil, 2)
				m[key] = h.Arg(v)
			}
			keys = append(keys, key)
			vals = append(vals, v)
		}
		p.step("NewObjectFrom", fmt.Sprintf("%s = NewObjectFrom(map{%s})", n.Name(), showPairs(keys, vals)), false, func() {
			for i := range keys {
				n.M[keys[i]] = vals[i]
			}
			n.Real = at.NewObjectFrom(m)
		})
	default: // typed maps
		switch r.Intn(4) {
		case 0:
			m := map[string]int{}
			for i := 0; i < k; i++ {
				key := c06Key(r)
				m[key] = c05Ints[r.Intn(len(c05Ints))]
				n.M[key] = model.Int(m[key])
			}
			p.step("NewObjectFrom", fmt.Sprintf("%s = NewObjectFrom(map[string]int %v)", n.Name(), m), false, func() { n.Real = at.NewObjectFrom(m) })
		case 1:
			m := map[string]string{}
			for i := 0; i < k; i++ {
				key := c06Key(r)
				m[key] = c05Strs[r.Intn(len(c05Strs))]
				n.M[key] = model.Str(m[key])
			}
			p.step("NewObjectFrom", fmt.Sprintf("%s = NewObjectFrom(map[string]string %q)", n.Name(), m), false, func() { n.Real = at.NewObjectFrom(m) })
		case 2:
			m := map[string]float64{}
			for i := 0; i < k; i++ {
				key := c06Key(r)
				m[key] = c05Floats[r.Intn(len(c05Floats))]
				n.M[key] = model.Float(m[key])
			}
			p.step("NewObjectFrom", fmt.Sprintf("%s = NewObjectFrom(map[string]float64 %v)", n.Name(), m), false, func() { n.Real = at.NewObjectFrom(m) })
		default:
			m := map[string]at.Object{}
			os := p.objects()
			for i := 0; i < k && len(os) > 0; i++ {
				key := c06Key(r)
				if r.Chance(1, 4) {
					m[key] = nil // a nil Object entry is stored as nil
					n.M[key] = model.Nil()
					continue
				}
				x := os[r.Intn(len(os))]
				m[key] = x.Object()
				n.M[key] = model.Ref(x)
			}
			p.step("NewObjectFrom", fmt.Sprintf("%s = NewObjectFrom(map[string]Object{%d})", n.Name(), len(m)), false, func() { n.Real = at.NewObjectFrom(m) })
		}
	}
}

// adoptResult fills the model node of a Merge / Pluck result: scalars must equal the source value, nested containers
// may be the identical container or a fresh equal copy (the statement leaves that open), which is then adopted.
func (p *prog) adoptResult(res *model.Node, real at.Object, expect map[string]model.Val, op string) {
	p.adoptResultRef(res, real, expect, op, nil)
}

// adoptResultRef: byRef names the keys whose container value must be the identical instance (Merge: the fields taken
// from the argument; the statement's map holds Lists/Objects by reference and "prefers the argument's value").
func (p *prog) adoptResultRef(res *model.Node, real at.Object, expect map[string]model.Val, op string, byRef map[string]bool) {
	if d := p.h.Bind(res, real); d != "" {
		p.fail("result-not-fresh:"+op, "a new object", d)
		return
	}
	for k, v := range expect {
		if v.Ref == nil {
			res.M[k] = v
			continue
		}
		var got any
		if pan, _ := drive.Protect(func() { got = real.Get(k) }); pan {
			res.M[k] = v // the heap check will report the missing key
			continue
		}
		if got == v.Ref.Real {
			res.M[k] = v
		} else if byRef[k] {
			p.fail("result-holds-a-copy:"+op, fmt.Sprintf("field %q of the result is the argument's container itself (values of kind list/object are held by reference)", k), "another container")
			return
		} else {
			res.M[k] = p.h.ModelFromSpec(v.Ref.ToSpec()) // unbound copy: content verified by the heap check
			p.c.Count("nested_copied_in_" + op)
		}
	}
}

// c06GrowShrink: the object grows to 9..40 fields (scalars and containers, in several Set calls) and is then unset
// down to a few of them, in chunks of different sizes; whatever the object does with its storage on the way, the
// surviving fields hold what they held (containers by identity).
func c06GrowShrink(p *prog, o *model.Node) {
	r, h := p.r, p.h
	real := o.Object()
	n := []int{9, 10, 16, 17, 24, 33, 40}[r.Intn(7)]
	p.c.Count("object_grow_and_shrink")
	var added []string
	for len(added) < n && !p.failed {
		k := r.Range(1, 4)
		keys := make([]string, 0, k)
		vals := make([]model.Val, 0, k)
		args := make([]any, 0, 2*k)
		for j := 0; j < k && len(added)+len(keys) < n; j++ {
			key := fmt.Sprintf("g%03d", len(added)+len(keys))
			v := p.anyVal(o, 3)
			keys, vals, args = append(keys, key), append(vals, v), append(args, key, h.Arg(v))
		}
		p.step("Set", fmt.Sprintf("%s.Set(%s) [growing]", o.Name(), showPairs(keys, vals)), false, func() {
			for i := range keys {
				o.M[keys[i]] = vals[i]
			}
			real.Set(args...)
		})
		added = append(added, keys...)
	}
	keep := r.Range(1, 3)
	perm := r.Perm(len(added))
	victims := make([]string, 0, len(added))
	for _, i := range perm[:len(added)-keep] {
		victims = append(victims, added[i])
	}
	for len(victims) > 0 && !p.failed {
		k := []int{1, 1, 2, 3, 5, len(victims)}[r.Intn(6)]
		if k > len(victims) {
			k = len(victims)
		}
		chunk := victims[:k]
		victims = victims[k:]
		p.step("Unset", fmt.Sprintf("%s.Unset(%q) [shrinking, %d fields before]", o.Name(), chunk, len(o.M)), false, func() {
			for _, key := range chunk {
				delete(o.M, key)
			}
			real.Unset(chunk...)
		})
	}
}

func c06Program(p *prog, steps int) {
	r, h := p.r, p.h
	for i := r.Range(2, 4); i > 0 && !p.failed; i-- {
		c06NewObject(p)
	}
	for i := r.Intn(3); i > 0 && !p.failed; i-- {
		t := spec.GenTree(r, spec.Opts{MaxDepth: 1, MaxWidth: 3, SafeKeys: true, Root: spec.List})
		l := h.FromSpec(t)
		p.trace = append(p.trace, fmt.Sprintf("%s = NewList%s", l.Name(), t.Canon()))
	}
	p.checkHeap()
	for s := 0; s < steps && !p.failed; s++ {
		os := p.objects()
		o := os[r.Intn(len(os))]
		real := o.Object()
		if r.Chance(1, 25) {
			c06GrowShrink(p, o)
			continue
		}
		existing := o.SortedKeys()
		pickKey := func() string {
			if len(existing) > 0 && r.Chance(1, 8) {
				// a key spelled like a tree-form path that resolves inside a nested container (it is still just a key)
				k := existing[r.Intn(len(existing))]
				if v := o.M[k]; v.Ref != nil {
					sfx := "#0"
					if v.Ref.K == spec.Obj {
						sfx = ".x"
						if ks := v.Ref.SortedKeys(); len(ks) > 0 {
							sfx = "." + ks[r.Intn(len(ks))]
						}
					}
					if r.Bool() {
						return k + sfx
					}
					return "." + k + sfx
				}
				return "." + k
			}
			if len(existing) > 0 && r.Chance(2, 3) {
				return existing[r.Intn(len(existing))]
			}
			return c06Key(r)
		}
		op := r.Intn(100)
		switch {
		case op < 22: // Set with 1-3 pairs, duplicates allowed
			if r.Chance(1, 10) {
				// one key written several times in a row with values that look alike (0.0, -0.0, 0, "0", false): each write
				// stores the value given, sign of zero and kind included
				key := pickKey()
				looks := []model.Val{model.Float(0), model.Float(math.Copysign(0, -1)), model.Float(0), model.Int(0), model.Float(math.Copysign(0, -1)), model.Str("0"), model.Bool(false), model.Nil(), model.Float(0)}
				from := r.Intn(len(looks) - 2)
				for _, v := range looks[from : from+r.Range(2, 3)] {
					v := v
					p.step("Set", fmt.Sprintf("%s.Set(%q, %s) [look-alike values in a row, sign bit %v]", o.Name(), key, v, v.K == spec.Float && math.Signbit(v.F)), false, func() {
						o.M[key] = v
						real.Set(key, h.Arg(v))
					})
				}
				p.c.Count("look_alike_writes")
				continue
			}
			k := r.Range(1, 3)
			keys := make([]string, k)
			vals := make([]model.Val, k)
			args := make([]any, 0, 2*k)
			for i := range keys {
				keys[i] = pickKey()
				if i > 0 && r.Chance(1, 4) {
					keys[i] = keys[0]
				}
				if cur, ok := o.M[keys[i]]; ok && cur.Ref != nil && r.Chance(1, 3) {
					// a native Go map / slice assigned over a field that holds a container of the matching kind: the slot is
					// rebound to a fresh container, the old container (possibly shared) is left alone
					t := spec.GenTree(r, spec.Opts{MaxDepth: 2, MaxWidth: 3, SafeKeys: true, Root: cur.K})
					vals[i] = h.ModelFromSpec(t)
					args = append(args, keys[i], drive.Native(t))
					p.c.Count("native_over_container_sets")
					continue
				}
				vals[i] = p.anyVal(o, 2)
				args = append(args, keys[i], p.sized(h.Arg(vals[i])))
			}
			var ret at.Object
			wasNative := make([]bool, len(vals))
			for i, v := range vals {
				wasNative[i] = v.Ref != nil && v.Ref.Real == nil
			}
			p.step("Set", fmt.Sprintf("%s.Set(%s)", o.Name(), showPairs(keys, vals)), false, func() {
				for i := range keys {
					o.M[keys[i]] = vals[i]
				}
				ret = real.Set(args...)
			})
			p.expect(p.failed || any(ret) == o.Real, "Set-return", "the receiver", "another value")
			if !p.failed && len(keys) > 0 && r.Chance(1, 5) {
				// the very same argument slice spread into a second call: same fields again, native values converted afresh
				vals2 := make([]model.Val, len(vals))
				for i, v := range vals {
					vals2[i] = v
					if wasNative[i] {
						vals2[i] = h.ModelFromSpec(v.Ref.ToSpec())
					}
				}
				p.c.Count("argument_slices_reused")
				p.step("Set", fmt.Sprintf("%s.Set(the same argument slice again: %s)", o.Name(), showPairs(keys, vals2)), false, func() {
					for i := range keys {
						o.M[keys[i]] = vals2[i]
					}
					real.Set(args...)
				})
			}
		case op < 26: // Set with an odd argument count: panics, nothing applied
			args := []any{pickKey(), 1, pickKey()}
			desc := fmt.Sprintf("%s.Set(%q, 1, %q) [odd count]", o.Name(), args[0], args[2])
			switch r.Intn(6) {
			case 0: // a lone argument of every shape, also ones that look like a bundle of pairs
				lone := []any{pickKey(), map[string]any{"b": 2, "a": "x"}, map[string]int{"n": 1}, []any{"k", 1}, []string{"k", "v"}, 1, nil, at.NewObject("k", 1), map[string]any{}}[r.Intn(9)]
				args = []any{lone}
				desc = fmt.Sprintf("%s.Set(%T %v) [one argument]", o.Name(), lone, lone)
				p.c.Count("set_with_one_argument")
			case 1:
				args = []any{pickKey(), 1, pickKey(), 2, pickKey()}
				desc = fmt.Sprintf("%s.Set(5 arguments) [odd count]", o.Name())
			case 2: // odd count whose last argument is a map / slice
				args = []any{pickKey(), 1, map[string]any{"z": 1}}
				desc = fmt.Sprintf("%s.Set(%q, 1, map[z:1]) [odd count]", o.Name(), args[0])
			}
			p.step("Set-odd", desc, true, func() { real.Set(args...) })
		case op < 30: // Set with a non-string key at pair k: panics; any applied prefix of the pairs is accepted
			k0, v0 := pickKey(), scalarVal(r)
			bad := []any{1, 2.5, nil, true, []byte("k"), at.NewList(1, 2), at.NewObject("a", 1), time.Second, errors.New("k"), []string{"k"}, 'k', struct{}{}, keyName(k0), keyName(""), keyText{k0}, &k0}[r.Intn(16)]
			var args []any
			pos := r.Intn(2)
			var bv any = 1
			if r.Chance(1, 3) {
				bv = []any{nil, bad, "", 0, false}[r.Intn(5)] // a pair that looks unused (nil, nil), a key that is its own value
				if bad == nil {
					bv = nil
				}
			}
			if pos == 0 {
				args = []any{bad, bv, k0, h.Arg(v0)}
			} else {
				args = []any{k0, h.Arg(v0), bad, bv}
			}
			p.op = "Set-badkey"
			p.trace = append(p.trace, fmt.Sprintf("%s.Set(%v) [non-string key at pair %d]", o.Name(), args, pos))
			p.c.SetAdd("ops", "Set-badkey")
			pan, _ := drive.Protect(func() { real.Set(args...) })
			if !pan {
				p.fail("missing-panic:Set-badkey", "panic on a non-string key", "returned normally")
				break
			}
			p.c.Count("predicted_panics")
			if pos == 1 {
				// pair 0 may or may not have been applied before the panic
				if h.CheckAll() != "" {
					old, had := o.M[k0]
					o.M[k0] = v0
					if d := h.CheckAll(); d != "" {
						if had {
							o.M[k0] = old
						} else {
							delete(o.M, k0)
						}
						p.fail("model-mismatch-after:Set-badkey", "the object unchanged or with the pairs before the bad key applied", d)
					}
				}
			} else {
				p.checkHeap()
			}
		case op < 38: // Unset (missing keys are a no-op)
			if r.Chance(1, 12) {
				// no key at all - no argument, a nil slice, an empty slice - and likewise a Set without pairs: nothing changes
				p.step("Unset", fmt.Sprintf("%s.Unset() / Set() without arguments", o.Name()), false, func() {
					switch r.Intn(4) {
					case 0:
						real.Unset()
					case 1:
						real.Unset([]string(nil)...)
					case 2:
						real.Unset([]string{}...)
					default:
						real.Set()
					}
				})
				continue
			}
			k := r.Range(1, 3)
			keys := make([]string, k)
			for i := range keys {
				keys[i] = pickKey()
			}
			if len(o.M) > 0 && r.Chance(1, 5) {
				// a key that is a list of existing keys, a pattern, or an existing key with something around it: a key of its own
				var have []string
				for key := range o.M {
					have = append(have, key)
				}
				sort.Strings(have)
				a, b := have[r.Intn(len(have))], have[r.Intn(len(have))]
				sep := []string{",", ", ", " ", ";", "|", "/", "\n", "\x00", "+"}[r.Intn(9)]
				keys[0] = []string{a + sep + b, a + sep, sep + a, "*", a + "*", "[" + a + "]", strings.ToUpper(a), " " + a, a + " "}[r.Intn(9)]
				p.c.Count("unset_of_keys_made_of_existing_keys")
			}
			given := append([]string{}, keys...)
			p.step("Unset", fmt.Sprintf("%s.Unset(%q)", o.Name(), keys), false, func() {
				for _, key := range keys {
					delete(o.M, key)
				}
				real.Unset(keys...)
			})
			p.expect(p.failed || fmt.Sprint(keys) == fmt.Sprint(given), "argument-slice-modified:Unset", fmt.Sprintf("the caller's slice %q as it was", given), fmt.Sprintf("%q", keys))
		case op < 40:
			p.step("Clear", o.Name()+".Clear()", false, func() {
				o.M = map[string]model.Val{}
				real.Clear()
			})
		case op < 48: // Merge
			other := os[r.Intn(len(os))]
			res := h.NewObj(nil)
			expect := map[string]model.Val{}
			for k, v := range o.M {
				expect[k] = v
			}
			fromArg := map[string]bool{}
			for k, v := range other.M {
				expect[k] = v
				fromArg[k] = true
			}
			p.step("Merge", fmt.Sprintf("%s = %s.Merge(%s)", res.Name(), o.Name(), other.Name()), false, func() {
				ret := real.Merge(other.Object())
				p.adoptResultRef(res, ret, expect, "Merge", fromArg)
			})
		case op < 56: // Pluck
			k := r.Intn(4)
			keys := make([]string, k)
			missing := false
			expect := map[string]model.Val{}
			for i := range keys {
				keys[i] = pickKey()
				if v, ok := o.M[keys[i]]; ok {
					expect[keys[i]] = v
				} else {
					missing = true
				}
			}
			res := h.NewObj(nil)
			given := append([]string{}, keys...)
			p.step("Pluck", fmt.Sprintf("%s = %s.Pluck(%q)", res.Name(), o.Name(), keys), missing, func() {
				var ret at.Object
				if len(keys) == 0 && r.Bool() {
					ret = real.Pluck() // no argument at all (a nil variadic) is no key, like an empty slice
				} else {
					ret = real.Pluck(keys...)
				}
				p.adoptResult(res, ret, expect, "Pluck")
			})
			p.expect(p.failed || fmt.Sprint(keys) == fmt.Sprint(given), "argument-slice-modified:Pluck", fmt.Sprintf("the caller's slice %q as it was", given), fmt.Sprintf("%q", keys))
		case op < 60:
			c06NewObject(p)
		case op < 66: // mutate a nested list through its alias
			if ls := p.lists(); len(ls) > 0 {
				l := ls[r.Intn(len(ls))]
				if r.Bool() || len(l.E) == 0 {
					c05Add(p, l, []model.Val{p.anyVal(l, 2)})
				} else {
					c05Pop(p, l)
				}
			}
		default:
			c06Observe(p, o, pickKey())
		}
		if len(h.Nodes) > 40 {
			break
		}
	}
}

func c06Observe(p *prog, o *model.Node, key string) {
	r, h := p.r, p.h
	real := o.Object()
	cur, has := o.M[key]
	switch r.Intn(10) {
	case 0:
		var got any
		pan := p.step("Get", fmt.Sprintf("%s.Get(%q)", o.Name(), key), !has, func() { got = real.Get(key) })
		if !pan && has && !p.failed {
			if d := h.MatchVal(got, cur); d != "" {
				p.fail("observer-mismatch:Get", cur.String(), d)
			}
		}
	case 1, 2:
		kinds := []spec.Kind{spec.Obj, spec.List, spec.Str, spec.Bool, spec.Int, spec.Float}
		k := kinds[r.Intn(len(kinds))]
		if has && r.Bool() && cur.K != spec.Nil {
			k = cur.K
		}
		want := !has || cur.K != k
		var got any
		pan := p.step("Get"+k.String(), fmt.Sprintf("%s.Get<%s>(%q)", o.Name(), k, key), want, func() {
			switch k {
			case spec.Obj:
				got = real.GetObject(key)
			case spec.List:
				got = real.GetList(key)
			case spec.Str:
				got = real.GetString(key)
			case spec.Bool:
				got = real.GetBool(key)
			case spec.Int:
				got = real.GetInt(key)
			case spec.Float:
				got = real.GetFloat(key)
			}
		})
		if !pan && !want && !p.failed {
			if d := h.MatchVal(got, cur); d != "" {
				p.fail("observer-mismatch:typed-getter", cur.String(), d)
			}
		}
	case 3:
		var t at.Type
		var ex bool
		pan := p.step("TypeOf/KeyExists", fmt.Sprintf("%s.TypeOf/KeyExists(%q)", o.Name(), key), false, func() { t, ex = real.TypeOf(key), real.KeyExists(key) })
		if !pan && !p.failed {
			want := at.TypeUndefined
			if has {
				want = drive.TypeOfKind(cur.K)
			}
			p.expect(t == want && ex == has, "TypeOf/KeyExists", fmt.Sprintf("%v/%v", want, has), fmt.Sprintf("%v/%v", t, ex))
		}
	case 4: // Keys: a set, each key once
		var keys at.List
		pan := p.step("Keys", o.Name()+".Keys()", false, func() { keys = real.Keys() })
		if !pan && !p.failed {
			var got []string
			ok := true
			drive.Protect(func() {
				for i := 0; i < keys.Count(); i++ {
					got = append(got, keys.GetString(i))
				}
			})
			sort.Strings(got)
			want := o.SortedKeys()
			if len(got) != len(want) {
				ok = false
			} else {
				for i := range got {
					if got[i] != want[i] {
						ok = false
					}
				}
			}
			p.expect(ok, "Keys", fmt.Sprintf("%q", want), fmt.Sprintf("%q", got))
			// the returned list is the caller's: modifying it must not show up in the object or in later Keys() calls
			drive.Protect(func() {
				keys.Add("ghost-key")
				if keys.Count() > 1 {
					keys.Delete(0)
				}
			})
			p.checkHeap()
			if !p.failed && len(o.M) > 0 && r.Chance(1, 2) {
				// one key leaves, another comes (the number of fields is what it was), nothing is read in between, and the
				// keys are asked for again: they are the keys of now
				ks := o.SortedKeys()
				victim := ks[r.Intn(len(ks))]
				fresh := fmt.Sprintf("swapped-in-%d", len(p.trace))
				v := scalarVal(r)
				p.trace = append(p.trace, fmt.Sprintf("%s.Unset(%q).Set(%q, %s); Keys() again", o.Name(), victim, fresh, v))
				p.c.Count("keys_asked_again_after_a_swap")
				var again at.List
				pan, msg := drive.Protect(func() {
					real.Unset(victim)
					real.Set(fresh, h.Arg(v))
					again = real.Keys()
				})
				delete(o.M, victim)
				o.M[fresh] = v
				if pan {
					p.fail("unexpected-panic:Keys", "no panic", "panic: "+msg)
				} else {
					var got2 []string
					drive.Protect(func() {
						for i := 0; i < again.Count(); i++ {
							got2 = append(got2, again.GetString(i))
						}
					})
					sort.Strings(got2)
					p.expect(fmt.Sprintf("%q", got2) == fmt.Sprintf("%q", o.SortedKeys()), "Keys", fmt.Sprintf("%q", o.SortedKeys()), fmt.Sprintf("%q", got2))
					p.checkHeap()
				}
			}
		}
	case 5: // Values: the multiset of the field values
		var vals at.List
		pan := p.step("Values", o.Name()+".Values()", false, func() { vals = real.Values() })
		if !pan && !p.failed {
			want := make([]model.Val, 0, len(o.M))
			for _, v := range o.M {
				want = append(want, v)
			}
			okAll := vals.Count() == len(want)
			if okAll {
				used := make([]bool, len(want))
				for i := 0; i < vals.Count(); i++ {
					var g any
					drive.Protect(func() { g = vals.Get(i) })
					found := false
					for j, w := range want {
						if !used[j] && (w.Ref == nil || w.Ref.Real != nil) && h.MatchVal(g, w) == "" {
							used[j], found = true, true
							break
						}
					}
					if !found {
						okAll = false
					}
				}
			}
			p.expect(okAll, "Values", o.Show(), spec.Trunc(vals.String(), 300))
			drive.Protect(func() {
				vals.Add("ghost-value")
				vals.Reverse()
			})
			p.checkHeap()
		}
	case 6: // Dict
		var d map[string]any
		pan := p.step("Dict", o.Name()+".Dict()", false, func() { d = real.Dict() })
		if !pan && !p.failed {
			ok := len(d) == len(o.M)
			for k, v := range o.M {
				g, has := d[k]
				if !has || h.MatchVal(g, v) != "" {
					ok = false
				}
			}
			p.expect(ok, "Dict", o.Show(), fmt.Sprintf("%d entries", len(d)))
			d["ghost-key"] = 1
			for k := range d {
				d[k] = "scribbled"
			}
			p.checkHeap()
		}
	case 7, 8: // Contains / KeyOf
		var v model.Val
		if len(o.M) > 0 && r.Chance(2, 3) {
			ks := o.SortedKeys()
			v = o.M[ks[r.Intn(len(ks))]]
			if v.Ref != nil && v.Ref.Real != nil && r.Chance(1, 2) {
				// an equal but distinct container: containers are held by reference, so it is not "contained"
				v = model.Ref(p.h.FromSpec(v.Ref.ToSpec()))
				p.c.Count("lookups_of_equal_but_distinct_containers")
			}
		} else {
			v = p.anyVal(nil, 3)
		}
		present := false
		for _, e := range o.M {
			if e.Same(v) {
				present = true
			}
		}
		var gotC bool
		pan := p.step("Contains", fmt.Sprintf("%s.Contains(%s)", o.Name(), v), false, func() { gotC = real.Contains(h.Arg(v)) })
		if !pan && !p.failed {
			p.expect(gotC == present, "Contains", fmt.Sprint(present), fmt.Sprint(gotC))
		}
		if p.failed {
			return
		}
		var gotK string
		pan = p.step("KeyOf", fmt.Sprintf("%s.KeyOf(%s)", o.Name(), v), !present, func() { gotK = real.KeyOf(h.Arg(v)) })
		if !pan && present && !p.failed {
			e, ok := o.M[gotK]
			p.expect(ok && e.Same(v), "KeyOf", "a key whose value is "+v.String(), fmt.Sprintf("%q", gotK))
		}
	default:
		var cnt int
		var emp bool
		pan := p.step("Count/Empty", o.Name()+".Count()/Empty()", false, func() { cnt, emp = real.Count(), real.Empty() })
		if !pan && !p.failed {
			p.expect(cnt == len(o.M) && emp == (len(o.M) == 0), "Count/Empty", fmt.Sprintf("%d/%v", len(o.M), len(o.M) == 0), fmt.Sprintf("%d/%v", cnt, emp))
		}
	}
}

func selfC06(s *fw.SelfCheck) {
	h := &model.Heap{}
	o := h.NewObj(at.NewObject("a", 1, "", "x"))
	o.M["a"] = model.Int(1)
	o.M[""] = model.Str("x")
	s.Expect(h.CheckAll() == "", "object heap check rejects a faithful model: "+h.CheckAll())
	o.M["b"] = model.Nil()
	s.Expect(h.CheckAll() != "", "object heap check misses a missing key")
	delete(o.M, "b")
	delete(o.M, "")
	s.Expect(h.CheckAll() != "", "object heap check misses an extra key")
	o.M[""] = model.Str("y")
	s.Expect(h.CheckAll() != "", "object heap check misses a changed value")
}

// keyName is a string-like type of the caller's own: its values are not strings, Set panics on them as keys.
type keyName string

// keyText prints as a key but is not a string either.
type keyText struct{ s string }

func (k keyText) String() string { return k.s }
