package mon

import (
	"fmt"
	"math"
	"regexp"
	"runtime"
	"sort"
	"strings"
	"sync"
	"sync/atomic"
	"time"

	at "github.com/DanielSvub/anytype"

	"verifharness/internal/drive"
	"verifharness/internal/fw"
	"verifharness/internal/rng"
	"verifharness/internal/spec"
)

func init() { register(&Monitor{ID: "C15", Run: runC15, Self: selfC15}) }

// delay plan of one callback: how it perturbs itself before it starts working and before it returns.
type delayPlan struct {
	pre, post int // 0 none, 1..8 Gosched count, 9..12 spin, 13.. sleep microseconds
}

func doDelay(d int) {
	switch {
	case d <= 0:
	case d <= 8:
		for i := 0; i < d; i++ {
			runtime.Gosched()
		}
	case d <= 12:
		x := 0
		for i := 0; i < (d-8)*2000; i++ {
			x += i
		}
		_ = x
	default:
		time.Sleep(time.Duration(d-12) * 20 * time.Microsecond)
	}
}

func genDelay(r *rng.R) int {
	switch r.Intn(6) {
	case 0, 1:
		return 0
	case 2, 3:
		return r.Range(1, 8)
	case 4:
		return r.Range(9, 12)
	default:
		return r.Range(13, 18)
	}
}

// hook perturbation (caller side / worker exit side), driven by a precomputed table.
var hookTablePtr atomic.Pointer[[]int]
var hookIdx int64
var hookSites sync.Map

func setHookTable(t []int) {
	tt := append([]int{}, t...)
	hookTablePtr.Store(&tt)
	atomic.StoreInt64(&hookIdx, 0)
}

func hookFn(site string) {
	hookSites.Store(site, true)
	tp := hookTablePtr.Load()
	if tp == nil || len(*tp) == 0 {
		return
	}
	i := atomic.AddInt64(&hookIdx, 1)
	doDelay((*tp)[int(i)%len(*tp)])
}

// installHook is set by hooks_on.go when the library is built with the verif tag.
var installHook func(f func(string)) bool

type asyncEvent struct {
	start bool
	slot  int
}

// asyncLog is the harness-side event log of one asynchronous call (own mutex; the monitor's state is not the race).
type asyncLog struct {
	// the 64-bit counters come first: on 32-bit platforms only the first word of an allocated struct is guaranteed to be
	// aligned for the atomic operations (the harness's own "unaligned 64-bit atomic operation" was the reason why C15 had
	// no 386 pass until round 15)
	nEnded  int64
	active  int64
	maxAct  int64
	mu      sync.Mutex
	events  []asyncEvent
	started []int32
	ended   []int32
	wrong   []string
}

func permString(p []int) string {
	s := make([]string, len(p))
	for i, x := range p {
		s[i] = fmt.Sprint(x)
	}
	return strings.Join(s, ",")
}

// asyncCase describes one ForEachAsync / MapAsync execution.
type asyncCase struct {
	n           int
	procs       int
	plans       []delayPlan
	startTarget []int // position -> slot, for n <= 5 (nil otherwise)
	endTarget   []int
	hookDelays  []int
}

func (ac *asyncCase) describe(kind string) string {
	return fmt.Sprintf("%s over %d elements, GOMAXPROCS=%d, delay plans %v, target start order %v, target finish order %v, caller-side hook delays %v",
		kind, ac.n, ac.procs, ac.plans, ac.startTarget, ac.endTarget, ac.hookDelays)
}

func genAsyncCase(c *fw.Ctx, r *rng.R) *asyncCase {
	ac := &asyncCase{}
	ac.n = []int{0, 1, 2, 3, 4, 5, 5, 8, 16, 33, 64, r.Range(0, 64), r.Range(0, 64), 200}[r.Intn(14)]
	procs := []int{1, 4, 2*runtime.NumCPU() + 1}
	if !c.Quick() {
		procs = []int{1, 2, 4, 16, runtime.NumCPU() + 1, 4 * runtime.NumCPU()}
	}
	ac.procs = procs[r.Intn(len(procs))]
	ac.plans = make([]delayPlan, ac.n)
	for i := range ac.plans {
		ac.plans[i] = delayPlan{genDelay(r), genDelay(r)}
	}
	if ac.n >= 2 && ac.n <= 5 && r.Chance(2, 3) {
		ac.startTarget = r.Perm(ac.n)
		ac.endTarget = r.Perm(ac.n)
	}
	for i := r.Intn(8); i > 0; i-- {
		ac.hookDelays = append(ac.hookDelays, genDelay(r))
	}
	return ac
}

const targetYieldBudget = 300

// body is what every callback does: follow the target orders (bounded waiting), log, perturb.
func (ac *asyncCase) body(lg *asyncLog, slot int) {
	if slot < 0 || slot >= ac.n {
		lg.mu.Lock()
		lg.wrong = append(lg.wrong, fmt.Sprintf("callback for an unknown element (slot %d)", slot))
		lg.mu.Unlock()
		return
	}
	doDelay(ac.plans[slot].pre)
	if ac.startTarget != nil {
		// wait (boundedly) until my predecessors in the target start order have started
		pos := indexOf(ac.startTarget, slot)
		for y := 0; y < targetYieldBudget; y++ {
			ok := true
			for _, p := range ac.startTarget[:pos] {
				if atomic.LoadInt32(&lg.started[p]) == 0 {
					ok = false
					break
				}
			}
			if ok {
				break
			}
			runtime.Gosched()
		}
	}
	lg.mu.Lock()
	lg.events = append(lg.events, asyncEvent{true, slot})
	lg.mu.Unlock()
	atomic.AddInt32(&lg.started[slot], 1)
	a := atomic.AddInt64(&lg.active, 1)
	for {
		m := atomic.LoadInt64(&lg.maxAct)
		if a <= m || atomic.CompareAndSwapInt64(&lg.maxAct, m, a) {
			break
		}
	}
	doDelay(ac.plans[slot].post)
	if ac.endTarget != nil {
		pos := indexOf(ac.endTarget, slot)
		for y := 0; y < targetYieldBudget; y++ {
			ok := true
			for _, p := range ac.endTarget[:pos] {
				if atomic.LoadInt32(&lg.ended[p]) == 0 {
					ok = false
					break
				}
			}
			if ok {
				break
			}
			runtime.Gosched()
		}
	}
	atomic.AddInt64(&lg.active, -1)
	lg.mu.Lock()
	lg.events = append(lg.events, asyncEvent{false, slot})
	lg.mu.Unlock()
	atomic.AddInt32(&lg.ended[slot], 1)
	atomic.AddInt64(&lg.nEnded, 1)
}

func indexOf(p []int, x int) int {
	for i, v := range p {
		if v == x {
			return i
		}
	}
	return len(p)
}

// quiesce waits (bounded number of yields) until the goroutine count is back to the baseline.
func quiesce(base int) bool {
	for y := 0; y < 20000; y++ {
		if runtime.NumGoroutine() <= base {
			return true
		}
		runtime.Gosched()
		if y%100 == 99 {
			time.Sleep(50 * time.Microsecond)
		}
	}
	return runtime.NumGoroutine() <= base
}

func runC15(c *fw.Ctx) {
	hooks := installHook != nil && installHook(hookFn)
	if hooks {
		c.Count("hook_installed")
	}
	defer runtime.GOMAXPROCS(runtime.GOMAXPROCS(0))
	smoke := false
	// (1) ForEachAsync: exactly once per element with the matching pair, returns after all callbacks returned
	c.Cases("foreach-async", c.N(400, 100000), false, func(i int, r *rng.R) {
		ac := genAsyncCase(c, r)
		onList := r.Chance(3, 5)
		c15ForEach(c, r, ac, onList)
	})
	// exhaustive target orders for n <= 4 in the thorough tier (all start x finish permutations)
	if !c.Quick() {
		var all [][2][]int
		for n := 2; n <= 4; n++ {
			ps := permutations(n)
			for _, a := range ps {
				for _, b := range ps {
					all = append(all, [2][]int{a, b})
				}
			}
		}
		c.Cases("foreach-async-all-orders", len(all), true, func(i int, r0 *rng.R) {
			r := rng.New(c.Seed, "C15/all-orders", i)
			n := len(all[i][0])
			ac := &asyncCase{n: n, procs: []int{1, 4}[i%2], plans: make([]delayPlan, n), startTarget: all[i][0], endTarget: all[i][1]}
			c15ForEach(c, r, ac, i%3 != 0)
		})
	}
	// rendezvous: the callbacks meet at a barrier, i.e. each waits until all n have started. Worker goroutines may be
	// delayed relative to each other in any way, so this is a legal schedule: it needs all n callbacks in flight at once
	c.Cases("foreach-async-rendezvous", c.N(30, 1500), false, func(i int, r *rng.R) {
		n := []int{2, 3, 5, 8, 17, 33, 64, 100}[r.Intn(8)]
		if !c.Race && i%10 == 3 {
			n = 10500 // more callbacks in flight at once than a process may have threads (not under the race detector: 8128 goroutines)
		}
		procs := []int{1, 1, 2, 4, 16}[r.Intn(5)]
		onList := r.Bool()
		// the state of the rest of the process is not the container's business: now and then 12 000 other goroutines are
		// parked while the call runs (not under the race detector, whose runtime ends the process beyond 8128 live
		// goroutines), or GOMAXPROCS is above the number of cores
		crowd := 0
		if !c.Race && r.Chance(1, 4) {
			crowd = 12000
		}
		if r.Chance(1, 4) {
			procs = []int{runtime.NumCPU() + 1, 2*runtime.NumCPU() + 1, 4 * runtime.NumCPU()}[r.Intn(3)]
		}
		nested := 0
		if n <= 100 && r.Chance(1, 3) {
			nested = 1 + r.Intn(2)
		}
		in := func() string {
			return fmt.Sprintf("ForEachAsync (list=%v) over %d elements at GOMAXPROCS=%d (%d cores, %d other goroutines parked) where every callback waits until all %d callbacks have started%s", onList, n, procs, runtime.NumCPU(), crowd, n,
				[]string{"", "; the call is made by each of the two callbacks of an outer List.ForEachAsync", "; the call is made by each of the three callbacks of an outer Object.MapAsync"}[nested])
		}
		watchedFor(c, 25*time.Second, in, func() {
			runtime.GOMAXPROCS(procs)
			setHookTable(nil)
			if crowd > 0 {
				park := make(chan struct{})
				var parked sync.WaitGroup
				for j := 0; j < crowd; j++ {
					parked.Add(1)
					go func() { defer parked.Done(); <-park }()
				}
				defer func() { close(park); parked.Wait() }()
				c.Count("rendezvous_calls_in_a_crowded_process")
			}
			// element values: distinct numbers, equal numbers, or ONE container instance / a few instances stored at many
			// positions (elements are elements: equal or identical values do not make their callbacks wait for each other)
			shape := r.Intn(4)
			a, b := at.NewObject("row", 1), at.NewList("row")
			valueOf := func(j int) any {
				switch shape {
				case 0:
					return j
				case 1:
					return 7
				case 2:
					return a
				default:
					return []any{a, b, j}[j%3]
				}
			}
			call := func() {
				var started int64
				all := make(chan struct{})
				var once sync.Once
				body := func() {
					if atomic.AddInt64(&started, 1) == int64(n) {
						once.Do(func() { close(all) })
					}
					<-all
				}
				if onList {
					vals := make([]any, n)
					for j := range vals {
						vals[j] = valueOf(j)
					}
					at.NewList(vals...).ForEachAsync(func(int, any) { body() })
				} else {
					o := at.NewObject()
					for j := 0; j < n; j++ {
						o.Set(fmt.Sprintf("k%d", j), valueOf(j))
					}
					o.ForEachAsync(func(string, any) { body() })
				}
			}
			switch {
			case nested == 1: // the call is made by the callbacks of another asynchronous call, each with a barrier of its own
				at.NewList("outer", "call").ForEachAsync(func(int, any) { call() })
			case nested == 2:
				at.NewObject("outer", 1, "call", 2, "third", 3).MapAsync(func(string, any) any { call(); return nil })
			default:
				call()
			}
			c.Count(fmt.Sprintf("rendezvous_nesting/%d", nested))
			c.Count(fmt.Sprintf("rendezvous_value_shape/%d", shape))
			c.Count("rendezvous_calls")
			c.Max("max_simultaneously_active_callbacks", int64(n))
			c.DistinctHash(spec.Hash(in()))
		})
	})
	// one callback is held back for a long time (quick: 7 s, thorough: 40 s) while the others are long done: the call is
	// still there when the harness lets the callback go. The verdict does not depend on the clock: "the call returned while
	// a callback had not" is a fact of the event order; the clock only says how long the harness keeps looking.
	c.Cases("foreach-async-held-callback", c.N(2, 6), true, func(i int, r *rng.R) {
		hold := 7 * time.Second
		if !c.Quick() {
			hold = 40 * time.Second
		}
		n := []int{1, 2, 5, 3, 9, 17}[i%6]
		onList := i%2 == 0
		held := r.Intn(n)
		in := func() string {
			return fmt.Sprintf("ForEachAsync (list=%v) over %d elements; callback number %d does not return for %v, the others return at once", onList, n, held, hold)
		}
		guard(c, in, func() {
			setHookTable(nil)
			release := make(chan struct{})
			returned := make(chan struct{})
			var calls int64
			body := func() {
				if atomic.AddInt64(&calls, 1)-1 == int64(held) {
					<-release
				}
			}
			go func() {
				defer close(returned)
				drive.Protect(func() {
					if onList {
						vals := make([]any, n)
						for j := range vals {
							vals[j] = j
						}
						at.NewList(vals...).ForEachAsync(func(int, any) { body() })
					} else {
						o := at.NewObject()
						for j := 0; j < n; j++ {
							o.Set(fmt.Sprintf("k%d", j), j)
						}
						o.ForEachAsync(func(string, any) { body() })
					}
				})
			}()
			early := false
			select {
			case <-returned:
				early = true
			case <-time.After(hold):
			}
			close(release)
			<-returned
			c.Count("held_callback_calls")
			c.DistinctHash(spec.Hash(in()))
			if early {
				c.Violate("foreach-async-returns-before-callbacks", in(), "the call returns only after every callback has returned", "it returned while the held callback was still waiting")
			}
		})
	})
	// a goroutine that has nothing to do with the call is started while the call runs and outlives it: the call returns
	// all the same once its callbacks have returned. "It does not return" is decided by steps, not by the clock alone: after
	// the last callback has returned the harness yields the processor two million times AND at least ten seconds pass
	// before it gives up waiting; then it lets the stranger go and the call may finish.
	c.Cases("async-with-an-outliving-goroutine", c.N(6, 120), false, func(i int, r *rng.R) {
		n := []int{1, 3, 8}[i%3]
		onList := (i/3)%2 == 0
		useMap := r.Bool()
		in := func() string {
			return fmt.Sprintf("%s (list=%v) over %d elements; the first callback starts a goroutine of the application that stays alive after the call", map[bool]string{false: "ForEachAsync", true: "MapAsync"}[useMap], onList, n)
		}
		guard(c, in, func() {
			setHookTable(nil)
			runtime.GOMAXPROCS([]int{1, 4}[r.Intn(2)])
			stop := make(chan struct{})
			strangerDone := make(chan struct{})
			var calls, finished int64
			body := func() {
				if atomic.AddInt64(&calls, 1) == 1 {
					go func() { defer close(strangerDone); <-stop }()
				}
				atomic.AddInt64(&finished, 1)
			}
			returned := make(chan struct{})
			go func() {
				defer close(returned)
				drive.Protect(func() {
					if onList {
						vals := make([]any, n)
						for j := range vals {
							vals[j] = j
						}
						l := at.NewList(vals...)
						if useMap {
							l.MapAsync(func(int, any) any { body(); return 1 })
						} else {
							l.ForEachAsync(func(int, any) { body() })
						}
					} else {
						o := at.NewObject()
						for j := 0; j < n; j++ {
							o.Set(fmt.Sprintf("k%d", j), j)
						}
						if useMap {
							o.MapAsync(func(string, any) any { body(); return 1 })
						} else {
							o.ForEachAsync(func(string, any) { body() })
						}
					}
				})
			}()
			stuck := false
			started := time.Now()
			yields := 0
		wait:
			for {
				select {
				case <-returned:
					break wait
				default:
				}
				runtime.Gosched()
				if atomic.LoadInt64(&finished) == int64(n) {
					yields++
				}
				if yields >= 2000000 && time.Since(started) >= 10*time.Second {
					stuck = true
					break wait
				}
			}
			close(stop)
			<-strangerDone
			<-returned
			c.Count("calls_with_an_outliving_goroutine")
			c.DistinctHash(spec.Hash(in() + fmt.Sprint(i)))
			if stuck {
				c.Violate("async-call-does-not-return", in(), "the call returns once all its callbacks have returned", "all callbacks had returned, the harness yielded 2 000 000 times over more than 10 s, and the call was still running; it returned when the unrelated goroutine ended")
			}
		})
	})
	// (2) MapAsync == Map for pure functions (incl. functions that map nested containers asynchronously themselves)
	c.Cases("map-async", c.N(200, 40000), false, func(i int, r *rng.R) {
		ac := genAsyncCase(c, r)
		c15Map(c, r, ac, r.Chance(3, 5))
	})
	c.Cases("map-async-nested", c.N(40, 5000), false, func(i int, r *rng.R) {
		c15MapNested(c, r)
	})
	// (3) concurrent read-only operations on one shared container
	c.Cases("readers", c.N(100, 20000), false, func(i int, r *rng.R) {
		c15Readers(c, r)
	})
	_ = smoke
	hookSites.Range(func(k, v any) bool {
		c.SetAdd("hook_sites_hit", k.(string))
		return true
	})
}

var goroutineHdr = regexp.MustCompile(`(?m)^goroutine (\d+) \[([^\]]*)\]:$`)

// libraryGoroutineStates parses a full goroutine dump and returns "id:state" for every goroutine that has a library frame.
func libraryGoroutineStates(dump string) (states []string, allBlocked bool) {
	allBlocked = true
	for _, g := range strings.Split(dump, "\n\n") {
		if !strings.Contains(g, "DanielSvub/anytype.") {
			continue
		}
		m := goroutineHdr.FindStringSubmatch(g)
		if m == nil {
			continue
		}
		st := m[2]
		if i := strings.Index(st, ","); i >= 0 {
			st = st[:i] // drop "N minutes"
		}
		states = append(states, m[1]+":"+st)
		switch st {
		case "semacquire", "sync.Mutex.Lock", "sync.WaitGroup.Wait", "sync.RWMutex.Lock", "sync.RWMutex.RLock", "sync.Cond.Wait", "chan receive", "chan send", "select", "select (no cases)":
		default:
			allBlocked = false
		}
	}
	sort.Strings(states)
	return
}

func fullDump() string {
	buf := make([]byte, 1<<20)
	n := runtime.Stack(buf, true)
	return string(buf[:n])
}

// watched runs a case body on its own goroutine. If it has not returned after a generous period (90 s) the goroutine states are
// inspected: when every goroutine inside library code is blocked on a synchronisation primitive and two dumps taken a
// second apart show the same blocked set, nothing can ever release them - that state (not the elapsed time) is the
// deadlock verdict. Anything else after the period is only inconclusive.
func watched(c *fw.Ctx, in func() string, body func()) { watchedFor(c, 90*time.Second, in, body) }

func watchedFor(c *fw.Ctx, period time.Duration, in func() string, body func()) {
	done := make(chan struct{})
	go func() {
		defer close(done)
		guard(c, in, body)
	}()
	deadline := time.NewTimer(period)
	defer deadline.Stop()
	select {
	case <-done:
		return
	case <-deadline.C:
	}
	s1, b1 := libraryGoroutineStates(fullDump())
	time.Sleep(time.Second)
	select {
	case <-done:
		return
	default:
	}
	d2 := fullDump()
	s2, b2 := libraryGoroutineStates(d2)
	if b1 && b2 && len(s1) > 0 && strings.Join(s1, " ") == strings.Join(s2, " ") {
		c.ViolateX("async-call-deadlocks", in(), "the call returns", fmt.Sprintf("all %d goroutines inside library code are blocked on synchronisation primitives and stay so: %v", len(s2), s2), spec.Trunc(d2, 6000))
	} else {
		c.Inconclusive(fmt.Sprintf("a case did not return within the watch period but the library goroutines are not all blocked (%v): %s", s2, spec.Trunc(in(), 300)))
	}
	c.Stop()
}

func permutations(n int) [][]int {
	var out [][]int
	var rec func(p []int, used int)
	rec = func(p []int, used int) {
		if len(p) == n {
			out = append(out, append([]int{}, p...))
			return
		}
		for i := 0; i < n; i++ {
			if used>>uint(i)&1 == 0 {
				rec(append(p, i), used|1<<uint(i))
			}
		}
	}
	rec(nil, 0)
	return out
}

func c15Values(r *rng.R, n int) []any {
	vals := make([]any, n)
	for i := range vals {
		switch r.Intn(7) {
		case 0:
			vals[i] = at.NewList(i)
		case 1:
			vals[i] = at.NewObject("i", i)
		case 2:
			vals[i] = nil
		case 3:
			vals[i] = float64(i) + 0.5
			if r.Chance(1, 3) { // zeros of either sign: the function's result is the stored one, also where it compares equal to the argument
				vals[i] = math.Copysign(0, float64(1-2*r.Intn(2)))
			}
		case 4:
			vals[i] = fmt.Sprintf("s%d", i%3) // duplicates
		default:
			vals[i] = i % 4 // duplicates: the pairing (index, value) still has to be right
		}
	}
	return vals
}

func c15ForEach(c *fw.Ctx, r *rng.R, ac *asyncCase, onList bool) {
	kind := "Object.ForEachAsync"
	if onList {
		kind = "List.ForEachAsync"
	}
	in := func() string { return ac.describe(kind) }
	watched(c, in, func() {
		runtime.GOMAXPROCS(ac.procs)
		vals := c15Values(r, ac.n)
		lg := &asyncLog{started: make([]int32, ac.n), ended: make([]int32, ac.n)}
		setHookTable(ac.hookDelays)
		base := runtime.NumGoroutine()
		var endedAtReturn int64
		var keys []string
		if onList {
			l, _ := buildReceiverList(r, vals)
			ret := l.ForEachAsync(func(i int, v any) {
				slot := i
				if i < 0 || i >= ac.n || !eqSlot(v, vals[i]) {
					lg.mu.Lock()
					lg.wrong = append(lg.wrong, fmt.Sprintf("callback got the pair (%d, %s) but element %d is %s", i, showSlot(v), i, showSlot(safeIdx(vals, i))))
					lg.mu.Unlock()
				}
				ac.body(lg, slot)
			})
			endedAtReturn = atomic.LoadInt64(&lg.nEnded)
			if any(ret) != any(l) {
				c.Violate("foreachasync-return", in(), "the receiver", "another value")
			}
		} else {
			o := at.NewObject()
			for i, v := range vals {
				k := fmt.Sprintf("key%04d", i)
				keys = append(keys, k)
				o.Set(k, v)
			}
			ret := o.ForEachAsync(func(k string, v any) {
				slot := sort.SearchStrings(keys, k)
				if slot >= len(keys) || keys[slot] != k || !eqSlot(v, vals[slot]) {
					lg.mu.Lock()
					lg.wrong = append(lg.wrong, fmt.Sprintf("callback got the pair (%q, %s) which is not a field of the object", k, showSlot(v)))
					lg.mu.Unlock()
					slot = -1
				}
				ac.body(lg, slot)
			})
			endedAtReturn = atomic.LoadInt64(&lg.nEnded)
			if any(ret) != any(o) {
				c.Violate("foreachasync-return", in(), "the receiver", "another value")
			}
		}
		c.Count("async_calls")
		c.Count(fmt.Sprintf("procs/%d", ac.procs))
		if endedAtReturn != int64(ac.n) {
			c.Violate("foreachasync-returns-before-callbacks-finished", in(), fmt.Sprintf("all %d callbacks have returned when ForEachAsync returns", ac.n), fmt.Sprintf("%d had returned", endedAtReturn))
		}
		if !quiesce(base) {
			c.Count("quiesce_incomplete")
		}
		lg.mu.Lock()
		defer lg.mu.Unlock()
		if len(lg.wrong) > 0 {
			c.Violate("foreachasync-wrong-pair", in(), "every callback receives an (index/key, value) pair of the container", strings.Join(lg.wrong, "; "))
			return
		}
		var startOrder, endOrder []int
		for _, e := range lg.events {
			if e.start {
				startOrder = append(startOrder, e.slot)
			} else {
				endOrder = append(endOrder, e.slot)
			}
		}
		for s := 0; s < ac.n; s++ {
			if lg.started[s] != 1 || lg.ended[s] != 1 {
				c.Violate("foreachasync-not-exactly-once", in(), "one call per element", fmt.Sprintf("element %d: %d calls started, %d finished; start order %v", s, lg.started[s], lg.ended[s], startOrder))
				return
			}
		}
		if len(startOrder) != ac.n || len(endOrder) != ac.n {
			c.Violate("foreachasync-not-exactly-once", in(), fmt.Sprintf("%d calls", ac.n), fmt.Sprintf("%d started, %d finished", len(startOrder), len(endOrder)))
			return
		}
		c.Max("max_simultaneously_active_callbacks", lg.maxAct)
		if ac.n >= 2 && ac.n <= 5 {
			c.SetAdd(fmt.Sprintf("start_orders_n%d", ac.n), permString(startOrder))
			c.SetAdd(fmt.Sprintf("finish_orders_n%d", ac.n), permString(endOrder))
			c.DistinctHash(spec.Hash(fmt.Sprintf("%v|%v|%v|%d", onList, startOrder, endOrder, ac.procs)))
		} else {
			c.DistinctHash(spec.Hash(in()))
		}
		if ac.startTarget != nil {
			c.Count("targets_set")
			if permString(startOrder) == permString(ac.startTarget) {
				c.Count("start_targets_realised")
			}
			if permString(endOrder) == permString(ac.endTarget) {
				c.Count("finish_targets_realised")
			}
		}
		if c.WantSample() && ac.n >= 3 && ac.n <= 5 {
			c.Sample(map[string]any{"call": kind, "n": ac.n, "GOMAXPROCS": ac.procs, "observed_start_order": startOrder, "observed_finish_order": endOrder, "target_start_order": ac.startTarget})
		}
	})
}

func safeIdx(v []any, i int) any {
	if i < 0 || i >= len(v) {
		return "<out of range>"
	}
	return v[i]
}

// pureFn is the pure table function used for Map/MapAsync comparisons.
func pureFn(i int, v any) any {
	switch x := v.(type) {
	case int:
		// some results are nil or native Go slices / maps (the library converts them to fresh containers)
		switch (x + i) % 9 {
		case 3:
			return nil
		case 5:
			return []any{x, "n", []int{i}}
		case 7:
			return map[string]any{"x": x, "i": i}
		case 8:
			return []string{fmt.Sprint(x)}
		}
		return x*7 + i
	case string:
		return fmt.Sprintf("%s@%d", x, i)
	case float64:
		if i%3 == 1 {
			return -x
		}
		return x / 4
	case nil:
		return i
	}
	return v // containers are passed through (identity)
}

// sameMapped: two Map results hold the same thing slot by slot: equal scalars, the identical passed-through container, or
// (for containers the library created from a native result) distinct containers with the same content.
func sameMapped(a, b any, given ...any) bool {
	ta, tb := top(a), top(b)
	// given: the containers the receiver held (what a function can pass through): such a container in one result is the
	// identical one in the other; only containers the library made from native results are compared by their content
	passedThrough := func(x any) bool {
		for _, g := range given {
			switch g.(type) {
			case at.List, at.Object:
				if sameValue(g, x) {
					return true
				}
			}
		}
		return false
	}
	slot := func(x, y any) bool {
		if eqSlot(x, y) {
			return true
		}
		switch x.(type) {
		case at.List, at.Object:
			switch y.(type) {
			case at.List, at.Object:
				if passedThrough(x) || passedThrough(y) {
					return false
				}
				return stringCanon(x) == stringCanon(y)
			}
		}
		return false
	}
	switch x := ta.(type) {
	case []any:
		y, ok := tb.([]any)
		if !ok || len(x) != len(y) {
			return false
		}
		for i := range x {
			if !slot(x[i], y[i]) {
				return false
			}
		}
		return true
	case map[string]any:
		y, ok := tb.(map[string]any)
		if !ok || len(x) != len(y) {
			return false
		}
		for k, e := range x {
			f, ok := y[k]
			if !ok || !slot(e, f) {
				return false
			}
		}
		return true
	}
	return false
}

func c15Map(c *fw.Ctx, r *rng.R, ac *asyncCase, onList bool) {
	kind := "Object.MapAsync"
	if onList {
		kind = "List.MapAsync"
	}
	in := func() string { return ac.describe(kind) }
	watched(c, in, func() {
		runtime.GOMAXPROCS(ac.procs)
		vals := c15Values(r, ac.n)
		setHookTable(ac.hookDelays)
		var calls int64
		if onList {
			l, _ := buildReceiverList(r, vals)
			seq := l.Map(func(i int, v any) any { return pureFn(i, v) })
			before := top(l)
			par := l.MapAsync(func(i int, v any) any {
				atomic.AddInt64(&calls, 1)
				if i >= 0 && i < ac.n {
					doDelay(ac.plans[i].pre)
				}
				return pureFn(i, v)
			})
			c.Count("async_calls")
			if calls != int64(ac.n) {
				c.Violate("mapasync-not-exactly-once", in(), fmt.Sprintf("%d calls", ac.n), fmt.Sprintf("%d calls", calls))
			}
			if !sameMapped(seq, par, vals...) {
				c.Violate("mapasync-differs-from-map", in(), stringCanon(seq), stringCanon(par))
			}
			if !sameTop(before, top(l)) {
				c.Violate("mapasync-modifies-receiver", in(), showTop(before), showTop(top(l)))
			}
			if any(par) == any(l) {
				c.Violate("mapasync-returns-receiver", in(), "a new list", "the receiver")
			}
			if r.Chance(1, 4) {
				// the receiver becomes a structure whose type redefines Get (every answer is masked): what the asynchronous
				// calls hand to the function is what the synchronous ones hand to it
				ml := &MaskedList{List: l}
				ml.Init(ml)
				c.Count("async_calls_on_structures_that_redefine_get")
				seqM := ml.Map(func(i int, v any) any { return pureFn(i, v) })
				parM := ml.MapAsync(func(i int, v any) any { return pureFn(i, v) })
				if !sameMapped(seqM, parM, vals...) {
					c.Violate("mapasync-differs-from-map", in()+"\nthe receiver is a derived structure whose type redefines Get", stringCanon(seqM), stringCanon(parM))
				}
				var mu sync.Mutex
				var seqP, parP []string
				ml.ForEach(func(i int, v any) { seqP = append(seqP, fmt.Sprintf("%d:%T:%v", i, v, stringCanon(at.NewList(v)))) })
				ml.ForEachAsync(func(i int, v any) {
					mu.Lock()
					parP = append(parP, fmt.Sprintf("%d:%T:%v", i, v, stringCanon(at.NewList(v))))
					mu.Unlock()
				})
				sort.Strings(seqP)
				sort.Strings(parP)
				if strings.Join(seqP, "|") != strings.Join(parP, "|") {
					c.Violate("foreachasync-differs-from-foreach", in()+"\nthe receiver is a derived structure whose type redefines Get", spec.Trunc(strings.Join(seqP, " | "), 600), spec.Trunc(strings.Join(parP, " | "), 600))
				}
			}
		} else {
			o := at.NewObject()
			pos := map[string]int{}
			for i, v := range vals {
				k := fmt.Sprintf("key%04d", i)
				pos[k] = i
				o.Set(k, v)
			}
			seq := o.Map(func(k string, v any) any { return pureFn(pos[k], v) })
			par := o.MapAsync(func(k string, v any) any {
				atomic.AddInt64(&calls, 1)
				if p, ok := pos[k]; ok {
					doDelay(ac.plans[p].pre)
				}
				return pureFn(pos[k], v)
			})
			c.Count("async_calls")
			if calls != int64(ac.n) {
				c.Violate("mapasync-not-exactly-once", in(), fmt.Sprintf("%d calls", ac.n), fmt.Sprintf("%d calls", calls))
			}
			if !sameMapped(seq, par, vals...) {
				c.Violate("mapasync-differs-from-map", in(), stringCanon(seq), stringCanon(par))
			}
			if r.Chance(1, 4) {
				mo := &MaskedObject{Object: o}
				mo.Init(mo)
				c.Count("async_calls_on_structures_that_redefine_get")
				seqM := mo.Map(func(k string, v any) any { return pureFn(pos[k], v) })
				parM := mo.MapAsync(func(k string, v any) any { return pureFn(pos[k], v) })
				if !sameMapped(seqM, parM, vals...) {
					c.Violate("mapasync-differs-from-map", in()+"\nthe receiver is a derived structure whose type redefines Get", stringCanon(seqM), stringCanon(parM))
				}
			}
		}
		c.DistinctHash(spec.Hash(in()))
	})
}

// c15MapNested: a pure mapping function that itself maps nested containers asynchronously (recursive tree mapping).
// A deadlock inside the library is decided by the watched() state inspection.
func c15MapNested(c *fw.Ctx, r *rng.R) {
	tree := spec.GenTree(r, spec.Opts{MaxDepth: 3, MaxWidth: 4, Root: spec.List, ScalarBias: 4, SafeKeys: true})
	in := func() string { return "recursive MapAsync over " + tree.Canon() }
	watched(c, in, func() {
		runtime.GOMAXPROCS([]int{1, 4}[r.Intn(2)])
		setHookTable(nil)
		real := drive.BuildList(nil, tree)
		var seqF func(i int, v any) any
		seqF = func(i int, v any) any {
			switch x := v.(type) {
			case at.List:
				return x.Map(seqF)
			case at.Object:
				return x.Map(func(k string, w any) any { return seqF(len(k), w) })
			case int:
				return x + 1
			}
			return v
		}
		var parF func(i int, v any) any
		parF = func(i int, v any) any {
			switch x := v.(type) {
			case at.List:
				return x.MapAsync(parF)
			case at.Object:
				return x.MapAsync(func(k string, w any) any { return parF(len(k), w) })
			case int:
				return x + 1
			}
			return v
		}
		c.MarkInput(in())
		seq := real.Map(seqF)
		par := real.MapAsync(parF)
		c.Count("nested_async_calls")
		c.DistinctHash(spec.Hash(in()))
		if a, b := stringCanon(seq), stringCanon(par); a != b {
			c.Violate("mapasync-differs-from-map", in(), a, b)
		}
	})
}

// readOp is a read-only operation rendered to a canonical string.
type readOp struct {
	name string
	f    func(l at.List, o at.Object) string
}

func canonOfAny(v any) string {
	switch x := v.(type) {
	case at.List:
		return stringCanon(x)
	case at.Object:
		return stringCanon(x)
	}
	return fmt.Sprintf("%v", v)
}

func protectStr(f func() string) (s string) {
	defer func() {
		if r := recover(); r != nil {
			s = fmt.Sprintf("panic: %v", r)
		}
	}()
	return f()
}

var readOps = []readOp{
	{"List.String", func(l at.List, o at.Object) string { return l.String() }},
	{"List.FormatString", func(l at.List, o at.Object) string { return l.FormatString(2) }},
	{"List.FormatString(0)", func(l at.List, o at.Object) string { return l.FormatString(0) }},
	{"Object.FormatString(0)-shape", func(l at.List, o at.Object) string {
		t := o.FormatString(0)
		return fmt.Sprint(len(t), strings.Count(t, "\n"))
	}},
	{"Object.String-shape", func(l at.List, o at.Object) string {
		t := o.String()
		return fmt.Sprint(len(t), strings.Count(t, "\n"))
	}},
	{"List.Clone", func(l at.List, o at.Object) string { return stringCanon(l.Clone()) }},
	{"List.Equals", func(l at.List, o at.Object) string { return fmt.Sprint(l.Equals(l), l.Equals(at.NewList())) }},
	{"List.SubList", func(l at.List, o at.Object) string { return stringCanon(l.SubList(0, 0)) }},
	{"List.Concat", func(l at.List, o at.Object) string { return stringCanon(l.Concat(at.NewList(1, 2))) }},
	{"List.Concat(self)", func(l at.List, o at.Object) string { return stringCanon(l.Concat(l)) }},
	{"List.Filter", func(l at.List, o at.Object) string {
		return stringCanon(l.Filter(func(v any) bool { _, ok := v.(int); return ok }))
	}},
	{"List.FilterInts", func(l at.List, o at.Object) string {
		return stringCanon(l.FilterInts(func(x int) bool { return x%2 == 0 }))
	}},
	{"List.Map", func(l at.List, o at.Object) string { return stringCanon(l.Map(pureFn)) }},
	{"List.MapAsync", func(l at.List, o at.Object) string { return stringCanon(l.MapAsync(pureFn)) }},
	{"List.Reduce", func(l at.List, o at.Object) string {
		return fmt.Sprint(l.ReduceInts(1, func(a, b int) int { return a*31 + b }), l.Reduce(0, func(a, v any) any { return a.(int) + 1 }))
	}},
	{"List.Slices", func(l at.List, o at.Object) string {
		return fmt.Sprint(len(l.Slice()), l.IntSlice(), l.StringSlice(), l.FloatSlice(), l.BoolSlice(), len(l.ObjectSlice()), len(l.ListSlice()))
	}},
	{"List.NativeSlice", func(l at.List, o at.Object) string { return fmt.Sprint(len(l.NativeSlice())) }},
	{"List.getters", func(l at.List, o at.Object) string {
		var b strings.Builder
		for i := -1; i <= l.Count(); i++ {
			fmt.Fprint(&b, l.TypeOf(i), ";")
			if i >= 0 && i < l.Count() {
				fmt.Fprint(&b, showSlotStable(l.Get(i)), ";")
			}
		}
		return b.String()
	}},
	{"List.TF", func(l at.List, o at.Object) string {
		return fmt.Sprint(l.TypeOfTF("#0"), l.TypeOfTF("#1#0"), l.TypeOfTF("#2.i"), l.TypeOfTF("#99"), protectStr(func() string { return canonOfAny(l.GetTF("#0")) }))
	}},
	{"List.TF-through-nil-and-scalars", func(l at.List, o at.Object) string {
		// reads whose path runs into a nil / scalar / missing slot: Undefined and a panic, and nothing is created on the way
		n := l.Count()
		var b strings.Builder
		for _, p := range []string{fmt.Sprintf("#%d.k", n-2), fmt.Sprintf("#%d#0", n-3), fmt.Sprintf("#%d#0.x", n-2), "#0.k.k", fmt.Sprintf("#%d", n), fmt.Sprintf("#%d#1", n-1)} {
			fmt.Fprint(&b, l.TypeOfTF(p), protectStr(func() string { return canonOfAny(l.GetTF(p)) }), ";")
		}
		for _, p := range []string{".nil.k", ".nil#0", ".padded#0.k", ".padded#1#0", ".str.k", ".int#0", ".padded#3"} {
			fmt.Fprint(&b, o.TypeOfTF(p), protectStr(func() string { return canonOfAny(o.GetTF(p)) }), ";")
		}
		return b.String()
	}},
	{"List.numeric", func(l at.List, o at.Object) string {
		return fmt.Sprint(l.IntSum(), l.IntProd(), l.IntMin(), l.IntMax(), l.Count(), l.Empty(), l.AllInts(), l.AllNumeric(), l.Contains(1), l.IndexOf(2))
	}},
	{"List.ForEach", func(l at.List, o at.Object) string {
		n := 0
		l.ForEach(func(i int, v any) { n += i })
		l.ForEachInt(func(x int) { n += x })
		return fmt.Sprint(n)
	}},
	{"List.ForEachAsync", func(l at.List, o at.Object) string {
		var n int64
		l.ForEachAsync(func(i int, v any) { atomic.AddInt64(&n, int64(i)) })
		return fmt.Sprint(n)
	}},
	{"List.String-next-to-empty-results", func(l at.List, o at.Object) string {
		// printing is interleaved with the printing of fresh empty and tiny containers (results of filters that match nothing,
		// new lists and objects): whatever the printing code shares between calls is shared between goroutines here
		e1 := l.Filter(func(any) bool { return false }).String()
		s1 := l.String()
		e2 := at.NewList().String() + at.NewObject().String() + o.Pluck().String() + at.NewList(1).String()
		s2 := o.String()
		f1 := at.NewList().FormatString(2) + at.NewObject().FormatString(0)
		p, err := at.ParseObject(s2)
		return fmt.Sprint(e1, e2, f1, s1 == l.String(), len(s2), err == nil && p.Equals(o))
	}},
	{"List.typed-views", func(l at.List, o at.Object) string {
		var b strings.Builder
		fmt.Fprint(&b, stringCanon(l.MapInts(func(x int) any { return x + 1 })), stringCanon(l.MapStrings(func(x string) any { return x + "!" })), stringCanon(l.MapFloats(func(x float64) any { return x * 2 })),
			stringCanon(l.MapBools(func(x bool) any { return !x })), stringCanon(l.MapObjects(func(x at.Object) any { return x.Count() })), stringCanon(l.MapLists(func(x at.List) any { return x.Count() })),
			stringCanon(l.MapValues(func(v any) any { return nil })), l.FilterObjects(func(at.Object) bool { return true }).Count(), l.FilterLists(func(at.List) bool { return true }).Count(),
			stringCanon(l.FilterStrings(func(x string) bool { return x != "" })), stringCanon(l.FilterFloats(func(x float64) bool { return x > 0 })),
			l.ReduceStrings("", func(a, x string) string { return a + x }), l.ReduceFloats(0, func(a, x float64) float64 { return a + x }),
			l.AllStrings(), l.AllFloats(), l.AllBools(), l.AllObjects(), l.AllLists(), l.Ego() == l)
		n := 0
		l.ForEachValue(func(any) { n++ })
		l.ForEachString(func(string) { n += 2 })
		l.ForEachFloat(func(float64) { n += 3 })
		l.ForEachBool(func(bool) { n += 5 })
		l.ForEachObject(func(at.Object) { n += 7 })
		l.ForEachList(func(at.List) { n += 11 })
		fmt.Fprint(&b, n)
		return b.String()
	}},
	{"List.float-aggregates", func(l at.List, o at.Object) string {
		// on a list that is not all numeric these may panic or skip: whatever they do alone, they do in company
		return fmt.Sprint(protectStr(func() string { return fmt.Sprint(l.Sum()) }), protectStr(func() string { return fmt.Sprint(l.Prod()) }), protectStr(func() string { return fmt.Sprint(l.Min()) }),
			protectStr(func() string { return fmt.Sprint(l.Max()) }), protectStr(func() string { return fmt.Sprint(l.Avg()) }))
	}},
	{"Object.typed-views", func(l at.List, o at.Object) string {
		n := 0
		o.ForEachValue(func(any) { n++ })
		o.ForEachInt(func(int) { n += 2 })
		o.ForEachString(func(string) { n += 3 })
		o.ForEachObject(func(at.Object) { n += 5 })
		o.ForEachList(func(at.List) { n += 7 })
		o.ForEachFloat(func(float64) { n += 11 })
		o.ForEachBool(func(bool) { n += 13 })
		return fmt.Sprint(n, stringCanon(o.MapInts(func(x int) any { return x + 1 })), stringCanon(o.MapStrings(func(x string) any { return x + "!" })), stringCanon(o.MapObjects(func(x at.Object) any { return x.Count() })),
			stringCanon(o.MapLists(func(x at.List) any { return x.Count() })), stringCanon(o.MapValues(func(v any) any { return true })), o.KeyExists("str"), o.Empty(), o.Ego() == o) // (KeyOf is left out: for a value held under several keys its answer follows the map iteration order)
	}},
	{"Object.String", func(l at.List, o at.Object) string {
		s := o.String()
		p, err := at.ParseObject(s)
		return fmt.Sprint(len(s), err == nil && p.Equals(o))
	}},
	{"Object.FormatString", func(l at.List, o at.Object) string { return fmt.Sprint(len(o.FormatString(1))) }},
	{"Object.Clone", func(l at.List, o at.Object) string { return stringCanon(o.Clone()) }},
	{"Object.Equals", func(l at.List, o at.Object) string { return fmt.Sprint(o.Equals(o), o.Equals(at.NewObject())) }},
	{"Object.Merge", func(l at.List, o at.Object) string { return stringCanon(o.Merge(at.NewObject("zz", 1))) }},
	{"Object.Pluck", func(l at.List, o at.Object) string {
		return protectStr(func() string { return stringCanon(o.Pluck("key00")) })
	}},
	{"Object.KeysValuesDict", func(l at.List, o at.Object) string {
		return fmt.Sprint(o.Keys().Count(), o.Values().Count(), len(o.Dict()), len(o.NativeDict()), o.Count(), o.KeyExists("key01"), o.TypeOf("key01"), o.Contains(1))
	}},
	{"Object.Map", func(l at.List, o at.Object) string {
		return stringCanon(o.Map(func(k string, v any) any { return pureFn(len(k), v) }))
	}},
	{"Object.MapAsync", func(l at.List, o at.Object) string {
		return stringCanon(o.MapAsync(func(k string, v any) any { return pureFn(len(k), v) }))
	}},
	{"Object.TF", func(l at.List, o at.Object) string {
		return fmt.Sprint(o.TypeOfTF(".key00"), o.TypeOfTF(".key01#0"), o.TypeOfTF(".nested.list#1"), o.TypeOfTF(".nope"), protectStr(func() string { return canonOfAny(o.GetTF(".nested.list")) }))
	}},
	{"Object.ForEach", func(l at.List, o at.Object) string {
		n := 0
		o.ForEach(func(k string, v any) { n += len(k) })
		return fmt.Sprint(n)
	}},
	{"Object.ForEachAsync", func(l at.List, o at.Object) string {
		var n int64
		o.ForEachAsync(func(k string, v any) { atomic.AddInt64(&n, int64(len(k))) })
		return fmt.Sprint(n)
	}},
}

func showSlotStable(v any) string {
	switch x := v.(type) {
	case at.List:
		return "list:" + stringCanon(x)
	case at.Object:
		return "object:" + stringCanon(x)
	}
	return fmt.Sprintf("%T:%v", v, v)
}

func c15Readers(c *fw.Ctx, r *rng.R) {
	n := r.Range(1, 12)
	if r.Chance(1, 10) {
		n = []int{40, 100, 300}[r.Intn(3)] // many fields / elements
	}
	g := r.Range(2, 16)
	procs := []int{1, 4, 16}[r.Intn(3)]
	deep := 0
	if r.Chance(1, 10) {
		deep = []int{1200, 2000}[r.Intn(2)]
		g = r.Range(10, 16)
	}
	in := func() string {
		return fmt.Sprintf("%d goroutines running read-only operations on one shared list (%d elements) and one shared object, GOMAXPROCS=%d", g, n, procs)
	}
	watched(c, in, func() {
		runtime.GOMAXPROCS(procs)
		setHookTable(nil)
		// two identical containers are built from copies of the same PRNG state: the twin gives the sequential
		// results, the shared one is not touched by any read before the concurrent phase starts (so that the
		// concurrent reads are the first reads it ever sees)
		build := func(rr *rng.R) (at.List, at.Object, string) {
			vv := c15Values(rr, n)
			l, how := buildReceiverList(rr, vv)
			shared := at.NewList(1, "x", 2.5)
			l.Add(shared)                                                  // a nested list that also sits in the object (shared child)
			l.SetTF(fmt.Sprintf("#%d", l.Count()+2), "behind nil padding") // nil slots written by the padding of SetTF
			o := at.NewObject("nested", at.NewObject("list", at.NewList(1, 2, 3)), "shared", shared, "str", "s", "int", 1, "nil", nil, "padded", at.NewList().SetTF("#2", 1))
			for i, v := range vv {
				o.Set(fmt.Sprintf("key%02d", i), v)
			}
			if deep > 0 {
				// a deep chain below both containers
				var chain any = at.NewList(1, 2, 3)
				for d := 0; d < deep; d++ {
					if d%2 == 0 {
						chain = at.NewList(chain)
					} else {
						chain = at.NewObject("d", chain)
					}
				}
				l.Add(chain)
				o.Set("deep", chain)
			}
			return l, o, how
		}
		r1, r2 := *r, *r
		twinL, twinO, _ := build(&r1)
		l, o, how := build(&r2)
		*r = r2
		want := make([]string, len(readOps))
		for i, op := range readOps {
			want[i] = protectStr(func() string { return op.f(twinL, twinO) })
		}
		beforeL, beforeO := stringCanon(twinL), stringCanon(twinO)
		// plans per goroutine; in one case of four every goroutine prints (String and FormatString with several
		// indents of the same containers at the same time)
		printersOnly := r.Chance(1, 4)
		var printerOps []int
		for i, op := range readOps {
			if strings.Contains(op.name, "String") {
				printerOps = append(printerOps, i)
			}
		}
		if printersOnly {
			c.Count("reader_cases_printing_only")
		}
		plans := make([][]int, g)
		for i := range plans {
			k := r.Range(5, 25)
			if deep > 0 {
				k = r.Range(3, 6)
			}
			plans[i] = make([]int, k)
			for j := range plans[i] {
				plans[i][j] = r.Intn(len(readOps))
				if printersOnly {
					plans[i][j] = printerOps[r.Intn(len(printerOps))]
				}
			}
		}
		var wg sync.WaitGroup
		var mu sync.Mutex
		var diffs []string
		start := make(chan struct{})
		for i := 0; i < g; i++ {
			wg.Add(1)
			go func(plan []int) {
				defer wg.Done()
				<-start
				for _, oi := range plan {
					got := protectStr(func() string { return readOps[oi].f(l, o) })
					if got != want[oi] {
						mu.Lock()
						if len(diffs) < 5 {
							diffs = append(diffs, fmt.Sprintf("%s: concurrent result %s, sequential result %s", readOps[oi].name, spec.Trunc(got, 300), spec.Trunc(want[oi], 300)))
						}
						mu.Unlock()
					}
				}
			}(plans[i])
		}
		close(start)
		wg.Wait()
		c.Count("reader_cases")
		c.Add("reader_operations", int64(func() int {
			t := 0
			for _, p := range plans {
				t += len(p)
			}
			return t
		}()))
		for _, p := range plans {
			for _, oi := range p {
				c.SetAdd("reader_ops", readOps[oi].name)
			}
		}
		c.SetAdd("reader_receiver_routes", how)
		c.DistinctHash(spec.Hash(fmt.Sprint(plans, n, deep, procs, how)))
		if deep > 0 {
			c.Count("reader_cases_deep")
		}
		if len(diffs) > 0 {
			c.Violate("concurrent-read-differs-from-sequential", in(), "the sequential results", strings.Join(diffs, "\n"))
			return
		}
		if stringCanon(l) != beforeL || stringCanon(o) != beforeO {
			c.Violate("read-only-operation-modifies-container", in(), spec.Trunc(beforeL, 400)+" / "+spec.Trunc(beforeO, 400), spec.Trunc(stringCanon(l), 400)+" / "+spec.Trunc(stringCanon(o), 400))
		}
	})
}

func selfC15(s *fw.SelfCheck) {
	// a fabricated log with a duplicate and a missing call must be noticed by the exactly-once counters
	lg := &asyncLog{started: make([]int32, 3), ended: make([]int32, 3)}
	ac := &asyncCase{n: 3, plans: make([]delayPlan, 3)}
	ac.body(lg, 0)
	ac.body(lg, 0)
	ac.body(lg, 2)
	s.Expect(lg.started[0] == 2 && lg.started[1] == 0 && lg.nEnded == 3, "event log counters broken")
	ac.body(lg, 7)
	s.Expect(len(lg.wrong) == 1, "event log accepts a callback for an unknown element")
	s.Expect(len(permutations(4)) == 24, "permutation enumeration broken")
	// bounded target waiting must not deadlock a sequential implementation: run bodies in reverse target order
	ac2 := &asyncCase{n: 3, plans: make([]delayPlan, 3), startTarget: []int{2, 1, 0}, endTarget: []int{2, 1, 0}}
	lg2 := &asyncLog{started: make([]int32, 3), ended: make([]int32, 3)}
	for i := 0; i < 3; i++ {
		ac2.body(lg2, i)
	}
	s.Expect(lg2.nEnded == 3, "target waiting is not bounded")
}

// MaskedList / MaskedObject: derived structures whose types redefine Get - every answer is masked. What is stored is
// what the traversals hand to their functions, the synchronous and the asynchronous ones alike.
type MaskedList struct{ at.List }

func (m *MaskedList) Get(i int) any { return "masked" }

type MaskedObject struct{ at.Object }

func (m *MaskedObject) Get(k string) any { return "masked" }

