package mon

import (
	"fmt"
	"strconv"
	"strings"

	at "github.com/DanielSvub/anytype"

	"verifharness/internal/drive"
	"verifharness/internal/fw"
	"verifharness/internal/rng"
	"verifharness/internal/spec"
)

func init() { register(&Monitor{ID: "C08", Run: runC08, Self: selfC08}) }

func runC08(c *fw.Ctx) {
	muts := c.N(20, 30)
	S, I, L, O := spec.StrV, spec.IntV, spec.ListV, spec.ObjV
	pins := []*spec.Spec{
		L(I(1), L(I(2)), O("k", I(3))),
		L(S("x"), I(1), L(L(I(1)), O())),
		O("attrs", O(), "rows", L(O(), O("id", I(1)))),
		O(), L(), L(O()), L(L()), O("a", L()),
		L(spec.NilV(), L(I(1))), L(spec.BoolV(true), O("a", L(I(1)))), L(spec.FloatV(1.5), L()),
	}
	c.Cases("pinned", len(pins), true, func(i int, r *rng.R) { c08Case(c, r, pins[i], muts) })
	historyCases(c, "history", 400, 40000, probeClone)
	c.Cases("trees", c.N(1000, 400000), false, func(i int, r *rng.R) {
		t := spec.GenTree(r, spec.Opts{MaxDepth: r.Range(1, 6), MaxWidth: r.Range(1, 5), SafeKeys: r.Bool(), ScalarBias: r.Range(3, 7), Wide: true})
		c08Case(c, r, t, muts)
	})
	c.Cases("several-clones", c.N(400, 100000), false, func(i int, r *rng.R) { c08Several(c, r) })
}

// c08Several: a source and two to four clones of it (clones of clones among them) are written to in turn, at the top
// level and inside nested containers, now and then emptied and refilled. After every write every other holder prints
// what it printed before: a clone shares nothing with anybody, however many clones there are and whatever happened to
// the others.
func c08Several(c *fw.Ctx, r *rng.R) {
	t := spec.GenTree(r, spec.Opts{MaxDepth: r.Range(1, 3), MaxWidth: r.Range(1, 4), SafeKeys: true, ScalarBias: r.Range(3, 8)})
	var trace []string
	in := func() string { return describeTree(t) + "\n  " + strings.Join(trace, "\n  ") }
	guard(c, in, func() {
		holders := []any{drive.Build(r, t)}
		names := []string{"src"}
		for k := r.Range(2, 4); k > 0; k-- {
			from := r.Intn(len(holders))
			var cl any
			switch x := holders[from].(type) {
			case at.List:
				cl = x.Clone()
			case at.Object:
				cl = x.Clone()
			}
			holders = append(holders, cl)
			names = append(names, fmt.Sprintf("c%d", len(holders)-1))
			trace = append(trace, fmt.Sprintf("%s = %s.Clone()", names[len(names)-1], names[from]))
		}
		canon := make([]string, len(holders))
		for j, h := range holders {
			canon[j] = stringCanon(h)
		}
		for step := r.Range(4, 12); step > 0; step-- {
			j := r.Intn(len(holders))
			if r.Chance(1, 5) && len(holders) < 8 {
				// a holder with a history (itself a clone, grown, written to, shrunk) is cloned again: the new clone shows what the
				// holder shows now, and joins the others
				var cl any
				switch x := holders[j].(type) {
				case at.List:
					cl = x.Clone()
				case at.Object:
					cl = x.Clone()
				}
				names = append(names, fmt.Sprintf("c%d", len(holders)))
				trace = append(trace, fmt.Sprintf("%s = %s.Clone()", names[len(names)-1], names[j]))
				if got := stringCanon(cl); got != canon[j] {
					c.Violate("clone-differs-from-original", in(), fmt.Sprintf("a clone that shows what %s shows: %s", names[j], spec.Trunc(canon[j], 400)), spec.Trunc(got, 400))
					return
				}
				holders = append(holders, cl)
				canon = append(canon, canon[j])
				c.Count("clones_of_holders_with_a_history")
				continue
			}
			// the container written to: the holder itself or a container nested in it
			var target any = holders[j]
			where := names[j]
			if snap, err := drive.Walk(holders[j]); err == nil && r.Chance(1, 3) {
				if node, path, ok := pickContainer(r, snap); ok && node != nil {
					target, where = node.Id, names[j]+" at "+rootName(path)
				}
			}
			desc := ""
			drive.Protect(func() {
				switch x := target.(type) {
				case at.List:
					n := x.Count()
					switch op := r.Intn(8); {
					case op == 0:
						x.Add(step)
						desc = "Add"
					case op == 1 && n > 0:
						x.Replace(r.Intn(n), "w")
						desc = "Replace"
					case op == 2 && n > 0:
						x.Delete(r.Intn(n))
						desc = "Delete"
					case op == 3 && n > 1:
						x.Reverse()
						desc = "Reverse"
					case op == 4:
						x.SetTF(fmt.Sprintf("#%d", r.Intn(n+2)), step)
						desc = "SetTF"
					case op == 5:
						x.Clear()
						desc = "Clear"
					case op == 6 && r.Bool():
						x.Add(step, "grown", 2.5, step+1, "beyond four")
						desc = "Add(5 values)"
					case op == 6 && n > 2:
						for x.Count() > 2 {
							x.Pop()
						}
						desc = "Pop down to two"
					case op == 6:
						x.Clear().Add(step, "refilled")
						desc = "Clear, Add"
					case n > 0:
						x.Pop()
						desc = "Pop"
					}
				case at.Object:
					keys := x.Keys().StringSlice()
					switch op := r.Intn(7); {
					case op == 0:
						x.Set(fmt.Sprintf("w%d", step), step)
						desc = "Set(new key)"
					case op == 1 && len(keys) > 0:
						x.Set(keys[r.Intn(len(keys))], "w")
						desc = "Set(existing key)"
					case op == 2 && len(keys) > 0:
						x.Unset(keys[r.Intn(len(keys))])
						desc = "Unset"
					case op == 3:
						x.Clear()
						desc = "Clear"
					case op == 4:
						x.Clear().Set("refilled", step)
						desc = "Clear, Set"
					case op == 5:
						x.Clear().Clear()
						desc = "Clear twice"
					default:
						x.SetTF(fmt.Sprintf(".t%d#1", step), step)
						desc = "SetTF(new key, padded list)"
					}
				}
			})
			if desc == "" {
				continue
			}
			trace = append(trace, where+": "+desc)
			c.Count("writes_among_several_clones")
			for k, h := range holders {
				now := stringCanon(h)
				if k != j && now != canon[k] {
					c.Violate("clone-mutation-leaks", in(), fmt.Sprintf("%s still prints %s", names[k], spec.Trunc(canon[k], 400)), spec.Trunc(now, 400))
					return
				}
				canon[k] = now
			}
		}
		// every holder that is (or contains) a list grows well beyond its size, is rewritten in the middle and shrinks back; a
		// clone taken then shows what the holder shows then - whatever either remembers from when it was a short copy
		for j, h := range holders {
			var lst at.List
			if l, ok := h.(at.List); ok {
				lst = l
			} else if snap, err := drive.Walk(h); err == nil {
				for tries := 0; tries < 6 && lst == nil; tries++ {
					if node, _, ok := pickContainer(r, snap); ok && node != nil {
						if l, isL := node.Id.(at.List); isL {
							lst = l
						}
					}
				}
			}
			if lst == nil {
				continue
			}
			n0 := lst.Count()
			drive.Protect(func() {
				grow := r.Range(3, 9)
				for k := 0; k < grow; k++ {
					lst.Add(fmt.Sprintf("g%d", k))
				}
				switch r.Intn(3) {
				case 0:
					lst.Replace(1+r.Intn(3), "rewritten")
				case 1:
					lst.Insert(1+r.Intn(3), at.NewList("inserted"))
				default:
					lst.Delete(1 + r.Intn(3))
				}
				for lst.Count() > n0 && lst.Count() > r.Range(1, 4) {
					lst.Pop()
				}
			})
			trace = append(trace, fmt.Sprintf("%s: a list in it grows, is rewritten at index 1..3 and shrinks back to %d elements", names[j], lst.Count()))
			for k, hh := range holders {
				now := stringCanon(hh)
				if k != j && now != canon[k] {
					c.Violate("clone-mutation-leaks", in(), fmt.Sprintf("%s still prints %s", names[k], spec.Trunc(canon[k], 400)), spec.Trunc(now, 400))
					return
				}
				canon[k] = now
			}
			var cl any
			switch x := h.(type) {
			case at.List:
				cl = x.Clone()
			case at.Object:
				cl = x.Clone()
			}
			if got := stringCanon(cl); got != canon[j] {
				c.Violate("clone-differs-from-original", in()+fmt.Sprintf("\n  then %s.Clone()", names[j]), fmt.Sprintf("a clone that shows what %s shows: %s", names[j], spec.Trunc(canon[j], 400)), spec.Trunc(got, 400))
				return
			}
			c.Count("clones_of_holders_with_a_history")
		}
		c.Distinct(in())
	})
}

func sharedContainers(a, b *drive.Node) string {
	ma, mb := map[any]string{}, map[any]string{}
	a.Containers(ma, "")
	b.Containers(mb, "")
	for id, pa := range ma {
		if pb, ok := mb[id]; ok {
			return fmt.Sprintf("the container at %q of the original is the identical container at %q of the clone", rootName(pa), rootName(pb))
		}
	}
	return ""
}

func rootName(p string) string {
	if p == "" {
		return "<root>"
	}
	return p
}

// pickContainer selects a random container reachable in the snapshot together with a tree-form path to it
// ("" for the root; ok=false when some key on the way is not addressable).
func pickContainer(r *rng.R, n *drive.Node) (node *drive.Node, path string, pathOK bool) {
	type ent struct {
		n    *drive.Node
		path string
		ok   bool
	}
	var all []ent
	var rec func(x *drive.Node, path string, ok bool)
	rec = func(x *drive.Node, path string, ok bool) {
		if x.K != spec.List && x.K != spec.Obj {
			return
		}
		all = append(all, ent{x, path, ok})
		for i, e := range x.L {
			rec(e, path+"#"+strconv.Itoa(i), ok)
		}
		for _, k := range x.Keys {
			addr := k != "" && !strings.ContainsAny(k, ".#")
			rec(x.M[k], path+"."+k, ok && addr)
		}
	}
	rec(n, "", true)
	e := all[r.Intn(len(all))]
	return e.n, e.path, e.ok
}

func freshValue(r *rng.R) any {
	switch r.Intn(5) {
	case 0:
		return at.NewList(r.Intn(10), "fresh")
	case 1:
		return at.NewObject("fresh", r.Intn(10))
	default:
		return drive.Native(spec.GenScalar(r))
	}
}

// mutate applies one random mutation to the container `node` (found below root at tree-form path `path`).
func mutate(r *rng.R, root any, node *drive.Node, path string, pathOK bool) string {
	v := freshValue(r)
	desc := ""
	useTF := pathOK && r.Chance(1, 3)
	drive.Protect(func() {
		switch x := node.Id.(type) {
		case at.List:
			n := x.Count()
			if useTF {
				idx := r.Intn(n + 3)
				p := path + "#" + strconv.Itoa(idx)
				switch r.Intn(4) {
				case 0:
					if idx < n {
						desc = fmt.Sprintf("root.UnsetTF(%q)", p)
						unsetTF(root, p)
						return
					}
					fallthrough
				case 1:
					p += []string{".newkey", "#1", ".a.b", "#0#0"}[r.Intn(4)]
					fallthrough
				default:
					desc = fmt.Sprintf("root.SetTF(%q, %v)", p, v)
					setTF(root, p, v)
				}
				return
			}
			switch op := r.Intn(8); {
			case op == 0 || n == 0:
				desc = fmt.Sprintf("%s.Add(%v)", rootName(path), v)
				x.Add(v)
			case op == 1:
				i := r.Intn(n + 1)
				desc = fmt.Sprintf("%s.Insert(%d, %v)", rootName(path), i, v)
				x.Insert(i, v)
			case op == 2 || op == 3:
				i := r.Intn(n)
				desc = fmt.Sprintf("%s.Replace(%d, %v)", rootName(path), i, v)
				x.Replace(i, v)
			case op == 4:
				i := r.Intn(n)
				desc = fmt.Sprintf("%s.Delete(%d)", rootName(path), i)
				x.Delete(i)
			case op == 5:
				desc = rootName(path) + ".Pop()"
				x.Pop()
			case op == 6:
				desc = rootName(path) + ".Reverse()"
				x.Reverse()
			default:
				desc = rootName(path) + ".Clear()"
				x.Clear()
			}
		case at.Object:
			keys := node.Keys
			key := "newkey" + strconv.Itoa(r.Intn(3))
			if len(keys) > 0 && r.Bool() {
				key = keys[r.Intn(len(keys))]
			}
			addr := key != "" && !strings.ContainsAny(key, ".#")
			if useTF && addr {
				p := path + "." + key
				switch r.Intn(4) {
				case 0:
					desc = fmt.Sprintf("root.UnsetTF(%q)", p)
					unsetTF(root, p)
				case 1:
					p += []string{".sub", "#2", ".a.b", "#0.z"}[r.Intn(4)]
					fallthrough
				default:
					desc = fmt.Sprintf("root.SetTF(%q, %v)", p, v)
					setTF(root, p, v)
				}
				return
			}
			switch r.Intn(6) {
			case 0:
				desc = fmt.Sprintf("%s.Unset(%q)", rootName(path), key)
				x.Unset(key)
			case 1:
				desc = rootName(path) + ".Clear()"
				x.Clear()
			default:
				desc = fmt.Sprintf("%s.Set(%q, %v)", rootName(path), key, v)
				x.Set(key, v)
			}
		}
	})
	return desc
}

func setTF(root any, p string, v any) {
	switch x := root.(type) {
	case at.List:
		x.SetTF(p, v)
	case at.Object:
		x.SetTF(p, v)
	}
}

func unsetTF(root any, p string) {
	switch x := root.(type) {
	case at.List:
		x.UnsetTF(p)
	case at.Object:
		x.UnsetTF(p)
	}
}

func c08Case(c *fw.Ctx, r *rng.R, tree *spec.Spec, muts int) {
	var trace []string
	in := func() string {
		return describeTree(tree) + "\nmutations after Clone:\n  " + strings.Join(trace, "\n  ")
	}
	guard(c, in, func() {
		orig := drive.Build(r, tree)
		if r != nil && r.Chance(1, 5) {
			// derived structures (user types embedding an Object / List) are containers too: they are stored in the source,
			// with plain containers inside them; the reference content is what the walker sees afterwards
			drive.Protect(func() {
				d1 := NewDObject("own", 1, "inner", at.NewList(1, at.NewObject("deep", 2)))
				d2 := NewDDList(1, at.NewList("x"), at.NewObject("k", at.NewList()))
				switch x := orig.(type) {
				case at.List:
					x.Insert(r.Intn(x.Count()+1), d1)
					x.Add(d2)
				case at.Object:
					x.Set("derived-object", d1, "derived-list", d2)
				}
			})
			if w, err := drive.Walk(orig); err == nil {
				tree = w.ToSpec()
				c.Count("sources_with_derived_structures")
			}
		}
		clone := cloneOf(orig)
		c.Distinct(tree.Canon())
		c.Max("max_depth", int64(tree.Depth()))
		if !equalsOf(clone, orig) || !equalsOf(orig, clone) {
			c.Violate("clone-not-equal", in(), "clone.Equals(original)", "false")
			return
		}
		so, err1 := drive.Walk(orig)
		sc, err2 := drive.Walk(clone)
		if err1 != nil || err2 != nil {
			c.Violate("clone-unwalkable", in(), "consistent containers", fmt.Sprint(err1, err2))
			return
		}
		if d := drive.Diff(sc, tree); d != "" {
			c.Violate("clone-content-differs", in(), "the clone has the original's content", d)
			return
		}
		if d := drive.Diff(so, tree); d != "" {
			c.Violate("clone-modifies-original", in(), "original unchanged by Clone", d)
			return
		}
		if d := sharedContainers(so, sc); d != "" {
			c.Violate("clone-shares-container", in(), "no container reachable from both", d)
			return
		}
		nm := map[any]string{}
		so.Containers(nm, "")
		c.Add("containers_compared", int64(len(nm)))
		if c.WantSample() && tree.Size() > 4 && tree.Size() < 20 {
			c.Sample(map[string]any{"tree": tree.Canon(), "check": "Clone, identity sets disjoint, then mutation history with the other side re-compared each step"})
		}
		// mutation history: mutate one side anywhere, the other side must stay exactly as it was
		sides := []any{orig, clone}
		snaps := []*drive.Node{so, sc}
		for m := 0; m < muts; m++ {
			x := r.Intn(2)
			node, path, ok := pickContainer(r, snaps[x])
			desc := mutate(r, sides[x], node, path, ok)
			if desc == "" {
				continue
			}
			trace = append(trace, []string{"original", "clone"}[x]+": "+desc)
			c.Count("mutations")
			if strings.Contains(desc, "TF(") {
				c.Count("tree_form_mutations")
			}
			other, err := drive.Walk(sides[1-x])
			if err != nil {
				c.Violate("clone-other-side-unwalkable", in(), "consistent", err.Error())
				return
			}
			if d := drive.SameSnapshot(snaps[1-x], other, ""); d != "" {
				c.Violate("clone-mutation-leaks", in(), []string{"clone", "original"}[x]+" unchanged by a mutation of the other side", d)
				return
			}
			mine, err := drive.Walk(sides[x])
			if err != nil {
				// the mutation itself may have been illegal for that state; the other side was still checked
				return
			}
			snaps[x] = mine
			if d := sharedContainers(snaps[0], snaps[1]); d != "" {
				c.Violate("clone-shares-container", in(), "no container reachable from both (after mutations with fresh values only)", d)
				return
			}
		}
	})
}

func selfC08(s *fw.SelfCheck) {
	inner := at.NewList(1)
	a, _ := drive.Walk(at.NewList(inner))
	b, _ := drive.Walk(at.NewList(inner))
	s.Expect(sharedContainers(a, b) != "", "identity check misses a shared nested list")
	c2, _ := drive.Walk(at.NewList(at.NewList(1)))
	s.Expect(sharedContainers(a, c2) == "", "identity check flags distinct containers")
	before, _ := drive.Walk(at.NewList(inner))
	inner.Add(2)
	after, _ := drive.Walk(at.NewList(inner))
	s.Expect(drive.SameSnapshot(before.L[0], after.L[0], "") != "", "snapshot comparison misses a changed nested list")
}
