package mon

import (
	"encoding/json"
	"errors"
	"fmt"
	"math"
	"os"
	"reflect"
	"strings"
	"time"

	at "github.com/DanielSvub/anytype"

	"verifharness/internal/drive"
	"verifharness/internal/fw"
	"verifharness/internal/rng"
	"verifharness/internal/spec"
)

func init() { register(&Monitor{ID: "C12", Run: runC12, Self: selfC12}) }

// norm is the conversion table of the property: Go dynamic type -> (kind, normalised value). ok=false: unsupported.
// Existing containers are reported as ident (stored by identity).
func norm(v any) (s *spec.Spec, ident any, ok bool) {
	s, ident, ok, _ = normD(v)
	return
}

// normD additionally reports outside=true for values the property does not speak about: integers that are not
// representable as the platform int (alone or nested inside a supported map/slice).
func normD(v any) (s *spec.Spec, ident any, ok bool, outside bool) {
	s, ident, ok = norm0(v, &outside)
	return
}

func norm0(v any, outside *bool) (s *spec.Spec, ident any, ok bool) {
	fits := func(x int64) bool { return int64(int(x)) == x }
	norm := func(e any) (*spec.Spec, any, bool) { return norm0(e, outside) }
	switch x := v.(type) {
	case nil:
		return spec.NilV(), nil, true
	case bool:
		return spec.BoolV(x), nil, true
	case string:
		return spec.StrV(x), nil, true
	case int:
		return spec.IntV(x), nil, true
	case int8:
		return spec.IntV(int(x)), nil, true
	case int16:
		return spec.IntV(int(x)), nil, true
	case int32:
		return spec.IntV(int(x)), nil, true
	case int64:
		if !fits(x) {
			*outside = true
			return nil, nil, false
		}
		return spec.IntV(int(x)), nil, true
	case uint8:
		return spec.IntV(int(x)), nil, true
	case uint16:
		return spec.IntV(int(x)), nil, true
	case uint32:
		if uint64(x) > uint64(math.MaxInt) {
			*outside = true
			return nil, nil, false
		}
		return spec.IntV(int(x)), nil, true
	case uint:
		if uint64(x) > uint64(math.MaxInt) {
			*outside = true
			return nil, nil, false
		}
		return spec.IntV(int(x)), nil, true
	case uint64:
		if x > uint64(math.MaxInt) {
			*outside = true
			return nil, nil, false
		}
		return spec.IntV(int(x)), nil, true
	case float64:
		return spec.FloatV(x), nil, true
	case float32:
		return spec.FloatV(float64(x)), nil, true
	case at.Object:
		if x == nil {
			return nil, nil, false
		}
		return nil, x, true
	case at.List:
		if x == nil {
			return nil, nil, false
		}
		return nil, x, true
	case []any:
		out := spec.ListV()
		for _, e := range x {
			c, id, ok := norm(e)
			if !ok || id != nil {
				return nil, nil, false
			}
			out.L = append(out.L, c)
		}
		return out, nil, true
	case map[string]any:
		out := spec.ObjV()
		for k, e := range x {
			c, id, ok := norm(e)
			if !ok || id != nil {
				return nil, nil, false
			}
			out.Set(k, c)
		}
		return out, nil, true
	case []at.Object:
		out := spec.ListV()
		for _, e := range x {
			if e == nil {
				out.L = append(out.L, spec.NilV())
				continue
			}
			w, err := drive.Walk(e)
			if err != nil {
				return nil, nil, false
			}
			out.L = append(out.L, w.ToSpec())
		}
		return out, nil, true
	case []at.List:
		out := spec.ListV()
		for _, e := range x {
			if e == nil {
				out.L = append(out.L, spec.NilV())
				continue
			}
			w, err := drive.Walk(e)
			if err != nil {
				return nil, nil, false
			}
			out.L = append(out.L, w.ToSpec())
		}
		return out, nil, true
	case map[string]at.Object:
		out := spec.ObjV()
		for k, e := range x {
			if e == nil {
				out.Set(k, spec.NilV())
				continue
			}
			w, err := drive.Walk(e)
			if err != nil {
				return nil, nil, false
			}
			out.Set(k, w.ToSpec())
		}
		return out, nil, true
	case map[string]at.List:
		out := spec.ObjV()
		for k, e := range x {
			if e == nil {
				out.Set(k, spec.NilV())
				continue
			}
			w, err := drive.Walk(e)
			if err != nil {
				return nil, nil, false
			}
			out.Set(k, w.ToSpec())
		}
		return out, nil, true
	case []string:
		out := spec.ListV()
		for _, e := range x {
			out.L = append(out.L, spec.StrV(e))
		}
		return out, nil, true
	case []bool:
		out := spec.ListV()
		for _, e := range x {
			out.L = append(out.L, spec.BoolV(e))
		}
		return out, nil, true
	case []int:
		out := spec.ListV()
		for _, e := range x {
			out.L = append(out.L, spec.IntV(e))
		}
		return out, nil, true
	case []float64:
		out := spec.ListV()
		for _, e := range x {
			out.L = append(out.L, spec.FloatV(e))
		}
		return out, nil, true
	case map[string]string:
		out := spec.ObjV()
		for k, e := range x {
			out.Set(k, spec.StrV(e))
		}
		return out, nil, true
	case map[string]bool:
		out := spec.ObjV()
		for k, e := range x {
			out.Set(k, spec.BoolV(e))
		}
		return out, nil, true
	case map[string]int:
		out := spec.ObjV()
		for k, e := range x {
			out.Set(k, spec.IntV(e))
		}
		return out, nil, true
	case map[string]float64:
		out := spec.ObjV()
		for k, e := range x {
			out.Set(k, spec.FloatV(e))
		}
		return out, nil, true
	}
	return nil, nil, false
}

// slot addresses one stored value.
type slot struct {
	l   at.List
	idx int
	o   at.Object
	key string
}

func (s slot) get() any {
	if s.l != nil {
		return s.l.Get(s.idx)
	}
	return s.o.Get(s.key)
}

func (s slot) typeOf() at.Type {
	if s.l != nil {
		return s.l.TypeOf(s.idx)
	}
	return s.o.TypeOf(s.key)
}

// getter calls the typed getter for kind k.
func (s slot) getter(k spec.Kind) (v any, panicked bool) {
	panicked, _ = drive.Protect(func() {
		if s.l != nil {
			switch k {
			case spec.Obj:
				v = s.l.GetObject(s.idx)
			case spec.List:
				v = s.l.GetList(s.idx)
			case spec.Str:
				v = s.l.GetString(s.idx)
			case spec.Bool:
				v = s.l.GetBool(s.idx)
			case spec.Int:
				v = s.l.GetInt(s.idx)
			case spec.Float:
				v = s.l.GetFloat(s.idx)
			}
			return
		}
		switch k {
		case spec.Obj:
			v = s.o.GetObject(s.key)
		case spec.List:
			v = s.o.GetList(s.key)
		case spec.Str:
			v = s.o.GetString(s.key)
		case spec.Bool:
			v = s.o.GetBool(s.key)
		case spec.Int:
			v = s.o.GetInt(s.key)
		case spec.Float:
			v = s.o.GetFloat(s.key)
		}
	})
	return
}

type entryPoint struct {
	name  string
	store func(v any) slot
}

var entryPoints = []entryPoint{
	{"NewList", func(v any) slot { return slot{l: at.NewList(v)} }},
	{"NewList-3", func(v any) slot { return slot{l: at.NewList(0, v, 2), idx: 1} }},
	{"NewListOf", func(v any) slot { return slot{l: at.NewListOf(v, 2), idx: 1} }},
	{"NewListFrom", func(v any) slot { return slot{l: at.NewListFrom([]any{v})} }},
	{"Add", func(v any) slot { return slot{l: at.NewList().Add(v)} }},
	{"Add-3", func(v any) slot { return slot{l: at.NewList("a").Add(1, v, 2), idx: 2} }},
	{"Insert", func(v any) slot { return slot{l: at.NewList(0, 1).Insert(1, v), idx: 1} }},
	{"Insert-end", func(v any) slot { return slot{l: at.NewList(0, 1).Insert(2, v), idx: 2} }},
	{"Insert-into-full-list", func(v any) slot { return slot{l: at.NewListFrom([]any{0, 1, 2}).Insert(1, v), idx: 1} }},
	{"Insert-front-of-full-list", func(v any) slot { return slot{l: at.NewList(0, 1).Concat(at.NewList(2)).Insert(0, v), idx: 0} }},
	{"Replace", func(v any) slot { return slot{l: at.NewList(0).Replace(0, v)} }},
	{"list.SetTF-leaf", func(v any) slot { return slot{l: at.NewList().SetTF("#2", v), idx: 2} }},
	{"list.SetTF-over-object-slot", func(v any) slot {
		return slot{l: at.NewList(at.NewObject("x", 1), 2).SetTF("#0#1", v).GetList(0), idx: 1}
	}},
	{"list.SetTF-over-list-slot", func(v any) slot {
		return slot{o: at.NewList(0, at.NewList(1, 2)).SetTF("#1.k", v).GetObject(1), key: "k"}
	}},
	{"object.SetTF-over-list-slot", func(v any) slot {
		return slot{o: at.NewObject("a", at.NewList(1)).SetTF(".a.k", v).GetObject("a"), key: "k"}
	}},
	{"object.SetTF-over-object-slot", func(v any) slot {
		return slot{l: at.NewObject("a", at.NewObject("x", 1)).SetTF(".a#0", v).GetList("a"), idx: 0}
	}},
	{"list.SetTF-padded-nested", func(v any) slot { return slot{l: at.NewList(1).SetTF("#3#2", v).GetList(3), idx: 2} }},
	{"list.SetTF-padded-nested-object", func(v any) slot {
		return slot{o: at.NewList(1, 2).SetTF("#4#1.k", v).GetList(4).GetObject(1), key: "k"}
	}},
	{"list.SetTF-replace", func(v any) slot { return slot{l: at.NewList(0, 1).SetTF("#1", v), idx: 1} }},
	{"list.SetTF-nested", func(v any) slot { return slot{o: at.NewList().SetTF("#0.k", v).GetObject(0), key: "k"} }},
	{"object.SetTF-leaf", func(v any) slot { return slot{o: at.NewObject().SetTF(".k", v), key: "k"} }},
	{"object.SetTF-nested", func(v any) slot { return slot{l: at.NewObject().SetTF(".k#1", v).GetList("k"), idx: 1} }},
	{"NewObject", func(v any) slot { return slot{o: at.NewObject("k", v), key: "k"} }},
	{"NewObject-2", func(v any) slot { return slot{o: at.NewObject("a", 1, "k", v), key: "k"} }},
	{"NewObject-key-twice", func(v any) slot { return slot{o: at.NewObject("k", "first", "other", 1, "k", v), key: "k"} }},
	{"Set-key-twice", func(v any) slot { return slot{o: at.NewObject("k", 0).Set("k", []any{"first"}, "k", v), key: "k"} }},
	{"list.SetTF-through-nil-slot", func(v any) slot {
		return slot{o: at.NewList(nil, nil, 1).SetTF("#0.k", v).GetObject(0), key: "k"}
	}},
	{"list.SetTF-through-padding", func(v any) slot {
		return slot{l: at.NewList().SetTF("#2.x", 1).SetTF("#1#0", v).GetList(1), idx: 0}
	}},
	{"object.SetTF-through-a-key-that-repeats", func(v any) slot {
		o := at.NewObject("node", at.NewObject("id", 1)).SetTF(".node.node.w", v)
		return slot{o: o.GetObject("node").GetObject("node"), key: "w"}
	}},
	{"object.SetTF-below-a-key-the-root-holds-as-a-scalar", func(v any) slot {
		o := at.NewObject("size", 3, "box", at.NewObject("size", at.NewObject("w", 2.5))).SetTF(".box.size.h", v)
		inner := o.GetObject("box").GetObject("size")
		if !inner.KeyExists("w") || o.TypeOf("size") != at.TypeInt {
			panic("SetTF(\".box.size.h\") replaced what was there: " + o.String())
		}
		return slot{o: inner, key: "h"}
	}},
	{"list.SetTF-through-an-index-that-repeats", func(v any) slot {
		l := at.NewList("s", at.NewList(0, at.NewList("keep"))).SetTF("#1#1#1", v)
		inner := l.GetList(1).GetList(1)
		if inner.Count() != 2 || inner.Get(0) != "keep" {
			panic("SetTF(\"#1#1#1\") replaced what was there: " + l.String())
		}
		return slot{l: inner, idx: 1}
	}},
	{"NewList-the-value-three-times", func(v any) slot { return slot{l: at.NewList(v, v, v), idx: 2} }},
	{"Add-the-value-twice", func(v any) slot { return slot{l: at.NewList(0).Add(v, v), idx: 1} }},
	{"Insert-next-to-itself", func(v any) slot { return slot{l: at.NewList(v).Insert(0, v).Insert(1, v), idx: 1} }},
	{"Set-the-value-under-two-keys", func(v any) slot { return slot{o: at.NewObject().Set("a", v, "b", v), key: "b"} }},
	{"NewListOf-no-copies-then-Add", func(v any) slot {
		l := at.NewListOf(v, 0)
		l.Add(v)
		return slot{l: at.NewList("holder", l).GetList(1), idx: 0}
	}},
	{"list.SetTF-padding-a-list-that-was-longer", func(v any) slot {
		l := at.NewList("a", 1, 2.5, true, at.NewObject("gone", 1), "z")
		l.Pop()
		l.Delete(4, 3)
		l.Pop()
		l.SetTF("#4", v)
		if l.Count() != 5 || l.TypeOf(2) != at.TypeNil || l.Get(3) != nil {
			panic(fmt.Sprintf("the slots SetTF padded between the old end and #4 do not hold nil: the list is %s", l.String()))
		}
		return slot{l: l, idx: 4}
	}},
	{"object.SetTF-through-nil-field", func(v any) slot {
		return slot{l: at.NewObject("a", nil).SetTF(".a#0", v).GetList("a"), idx: 0}
	}},
	{"NewObjectFrom", func(v any) slot { return slot{o: at.NewObjectFrom(map[string]any{"k": v}), key: "k"} }},
	{"Set", func(v any) slot { return slot{o: at.NewObject().Set("k", v), key: "k"} }},
	{"Set-overwrite", func(v any) slot { return slot{o: at.NewObject("k", "old").Set("k", v), key: "k"} }},
	{"Set-overwrite-among-new-keys", func(v any) slot {
		return slot{o: at.NewObject("k", "old").Set("a", 1, "k", v, "b", 2, "c", 3), key: "k"}
	}},
	{"Set-overwrite-in-a-big-object", func(v any) slot {
		return slot{o: at.NewObject("k", "old", "p", 1, "q", 2, "r", 3, "s", 4).Set("k", v, "new", 1), key: "k"}
	}},
	{"list.Map", func(v any) slot { return slot{l: at.NewList(0).Map(func(int, any) any { return v })} }},
	{"list.MapValues", func(v any) slot { return slot{l: at.NewList(0).MapValues(func(any) any { return v })} }},
	{"list.MapInts", func(v any) slot { return slot{l: at.NewList("x", 1).MapInts(func(int) any { return v })} }},
	{"list.MapStrings", func(v any) slot { return slot{l: at.NewList("x", 1).MapStrings(func(string) any { return v })} }},
	{"list.MapFloats", func(v any) slot { return slot{l: at.NewList(1.5).MapFloats(func(float64) any { return v })} }},
	{"list.MapBools", func(v any) slot { return slot{l: at.NewList(true).MapBools(func(bool) any { return v })} }},
	{"list.MapObjects", func(v any) slot {
		return slot{l: at.NewList(at.NewObject()).MapObjects(func(at.Object) any { return v })}
	}},
	{"list.MapLists", func(v any) slot { return slot{l: at.NewList(at.NewList()).MapLists(func(at.List) any { return v })} }},
	{"list.MapAsync", func(v any) slot { return slot{l: at.NewList(0).MapAsync(func(int, any) any { return v })} }},
	{"object.Map", func(v any) slot {
		return slot{o: at.NewObject("k", 0).Map(func(string, any) any { return v }), key: "k"}
	}},
	{"object.MapValues", func(v any) slot {
		return slot{o: at.NewObject("k", 0).MapValues(func(any) any { return v }), key: "k"}
	}},
	{"object.MapInts", func(v any) slot { return slot{o: at.NewObject("k", 0).MapInts(func(int) any { return v }), key: "k"} }},
	{"object.MapStrings", func(v any) slot {
		return slot{o: at.NewObject("k", "s").MapStrings(func(string) any { return v }), key: "k"}
	}},
	{"object.MapAsync", func(v any) slot {
		return slot{o: at.NewObject("k", 0).MapAsync(func(string, any) any { return v }), key: "k"}
	}},
}

func describeGo(v any) string {
	s := fmt.Sprintf("%T(%v)", v, v)
	return spec.Trunc(s, 200)
}

// c12Store stores v through one entry point and checks everything the property says about the stored value.
func c12Store(c *fw.Ctx, ep entryPoint, v any) {
	want, ident, supported, outside := normD(v)
	if outside {
		c.Count("outside_domain_skipped")
		return
	}
	in := func() string { return fmt.Sprintf("%s with %s", ep.name, describeGo(v)) }
	c.Count("stores")
	if c.WantSample() && (ep.name == "list.SetTF-nested" || ep.name == "NewObjectFrom" || ep.name == "list.MapInts") {
		c.Sample(map[string]any{"entry_point": ep.name, "go_value": describeGo(v), "supported": supported})
	}
	c.SetAdd("entry_points", ep.name)
	c.SetAdd("go_types", fmt.Sprintf("%T", v))
	if !supported && strings.HasSuffix(ep.name, "MapAsync") {
		// the rejection panic is raised on a worker goroutine there and ends the process: it cannot be observed
		// in-process, so unsupported values are not driven through the asynchronous variants
		c.Count("unsupported_skipped_async")
		return
	}
	var sl slot
	pan, msg := drive.Protect(func() { sl = ep.store(v) })
	if !supported {
		c.Count("unsupported_values")
		if !pan {
			got := "?"
			drive.Protect(func() { got = fmt.Sprintf("%T", sl.get()) })
			c.Violate("unsupported-value-stored", in(), "panic (value of an unsupported Go type)", "stored; Get returns "+got)
		}
		return
	}
	if pan {
		c.Violate("supported-value-rejected", in(), "stored", "panic: "+msg)
		return
	}
	guard(c, in, func() {
		got := sl.get()
		t := sl.typeOf()
		var kind spec.Kind
		if ident != nil {
			if got != ident {
				c.Violate("container-not-stored-by-identity", in(), "Get returns the identical container", fmt.Sprintf("%T", got))
				return
			}
			if _, isL := ident.(at.List); isL {
				kind = spec.List
			} else {
				kind = spec.Obj
			}
		} else {
			kind = want.K
			// exact dynamic type of what Get returns
			okType := false
			switch want.K {
			case spec.Nil:
				okType = got == nil
			case spec.Bool:
				okType = reflect.TypeOf(got) == reflect.TypeOf(true)
			case spec.Int:
				okType = reflect.TypeOf(got) == reflect.TypeOf(int(0))
			case spec.Float:
				okType = reflect.TypeOf(got) == reflect.TypeOf(float64(0))
			case spec.Str:
				okType = reflect.TypeOf(got) == reflect.TypeOf("")
			case spec.List:
				_, okType = got.(at.List)
			case spec.Obj:
				_, okType = got.(at.Object)
			}
			if !okType {
				c.Violate("get-returns-wrong-go-type", in(), "Go type for kind "+want.K.String(), fmt.Sprintf("%T", got))
				return
			}
			// value
			switch want.K {
			case spec.Bool:
				if got.(bool) != want.B {
					c.Violate("stored-value-differs", in(), fmt.Sprint(want.B), fmt.Sprint(got))
					return
				}
			case spec.Int:
				if got.(int) != want.I {
					c.Violate("stored-value-differs", in(), fmt.Sprint(want.I), fmt.Sprint(got))
					return
				}
			case spec.Float:
				g := got.(float64)
				if !(g == want.F || (math.IsNaN(g) && math.IsNaN(want.F))) {
					c.Violate("stored-value-differs", in(), fmt.Sprint(want.F), fmt.Sprint(g))
					return
				}
			case spec.Str:
				if got.(string) != want.S {
					c.Violate("stored-value-differs", in(), fmt.Sprintf("%q", want.S), fmt.Sprintf("%q", got))
					return
				}
			case spec.List, spec.Obj:
				w, err := drive.Walk(got)
				if err != nil {
					c.Violate("converted-container-unwalkable", in(), "container", err.Error())
					return
				}
				if d := drive.Diff(w, want); d != "" {
					c.Violate("converted-container-differs", in(), want.Canon(), d)
					return
				}
			}
		}
		if t != drive.TypeOfKind(kind) {
			c.Violate("typeof-disagrees", in(), fmt.Sprintf("TypeOf = kind %s", kind), fmt.Sprintf("%d", t))
			return
		}
		// exactly the matching typed getter succeeds
		for _, k := range []spec.Kind{spec.Obj, spec.List, spec.Str, spec.Bool, spec.Int, spec.Float} {
			gv, gp := sl.getter(k)
			if k == kind {
				if gp {
					c.Violate("matching-getter-panics", in(), "Get"+k.String()+" succeeds", "panic")
					return
				}
				if gf, isF := gv.(float64); isF && math.IsNaN(gf) {
					if g0, ok := got.(float64); ok && math.IsNaN(g0) {
						continue // NaN is NaN, though not == to itself
					}
				}
				if ident == nil && !kind2container(kind) && gv != got {
					c.Violate("getter-value-differs", in(), fmt.Sprint(got), fmt.Sprint(gv))
					return
				}
			} else if !gp {
				c.Violate("foreign-getter-succeeds", in(), fmt.Sprintf("Get%s panics for a stored %s", k, kind), fmt.Sprintf("returned %v", gv))
				return
			}
		}
		// a converted container is a fresh one of the caller's: modifying it must not influence any later conversion
		// ... and it is a container like any other: it (and every container nested in it, empty ones too) takes writes
		if ident == nil && kind2container(kind) {
			var bad string
			var visit func(v any, path string)
			visit = func(v any, path string) {
				if bad != "" {
					return
				}
				switch x := v.(type) {
				case at.List:
					for i := 0; i < x.Count(); i++ {
						visit(x.Get(i), fmt.Sprintf("%s#%d", path, i))
					}
					n := x.Count()
					if n > 200 {
						return
					}
					if p, msg := drive.Protect(func() { x.Add("poison").Insert(0, "front") }); p {
						bad = fmt.Sprintf("Add / Insert on the converted list at %q panics: %s", path, msg)
					} else if x.Count() != n+2 || x.Get(0) != "front" || x.Get(n+1) != "poison" {
						bad = fmt.Sprintf("Add / Insert on the converted list at %q did not take effect: %s", path, stringCanon(x))
					}
				case at.Object:
					for _, k := range x.Keys().StringSlice() {
						visit(x.Get(k), path+"."+k)
					}
					n := x.Count()
					poisonSeq++
					if n > 200 {
						return
					}
					k1, k2 := fmt.Sprintf("poison%d", poisonSeq), fmt.Sprintf("poisonTF%d", poisonSeq)
					// flat writes only (containers that already existed pass through here many times)
					if p, msg := drive.Protect(func() { x.Set(k1, true).SetTF("."+k2, 1) }); p {
						bad = fmt.Sprintf("Set / SetTF on the converted object at %q panics: %s", path, msg)
					} else if x.Count() != n+2 || x.Get(k1) != true {
						bad = fmt.Sprintf("Set / SetTF on the converted object at %q did not take effect: %s", path, stringCanon(x))
					}
				}
			}
			visit(got, "")
			c.Count("converted_containers_modified_afterwards")
			if bad != "" {
				c.Violate("converted-container-unusable", in(), "a fresh container that can be modified like any other", bad)
			} else if w, err := drive.Walk(got); err == nil {
				// ... each on its own: with what was written taken away again, the tree is the converted value once more (a write
				// to one converted container has not moved anything in its neighbours)
				var strip func(n *spec.Spec) *spec.Spec
				strip = func(n *spec.Spec) *spec.Spec {
					out := &spec.Spec{K: n.K, B: n.B, I: n.I, F: n.F, S: n.S}
					switch n.K {
					case spec.List:
						l := n.L
						for {
							k := len(l)
							if k >= 2 && k <= 202 && l[0].K == spec.Str && l[0].S == "front" && l[k-1].K == spec.Str && l[k-1].S == "poison" {
								l = l[1 : k-1]
								continue
							}
							break
						}
						for _, e := range l {
							out.L = append(out.L, strip(e))
						}
					case spec.Obj:
						for i, k := range n.Keys {
							if strings.HasPrefix(k, "poison") && len(n.Keys) <= 202 {
								continue
							}
							out.Keys = append(out.Keys, k)
							out.Vals = append(out.Vals, strip(n.Vals[i]))
						}
					}
					return out
				}
				// (containers that existed before the conversion are held by identity and come through here once per entry point:
				// what earlier rounds wrote into them is taken away on both sides)
				if d := spec.Diff(strip(w.ToSpec()), strip(want)); d != "" {
					c.Violate("converted-container-unusable", in(), "after a write to every converted container, each holds its own content plus what was written: "+spec.Trunc(want.Canon(), 400), d+"\nnow: "+spec.Trunc(w.Canon(), 600))
				}
			}
		}
	})
}

// poisonSeq makes the keys written into converted containers unique (existing containers pass through several entry points)
var poisonSeq int

func kind2container(k spec.Kind) bool { return k == spec.List || k == spec.Obj }

type c12Struct struct{ A int }
type c12Int int
type c12Str string
type c12U8 uint8
type c12F32 float32
type c12Bool bool

func unsupportedValues() []any {
	x := 5
	var np *int
	return []any{uintptr(7), complex128(1 + 2i), complex64(1), []int32{1}, []byte("ab"), []int8{1}, []uint{1}, []float32{1}, map[int]string{1: "a"}, map[string]int64{"a": 1}, map[string]int32{"a": 1},
		map[string][]any{"a": nil}, map[any]any{}, c12Struct{1}, &c12Struct{1}, &x, np, make(chan int), func() {}, json.Number("1"), c12Int(3), c12Str("s"), [3]int{1, 2, 3}, errors.New("e"),
		time.Duration(5), time.Unix(0, 0), at.TypeInt, at.TypeUndefined, time.March, os.FileMode(0o644), reflect.Int, c12U8(3), c12F32(1.5), c12Bool(true), []at.Type{at.TypeInt}, map[string]at.Type{"t": at.TypeNil}, []any{1, uintptr(2)}, map[string]any{"a": []any{complex(1, 1)}}, []any{[]any{[]int16{1}}}, []map[string]any{{}}, [][]any{{}}, []*int{}}
}

func runC12(c *fw.Ctx) {
	neps := len(entryPoints)
	// exhaustive 8-bit integers through every entry point
	c.Cases("int8-uint8-exhaustive", 256, true, func(i int, r *rng.R) {
		c.Distinct(fmt.Sprintf("8bit %d", i))
		for _, ep := range entryPoints {
			c12Store(c, ep, int8(i-128))
			c12Store(c, ep, uint8(i))
		}
	})
	// 16-bit: exhaustive in thorough (rotating entry points), sampled in quick
	c.Cases("int16-uint16", 65536, true, func(i int, r *rng.R) {
		if c.Quick() && i%37 != int(c.Seed%37) && i > 300 && i < 65536-300 && (i < 32768-300 || i > 32768+300) {
			return
		}
		c.Distinct(fmt.Sprintf("16bit %d", i))
		c12Store(c, entryPoints[i%neps], int16(i-32768))
		c12Store(c, entryPoints[(i+7)%neps], uint16(i))
	})
	// boundaries of the wide integer types through every entry point
	wide := []any{int32(math.MaxInt32), int32(math.MinInt32), int32(-1), uint32(0), uint32(math.MaxInt32), uint32(math.MaxUint32), int64(math.MaxInt32), int64(math.MinInt32),
		int64(math.MaxInt32) + 1, int64(math.MinInt32) - 1, int64(math.MaxInt64), int64(math.MinInt64), int64(math.MaxInt64 - 1), int64(1) << 53, uint64(0), uint64(math.MaxInt32), uint64(math.MaxInt64),
		uint64(math.MaxInt64) - 1, uint64(1) << 53, uint(0), uint(math.MaxInt), uint(math.MaxInt) - 1, uint(math.MaxInt32), int(math.MaxInt), int(math.MinInt), int(0), int(-1),
		uint16(65535), int16(-32768), uint8(255), int8(-128)}
	c.Cases("wide-boundaries", len(wide), true, func(i int, r *rng.R) {
		c.Distinct(fmt.Sprintf("wide %d", i))
		for _, ep := range entryPoints {
			c12Store(c, ep, wide[i])
		}
	})
	// floats, strings, bools, nil, containers by identity
	f32 := []float32{0, float32(math.Copysign(0, -1)), 1, -1, 0.1, 1.0 / 3, math.MaxFloat32, -math.MaxFloat32, math.SmallestNonzeroFloat32, 1e-40, 1.1754942e-38, 1.17549435e-38, 16777216, 16777217, 3.4e38,
		float32(math.Inf(1)), float32(math.Inf(-1)), 0.5, 123456.789, 1e-7, 1e7, 999999.94, float32(math.NaN()), math.Float32frombits(0x7fa00001), math.Float32frombits(0xffc00000)}
	misc := []any{nil, true, false, "", "s", string(rune(0x1f600)), float64(0.1), math.MaxFloat64, 5e-324, math.Inf(1), math.Copysign(0, -1), math.NaN(), math.Float64frombits(0xfff8000000000001), at.NewList(1), at.NewObject("a", 1), at.NewList(), at.NewObject(),
		NewDObject("d", 1), NewDDObject(), NewDList(1, 2), NewDDDList()} // derived structures are Objects / Lists too
	for _, f := range f32 {
		misc = append(misc, f)
	}
	c.Cases("scalars-and-containers", len(misc), true, func(i int, r *rng.R) {
		c.Distinct(fmt.Sprintf("misc %d", i))
		for _, ep := range entryPoints {
			c12Store(c, ep, misc[i])
		}
	})
	// the 14 supported map/slice flavours: nil, empty, populated, nested
	flav := []any{
		[]any(nil), []any{}, []any{1, "a", nil, 2.5, true, int8(3), uint16(4), float32(0.5)}, []any{[]any{[]any{map[string]any{"deep": []int{1, 2}}}}},
		[]at.Object(nil), []at.Object{}, []at.List(nil), []at.List{}, []string(nil), []string{}, []string{"a", ""}, []bool(nil), []bool{true, false}, []int(nil), []int{}, []int{math.MaxInt, math.MinInt, 0},
		[]float64(nil), []float64{0.1, -0.0, 1e300}, map[string]any(nil), map[string]any{}, map[string]any{"a": 1, "": nil, "n": map[string]any{"l": []any{uint8(1), []string{"x"}}}},
		map[string]at.Object(nil), map[string]at.Object{}, map[string]at.List(nil), map[string]at.List{}, map[string]string(nil), map[string]string{"a": "b", "": ""}, map[string]bool{"t": true},
		map[string]int(nil), map[string]int{"a": 1, "b": math.MinInt}, map[string]float64(nil), map[string]float64{"a": 0.5},
		[]any{map[string]int{"a": 1}, []float64{1}, map[string]string{"k": "v"}, []bool{true}, map[string]bool{}, map[string]float64{}},
		// tables: rows of one width, records of one shape (each row / record becomes a container of its own)
		[]any{[]any{1, 2, 3}, []any{4, 5, 6}}, []any{[]any{"a"}, []any{"b"}, []any{"c"}}, map[string]any{"t": []any{[]any{1, 2}, []any{3, 4}, []any{5, 6}}},
		[]any{[]int{1, 2}, []int{3, 4}}, []any{[]string{"x", "y"}, []string{"z", "w"}}, []any{map[string]any{"id": 1, "v": "a"}, map[string]any{"id": 2, "v": "b"}},
		[]any{[]any{[]any{1}, []any{2}}, []any{[]any{3}, []any{4}}}, map[string]any{"a": []any{1, 2}, "b": []any{3, 4}},
		[]at.Object{nil}, []at.List{nil, nil}, []at.Object{at.NewObject("x", 1), nil}, map[string]at.Object{"n": nil}, map[string]at.List{"n": nil, "l": at.NewList(1)},
		[]any{[]at.List{nil}, map[string]at.Object{"n": nil}}, []int{}, []string{}, []float64{}, []bool{}, []any{[]any{}, []int{}, map[string]any{}},
		map[string]any{"i8": int8(-1), "u8": uint8(255), "i16": int16(-300), "u16": uint16(65535), "i32": int32(-70000), "u32": uint32(70000), "i64": int64(-1), "u64": uint64(1), "u": uint(2), "f32": float32(1.5)},
	}
	// strings are byte strings: what is not UTF-8 is stored as it is, through every flavour that carries strings
	flav = append(flav, []string{"\xff", "a\x80b", "\xed\xa0\x80", "ok", "\xc0\xaf"}, map[string]string{"k": "\xfe", "\xc0\xaf": "v", "plain": "\xf5\x80"},
		[]any{[]string{"\xf5"}, map[string]string{"a": "\x80"}, "\xff\xfe"}, map[string]any{"s": []string{"\xe2\x82"}, "\x80": "key"})
	// deeply nested native values (9..40 levels of []any / map[string]any in every alternation)
	for depth := 9; depth <= 40; depth += []int{1, 1, 2, 3, 5, 8}[(depth-9)%6] {
		for variant := 0; variant < 3; variant++ {
			var v any = []any{7, "leaf"}
			for d := 0; d < depth; d++ {
				switch {
				case variant == 0, variant == 2 && d%2 == 0:
					v = []any{v}
				case variant == 1:
					v = []any{d, v, "behind"}
				default:
					v = map[string]any{"k": v, "side": []any{d}}
				}
			}
			flav = append(flav, v)
		}
	}
	c.Cases("map-slice-flavours", len(flav), true, func(i int, r *rng.R) {
		c.Distinct(fmt.Sprintf("flavour %d", i))
		for _, ep := range entryPoints {
			c12Store(c, ep, flav[i])
		}
	})
	// typed containers holding existing containers: converted container must hold the identical inner ones
	c.Cases("typed-container-identity", 4, true, func(i int, r *rng.R) {
		in := func() string { return "typed container of existing containers through every entry point" }
		guard(c, in, func() {
			o1, o2, l1 := at.NewObject("x", 1), at.NewObject(), at.NewList(1)
			for _, ep := range entryPoints {
				var v any
				switch i {
				case 0:
					v = []at.Object{o1, o2}
				case 1:
					v = []at.List{l1}
				case 2:
					v = map[string]at.Object{"a": o1}
				default:
					v = map[string]at.List{"a": l1}
				}
				c.Count("stores")
				var sl slot
				if p, msg := drive.Protect(func() { sl = ep.store(v) }); p {
					c.Violate("supported-value-rejected", fmt.Sprintf("%s with %T", ep.name, v), "stored", msg)
					continue
				}
				got := sl.get()
				ok := false
				drive.Protect(func() {
					switch i {
					case 0:
						g := got.(at.List)
						ok = g.Count() == 2 && g.Get(0) == any(o1) && g.Get(1) == any(o2)
					case 1:
						g := got.(at.List)
						ok = g.Count() == 1 && g.Get(0) == any(l1)
					case 2:
						g := got.(at.Object)
						ok = g.Count() == 1 && g.Get("a") == any(o1)
					default:
						g := got.(at.Object)
						ok = g.Count() == 1 && g.Get("a") == any(l1)
					}
				})
				if !ok {
					c.Violate("typed-container-conversion-differs", fmt.Sprintf("%s with %T", ep.name, v), "a fresh container holding the identical inner containers", fmt.Sprintf("%v", got))
				}
			}
			c.Distinct(fmt.Sprintf("typed identity %d", i))
		})
	})
	// unsupported types
	uns := unsupportedValues()
	c.Cases("unsupported", len(uns), true, func(i int, r *rng.R) {
		c.Distinct(fmt.Sprintf("unsupported %d %T", i, uns[i]))
		for _, ep := range entryPoints {
			c12Store(c, ep, uns[i])
		}
		// as the argument of the two converting constructors themselves
		guard(c, func() string { return fmt.Sprintf("NewListFrom / NewObjectFrom given an unsupported %T", uns[i]) }, func() {
			c.Count("unsupported_constructor_arguments")
			var gl at.List
			var gobj at.Object
			if p, _ := drive.Protect(func() { gl = at.NewListFrom(uns[i]) }); !p {
				c.Violate("unsupported-value-stored", fmt.Sprintf("NewListFrom(%T)", uns[i]), "panic (value of an unsupported Go type)", "returned "+stringCanon(gl))
			}
			if p, _ := drive.Protect(func() { gobj = at.NewObjectFrom(uns[i]) }); !p {
				c.Violate("unsupported-value-stored", fmt.Sprintf("NewObjectFrom(%T)", uns[i]), "panic (value of an unsupported Go type)", "returned "+stringCanon(gobj))
			}
		})
		// not stored: pre-existing containers stay as they were
		guard(c, func() string { return fmt.Sprintf("unsupported %T into existing containers", uns[i]) }, func() {
			l := at.NewList(1, 2)
			o := at.NewObject("k", 1)
			drive.Protect(func() { l.Add(uns[i]) })
			drive.Protect(func() { l.Insert(1, uns[i]) })
			drive.Protect(func() { l.Replace(0, uns[i]) })
			drive.Protect(func() { l.SetTF("#1", uns[i]) })
			drive.Protect(func() { o.Set("k", uns[i]) })
			drive.Protect(func() { o.Set("n", uns[i]) })
			drive.Protect(func() { o.SetTF(".k", uns[i]) })
			// a rejected multi-segment tree-form write may have created intermediates, but whatever is in the
			// containers afterwards must still be one of the seven kinds (observable through the public API)
			l2 := at.NewList(1)
			o2 := at.NewObject("k", 1)
			drive.Protect(func() { l2.SetTF("#4.k", uns[i]) })
			drive.Protect(func() { l2.SetTF("#7#2", uns[i]) })
			drive.Protect(func() { l2.SetTF("#0#1.x", uns[i]) })
			drive.Protect(func() { o2.SetTF(".k#3", uns[i]) })
			drive.Protect(func() { o2.SetTF(".n.m#2.z", uns[i]) })
			if _, err := drive.Walk(l2); err != nil {
				c.Violate("rejected-write-leaves-kindless-slot", fmt.Sprintf("list after rejected multi-segment SetTF of %T", uns[i]), "every slot still has one of the seven kinds", err.Error())
			}
			if _, err := drive.Walk(o2); err != nil {
				c.Violate("rejected-write-leaves-kindless-slot", fmt.Sprintf("object after rejected multi-segment SetTF of %T", uns[i]), "every slot still has one of the seven kinds", err.Error())
			}
			wl, _ := drive.Walk(l)
			wo, _ := drive.Walk(o)
			if wl == nil || drive.Diff(wl, spec.ListV(spec.IntV(1), spec.IntV(2))) != "" {
				c.Violate("rejected-value-left-a-trace", fmt.Sprintf("list [1,2] after rejected %T", uns[i]), "[1,2]", stringCanon(l))
			}
			if wo == nil || drive.Diff(wo, spec.ObjV("k", spec.IntV(1))) != "" {
				c.Violate("rejected-value-left-a-trace", fmt.Sprintf("object {k:1} after rejected %T", uns[i]), "{k:1}", stringCanon(o))
			}
		})
	})
	// a native tree with one unsupported leaf is rejected; after the caller has repaired that leaf the very same map /
	// slice instances must convert (nothing may be remembered from the failed attempt)
	// values a mapping function hands back are converted when they are handed back: a function that reuses one scratch
	// slice / map for all its results still gets one fresh container per result, each with the content of its moment
	c.Cases("map-results-converted-when-returned", c.N(200, 20000), false, func(i int, r *rng.R) { c14Scratch(c, r) })
	c.Cases("repair-after-rejection", c.N(40, 2000), false, func(i int, r *rng.R) {
		t := spec.GenTree(r, spec.Opts{MaxDepth: r.Range(2, 4), MaxWidth: r.Range(2, 4), ScalarBias: 4})
		nat := drive.Native(t)
		// find the containers of the native tree and plant the bad leaf in one of them
		var slots []func(v any)
		var walk func(n any)
		walk = func(n any) {
			switch x := n.(type) {
			case []any:
				for j := range x {
					j := j
					old := x[j]
					slots = append(slots, func(v any) {
						if v == nil {
							x[j] = old
						} else {
							x[j] = v
						}
					})
					walk(x[j])
				}
			case map[string]any:
				for k := range x {
					k := k
					old := x[k]
					slots = append(slots, func(v any) {
						if v == nil {
							x[k] = old
						} else {
							x[k] = v
						}
					})
					walk(x[k])
				}
			}
		}
		walk(nat)
		if len(slots) == 0 {
			return
		}
		in := func() string {
			return "native tree " + t.Canon() + " with one leaf temporarily replaced by an unsupported value"
		}
		guard(c, in, func() {
			set := slots[r.Intn(len(slots))]
			set(uintptr(7))
			ep := entryPoints[r.Intn(len(entryPoints))]
			if strings.HasSuffix(ep.name, "MapAsync") {
				ep = entryPoints[0]
			}
			pan, _ := drive.Protect(func() { ep.store(nat) })
			if !pan {
				c.Violate("unsupported-value-stored", in(), "panic", "stored")
				return
			}
			set(nil) // repair: the original supported leaf is back
			var sl slot
			if pan, msg := drive.Protect(func() { sl = ep.store(nat) }); pan {
				c.Violate("supported-value-rejected-after-earlier-rejection", in()+" through "+ep.name, "the repaired tree converts", "panic: "+msg)
				return
			}
			w, err := drive.Walk(sl.get())
			if err != nil {
				c.Violate("converted-container-unwalkable", in(), "container", err.Error())
				return
			}
			if d := drive.Diff(w, t); d != "" {
				c.Violate("converted-container-differs", in(), t.Canon(), d)
			}
			c.Count("repairs_checked")
			c.Distinct(in())
		})
	})
	// random values of every numeric type
	c.Cases("random", c.N(100000, 20000000)/40, false, func(i int, r *rng.R) {
		c.DistinctHash(r.U64())
		for j := 0; j < 40; j++ {
			ep := entryPoints[r.Intn(neps)]
			var v any
			u := r.U64() >> uint(r.Intn(64))
			switch r.Intn(12) {
			case 0:
				v = int64(u) * int64(1-2*r.Intn(2))
			case 1:
				v = u
			case 2:
				v = uint(u)
			case 3:
				v = int32(u)
			case 4:
				v = uint32(u)
			case 5:
				v = int(u) * (1 - 2*r.Intn(2))
			case 6, 7:
				f := math.Float32frombits(uint32(r.U64()))
				if f != f {
					f = 1.5
				}
				v = f
			case 8:
				f := math.Float64frombits(r.U64())
				if f != f {
					f = 2.5
				}
				v = f
			case 9:
				v = int16(u)
			case 10:
				v = spec.GenStr(r)
			default:
				v = drive.Native(spec.GenTree(r, spec.Opts{MaxDepth: 3, MaxWidth: 3}))
			}
			c12Store(c, ep, v)
		}
	})
}

func selfC12(s *fw.SelfCheck) {
	v, _, ok := norm(uint8(200))
	s.Expect(ok && v.K == spec.Int && v.I == 200, "table: uint8(200) -> int 200")
	v, _, ok = norm(float32(0.1))
	s.Expect(ok && v.K == spec.Float && v.F == float64(float32(0.1)) && v.F != 0.1, "table: float32 widens exactly")
	_, _, ok = norm(json.Number("1"))
	s.Expect(!ok, "table: json.Number is unsupported")
	_, _, ok = norm(uint64(math.MaxUint64))
	s.Expect(!ok, "table: uint64 above MaxInt is outside 'representable'")
	v, _, ok = norm(uint64(math.MaxInt))
	s.Expect(ok && v.I == math.MaxInt, "table: uint64(MaxInt) is representable")
	v, _, ok = norm([]any{map[string]int{"a": 1}})
	s.Expect(ok && v.K == spec.List && v.L[0].K == spec.Obj, "table: nested typed map")
}
