package mon

import (
	"bytes"
	"compress/gzip"
	"fmt"
	"os"
	"os/exec"
	"path/filepath"
	"runtime/debug"
	"strings"
	"sync"
	"syscall"
	"time"
	"unicode/utf8"

	at "github.com/DanielSvub/anytype"

	"verifharness/internal/drive"
	"verifharness/internal/fw"
	"verifharness/internal/rng"
	"verifharness/internal/spec"
)

func init() {
	register(&Monitor{ID: "C04", Run: runC04, Self: selfC04})
	Aux["stackprobe"] = auxStackProbe
	Aux["deepdoc"] = auxDeepDoc
	Aux["parsefile"] = auxParseFile
}

// Aux are helper entry points the worker can be re-executed with (isolated child processes).
var Aux = map[string]func(args []string) int{}

type parseOutcome struct {
	Panic string
	Err   string
	NilC  bool
	NilE  bool
	Canon string
}

func outcomeOf(v any, err error, pan string, isNil bool) parseOutcome {
	o := parseOutcome{Panic: pan, NilC: isNil, NilE: err == nil}
	if err != nil {
		o.Err = err.Error()
	}
	if !isNil && pan == "" {
		w, werr := drive.Walk(v)
		if werr != nil {
			o.Canon = "unusable: " + werr.Error()
		} else {
			o.Canon = w.Canon()
		}
	}
	return o
}

func doParseList(text string) (o parseOutcome) {
	var l at.List
	var err error
	p, msg := drive.Protect(func() { l, err = at.ParseList(text) })
	if p {
		return parseOutcome{Panic: msg}
	}
	return outcomeOf(l, err, "", l == nil)
}

func doParseObject(text string) (o parseOutcome) {
	var ob at.Object
	var err error
	p, msg := drive.Protect(func() { ob, err = at.ParseObject(text) })
	if p {
		return parseOutcome{Panic: msg}
	}
	return outcomeOf(ob, err, "", ob == nil)
}

func doParseFile(path string) (o parseOutcome) {
	var ob at.Object
	var err error
	p, msg := drive.Protect(func() { ob, err = at.ParseFile(path) })
	if p {
		return parseOutcome{Panic: msg}
	}
	return outcomeOf(ob, err, "", ob == nil)
}

// checkOutcome applies the totality / exclusivity predicate. Returns false on violation.
func checkOutcome(c *fw.Ctx, which, text string, o parseOutcome) bool {
	in := func() string { return which + " on " + quoteBytes(text) }
	switch {
	case o.Panic != "":
		c.Violate("parse-panics", in(), "returns (container,nil) or (nil,error)", "panic: "+o.Panic)
	case o.NilC && o.NilE:
		c.Violate("parse-returns-nil-nil", in(), "exactly one of container / error is non-nil", "(nil, nil)")
	case !o.NilC && !o.NilE:
		c.Violate("parse-returns-both", in(), "exactly one of container / error is non-nil", "container and error "+o.Err)
	case !o.NilC && strings.HasPrefix(o.Canon, "unusable"):
		c.Violate("parse-returns-unusable-container", in(), "a usable container", o.Canon)
	default:
		return true
	}
	return false
}

func quoteBytes(s string) string {
	return fmt.Sprintf("%q", spec.Trunc(s, 4000))
}

func sameOutcome(a, b parseOutcome) bool {
	return a.Panic == b.Panic && a.Err == b.Err && a.NilC == b.NilC && a.NilE == b.NilE && a.Canon == b.Canon
}

var soupTokens = []string{"[", "]", "{", "}", ",", ":", "\"", "\\", "\\\"", "\\\\", "\\u", "0041", "\\uD83D", "\\uDE00", "1", "-1", "1.5", "1e5", "-", ".", "e", "E", "+",
	"true", "false", "null", "nul", "tru", "a", "\n", " ", "\t", "\r", "0x1", "1_0", "NaN", "Inf", "\xc3\xa9", "\xf0\x9f\x98\x80", "\xff", "\xc0\x80", "\xed\xa0\x80", "\x80", "\xe2\x82",
	"\xf4\x90\x80\x80", "\"a\"", "\"\"", "\"k\":", "[]", "{}", "\x00", "\x7f", "\xef\xbf\xbd", "\xe2\x80\xa8", "/", "\\/", "'", "//", "/*", "#"}

func genSoup(r *rng.R) string {
	switch r.Intn(4) {
	case 0: // raw bytes
		n := r.Intn(48)
		b := make([]byte, n)
		for i := range b {
			b[i] = byte(r.U64())
		}
		if r.Bool() && n > 0 {
			b[0] = "[{"[r.Intn(2)]
		}
		return string(b)
	case 1: // token soup
		n := r.Range(1, 30)
		var b strings.Builder
		for i := 0; i < n; i++ {
			b.WriteString(soupTokens[r.Intn(len(soupTokens))])
		}
		return b.String()
	default: // structure-aware mutation of a valid document
		root := spec.List
		if r.Bool() {
			root = spec.Obj
		}
		tree := genDocTree(r, root, r.Range(1, 4), r.Range(1, 5))
		text := []byte(renderRoot(r, tree, randStyle(r), true))
		edits := r.Range(1, 3)
		for e := 0; e < edits && len(text) > 0; e++ {
			pos := r.Intn(len(text))
			switch r.Intn(8) {
			case 0:
				text[pos] ^= byte(1 << uint(r.Intn(8)))
			case 1:
				tok := soupTokens[r.Intn(len(soupTokens))]
				text = append(text[:pos], append([]byte(tok), text[pos:]...)...)
			case 2:
				end := pos + r.Range(1, 6)
				if end > len(text) {
					end = len(text)
				}
				text = append(text[:pos], text[end:]...)
			case 3:
				end := pos + r.Range(1, 10)
				if end > len(text) {
					end = len(text)
				}
				span := append([]byte{}, text[pos:end]...)
				text = append(text[:end], append(span, text[end:]...)...)
			case 4:
				q := r.Intn(len(text))
				text[pos], text[q] = text[q], text[pos]
			case 5:
				text = text[:pos]
			case 6:
				// swap bracket kinds
				switch text[pos] {
				case '[':
					text[pos] = '{'
				case ']':
					text[pos] = '}'
				case '{':
					text[pos] = '['
				case '}':
					text[pos] = ']'
				default:
					text[pos] = "[]{}\",:\\"[r.Intn(8)]
				}
			default:
				text[pos] = byte(r.U64())
			}
		}
		return string(text)
	}
}

// illFormed: the classes of ill-formed UTF-8 named by the property.
var illFormed = []struct{ name, bytes string }{
	{"stray-continuation", "\x80"}, {"stray-continuation-bf", "\xbf"},
	{"truncated-2", "\xc3"}, {"truncated-3", "\xe2\x82"}, {"truncated-3-1", "\xe2"}, {"truncated-4", "\xf0\x9f\x98"}, {"truncated-4-1", "\xf0"},
	{"overlong-2", "\xc0\x80"}, {"overlong-2-c1", "\xc1\xbf"}, {"overlong-3", "\xe0\x80\x80"}, {"overlong-4", "\xf0\x80\x80\x80"},
	{"surrogate", "\xed\xa0\x80"}, {"surrogate-low", "\xed\xbf\xbf"}, {"above-f4", "\xf5\x80\x80\x80"}, {"ff", "\xff"}, {"fe", "\xfe"}, {"beyond-10ffff", "\xf4\x90\x80\x80"},
}

func runC04(c *fw.Ctx) {
	// (a) totality, exclusivity, determinism on arbitrary bytes
	pins := []string{"", "[", "{", "]", "}", "[]", "{}", "[1", "{\"a\":1", "{\"a\"", "{\"a\":", "[\"", "[\"\\", "[\"\\u", "[1,", "[[", "{\"a\":{", "{\"a\":[", "\xff", "[\xff]", "{\"\xff\":1}",
		"[\"a\xc3\"]", "[nul]", "[tru]", "[1 2]", "[nu ll,[]2]", "{\"first\":{}\"second\":2}", "{\"first\":1 2}", "x[1]y", "x{\"a\":1}y", "[]]", "[[]", "{\"a\":1}}", "[1]]]]", "\n\n[", "[\n", "{1:2}",
		"{\"test\":[]2}", "[\"\n\"]", "[\"a\"b]", "{\"a\"\"b\":1}", "[\"\\\"]", "{\"a\\\":1}", "[\"\\", "{\"\\", "[0x10]", "[1_0]", "[+1]", "[Inf]", "[NaN]", "[1e999]", "[--1]"}
	c.Cases("pinned", len(pins), true, func(i int, r *rng.R) {
		c04Both(c, pins[i])
	})
	c.Cases("soup", c.N(200000, 20000000), false, func(i int, r *rng.R) {
		c04Both(c, genSoup(r))
	})

	// ill-formed UTF-8 injected into ARBITRARY accepted inputs (not only serialiser output): if an input is accepted and
	// its root demonstrably closes at its last byte (the input without that byte is rejected), every ill-formed sequence
	// placed between the root bracket and that last byte must make it rejected
	c.Cases("soup-injection", c.N(20000, 1000000), false, func(i int, r *rng.R) {
		text := genSoup(r)
		if i%2 == 1 {
			// hosts built from valid documents decorated, between tokens, with things a lenient parser might tolerate
			// (comments, exotic blanks, stray separators); whether the library accepts the host is found out by running it
			root := spec.List
			if r.Bool() {
				root = spec.Obj
			}
			doc := []byte(renderRoot(r, genDocTree(r, root, r.Range(1, 3), r.Range(1, 4)), docStyle{WS: r.Intn(2)}, false))
			var gaps []int
			inStr, esc := false, false
			for j, ch := range doc {
				switch {
				case esc:
					esc = false
				case inStr && ch == '\\':
					esc = true
				case ch == '"':
					inStr = !inStr
				case !inStr && (ch == ',' || ch == '[' || ch == '{' || ch == ':') && j < len(doc)-1:
					gaps = append(gaps, j+1)
				}
			}
			decor := []string{"// note\n", "//\n", " // x y z \n ", "/* c */", "# c\n", "\v", "\f", "\u00a0", "\u2028", " \n ", "//a//b\n", "-- c\n", "; c\n"}
			for k := r.Range(1, 3); k > 0 && len(gaps) > 0; k-- {
				g := gaps[r.Intn(len(gaps))]
				d := decor[r.Intn(len(decor))]
				doc = append(doc[:g], append([]byte(d), doc[g:]...)...)
				for x := range gaps {
					if gaps[x] >= g {
						gaps[x] += len(d)
					}
				}
			}
			text = string(doc)
			c.Count("decorated_hosts_tried")
		}
		if len(text) < 3 || len(text) > 300 {
			return
		}
		for which := 0; which < 2; which++ {
			parse := doParseList
			open := strings.IndexByte(text, '[')
			name := "ParseList"
			if which == 1 {
				parse, open, name = doParseObject, strings.IndexByte(text, '{'), "ParseObject"
			}
			if open < 0 || open >= len(text)-1 {
				continue
			}
			if o := parse(text); !o.NilE || o.Panic != "" {
				continue
			}
			if o := parse(text[:len(text)-1]); o.NilE {
				continue // the root closes earlier: where exactly is not known
			}
			c.Count("injection_hosts")
			for k := 0; k < 4; k++ {
				pos := open + 1 + r.Intn(len(text)-open-1)
				bad := illFormed[r.Intn(len(illFormed))]
				doc := text[:pos] + bad.bytes + text[pos:]
				if utf8.ValidString(doc[:len(doc)-1]) {
					continue
				}
				c.MarkInput(doc)
				o := parse(doc)
				c.Count("soup_injections")
				if !checkOutcome(c, name, doc, o) {
					continue
				}
				if o.NilE {
					c.Violate("ill-formed-utf8-accepted", fmt.Sprintf("%s on %s (class %s injected at offset %d of the accepted input %s)", name, quoteBytes(doc), bad.name, pos, quoteBytes(text)), "error", "accepted as "+spec.Trunc(o.Canon, 300))
				}
			}
		}
	})

	// every single byte 0x80..0xFF at every offset between the root brackets of ASCII hosts that carry blanks of every sort
	// at every legal position (a lone high byte in ASCII surroundings is always ill-formed UTF-8, whatever a byte-wise
	// classification such as "is it a space in Latin-1" may think of it)
	sweepHosts := []string{
		`[1, 2 ,"a b" , [ ] ,{ "k" : 1 , "l" : [ true ] } , null ]`,
		`{ "a" : 1 ,"b": [ 1 , 2 ], "c" : { } , "d":"x y" , "e" : -0.5e+3 }`,
		`[ ]`, `{ }`, `[ [ [ 1 ] ] ]`, `{ "k" : { "k" : [ { } ] } }`,
	}
	blanks := []string{" ", "\t", "\n", "\r\n", "  ", " \n\t "}
	c.Cases("high-byte-sweep", len(sweepHosts)*len(blanks), true, func(i int, r *rng.R) {
		host := strings.ReplaceAll(sweepHosts[i/len(blanks)], " ", blanks[i%len(blanks)])
		parse, name := doParseList, "ParseList"
		if host[0] == '{' {
			parse, name = doParseObject, "ParseObject"
		}
		if o := parse(host); !o.NilE {
			c.Count("sweep_hosts_not_accepted") // strings with a raw line break are no JSON: such hosts carry no verdict
			return
		}
		c.Distinct("sweep " + host)
		for pos := 1; pos < len(host); pos++ {
			for b := 0x80; b <= 0xff; b++ {
				doc := host[:pos] + string([]byte{byte(b)}) + host[pos:]
				c.MarkInput(doc)
				o := parse(doc)
				c.Count("high_byte_injections")
				if !checkOutcome(c, name, doc, o) {
					return
				}
				if o.NilE {
					c.Violate("ill-formed-utf8-accepted", fmt.Sprintf("%s on %s (byte 0x%02x injected at offset %d)", name, quoteBytes(doc), b, pos), "error", "accepted as "+spec.Trunc(o.Canon, 300))
					return
				}
			}
		}
	})

	// the same inputs parsed by several goroutines at once give the outcomes they give sequentially
	c.Cases("concurrent", c.N(40, 2000), false, func(i int, r *rng.R) {
		g := r.Range(2, 10)
		inputs := make([]string, g)
		want := make([][2]parseOutcome, g)
		for j := range inputs {
			inputs[j] = genSoup(r)
			want[j] = [2]parseOutcome{doParseList(inputs[j]), doParseObject(inputs[j])}
		}
		var wg sync.WaitGroup
		var mu sync.Mutex
		var bad []string
		start := make(chan struct{})
		for j := range inputs {
			wg.Add(1)
			go func(j int) {
				defer wg.Done()
				<-start
				for rep := 0; rep < 30; rep++ {
					l, o := doParseList(inputs[j]), doParseObject(inputs[j])
					if !sameOutcome(l, want[j][0]) || !sameOutcome(o, want[j][1]) {
						mu.Lock()
						if len(bad) < 3 {
							bad = append(bad, fmt.Sprintf("%s: concurrently %+v / %+v, sequentially %+v / %+v", quoteBytes(inputs[j]), l, o, want[j][0], want[j][1]))
						}
						mu.Unlock()
						return
					}
				}
			}(j)
		}
		close(start)
		wg.Wait()
		c.Count("concurrent_parse_rounds")
		c.Distinct(strings.Join(inputs, "|"))
		if len(bad) > 0 {
			c.Violate("parse-outcome-differs-under-concurrency", fmt.Sprintf("%d goroutines parsing at the same time", g), "the sequential outcomes", strings.Join(bad, "\n"))
		}
	})

	// (b) every proper prefix of a serialised document is rejected
	c.Cases("prefix", c.N(300, 40000), false, func(i int, r *rng.R) {
		var tree *spec.Spec
		pt := pinnedTrees()
		if i < len(pt) {
			tree = pt[i]
		} else if i%2 == 0 {
			tree = genBracketyTree(r)
		} else {
			tree = genTreeFor(r)
		}
		guard(c, func() string { return describeTree(tree) }, func() {
			real := drive.Build(r, tree)
			text := stringOf(real)
			c.Distinct(text)
			if c.WantSample() && len(text) > 10 && len(text) < 120 {
				c.Sample(map[string]any{"serialised": text, "check": "every proper prefix must be rejected"})
			}
			for cut := 0; cut < len(text); cut++ {
				p := text[:cut]
				c.MarkInput(p)
				var o parseOutcome
				which := "ParseList"
				if tree.K == spec.List {
					o = doParseList(p)
				} else {
					which = "ParseObject"
					o = doParseObject(p)
				}
				c.Count("prefix_cuts")
				if !checkOutcome(c, which, p, o) {
					continue
				}
				if o.NilE {
					c.Violate("truncated-document-accepted", fmt.Sprintf("%s on the %d-byte prefix %s of %s", which, cut, quoteBytes(p), quoteBytes(text)), "error", "accepted as "+spec.Trunc(o.Canon, 400))
				}
			}
			// the complete text must still be accepted (sanity: the cut loop did test real documents)
			var o parseOutcome
			if tree.K == spec.List {
				o = doParseList(text)
			} else {
				o = doParseObject(text)
			}
			if !o.NilE {
				c.Count("prefix_full_document_rejected")
			}
		})
	})

	// (c) ill-formed UTF-8 anywhere between the root brackets is rejected
	c.Cases("illformed", c.N(100, 8000), false, func(i int, r *rng.R) {
		var tree *spec.Spec
		pt := pinnedTrees()
		if i < len(pt) {
			tree = pt[i]
		} else {
			tree = genTreeFor(r)
		}
		guard(c, func() string { return describeTree(tree) }, func() {
			real := drive.Build(r, tree)
			text := stringOf(real)
			if len(text) > 400 {
				return
			}
			c.Distinct(text)
			for off := 1; off < len(text); off++ {
				for _, bad := range illFormed {
					if c.Quick() && r.Intn(3) != 0 {
						continue
					}
					doc := text[:off] + bad.bytes + text[off:]
					// the ill-formed bytes must really be ill-formed in context and lie before the root's closing bracket
					if utf8.ValidString(doc[:len(doc)-1]) {
						continue
					}
					c.MarkInput(doc)
					var o parseOutcome
					which := "ParseList"
					if tree.K == spec.List {
						o = doParseList(doc)
					} else {
						which = "ParseObject"
						o = doParseObject(doc)
					}
					c.Count("illformed_injections")
					c.Count("illformed/" + bad.name)
					if !checkOutcome(c, which, doc, o) {
						continue
					}
					if o.NilE {
						c.Violate("ill-formed-utf8-accepted", fmt.Sprintf("%s on %s (class %s injected at offset %d of %s)", which, quoteBytes(doc), bad.name, off, quoteBytes(text)), "error", "accepted as "+spec.Trunc(o.Canon, 400))
					}
				}
			}
		})
	})

	// (d) ParseFile == ParseObject on the file's bytes; unreadable paths give an error
	// private to this worker process: the passes (main, cov, 386) run shards with the same number at the same time
	dir := filepath.Join(c.WorkDir, fmt.Sprintf("files.%d.%t.%d", c.Shard, c.Arch386, os.Getpid()))
	defer os.RemoveAll(dir)
	os.MkdirAll(dir, 0o755)
	c.Cases("parsefile", c.N(200, 30000), false, func(i int, r *rng.R) {
		var text string
		if i%25 == 9 {
			// byte order marks and other encodings in front of / instead of UTF-8 text: ParseFile must treat the bytes
			// exactly as ParseObject does
			doc := "{\"a\":[1,\"x\"]}"
			u16 := func(le bool) string {
				var b []byte
				for _, ch := range doc {
					if le {
						b = append(b, byte(ch), 0)
					} else {
						b = append(b, 0, byte(ch))
					}
				}
				return string(b)
			}
			text = []string{"\xef\xbb\xbf" + doc, "\xff\xfe" + doc, "\xfe\xff" + doc, "\xff\xfe" + u16(true), "\xfe\xff" + u16(false), u16(true), "\xff\xfe\x00\x00" + doc, "\x00\x00\xfe\xff" + doc, "\xef\xbb\xbf", "\xff\xfe"}[(i/25)%10]
			c.Count("parsefile_bom_files")
		} else if i%25 == 7 {
			// large files: single lines around the usual buffer sizes (4 KiB, 64 KiB, 1 MiB) and many short lines
			size := []int{4095, 4096, 4097, 65535, 65536, 65537, 70000, 200000, 1 << 20, 1<<20 + 1}[(i/25)%10]
			var b strings.Builder
			b.WriteString("{\"big\":[")
			sep := ","
			if (i/250)%2 == 1 {
				sep = ",\n"
			}
			for j := 0; b.Len() < size; j++ {
				if j > 0 {
					b.WriteString(sep)
				}
				fmt.Fprintf(&b, "%d", j)
			}
			b.WriteString("],\"s\":\"" + strings.Repeat("x", size/3) + "\"}")
			text = b.String()
			c.Count("parsefile_large_files")
		} else if r.Chance(2, 3) {
			tree := genDocTree(r, spec.Obj, r.Range(1, 4), r.Range(1, 5))
			st := randStyle(r)
			text = renderRoot(r, tree, st, true)
			if r.Chance(1, 4) {
				text = "preamble\n" + text + "\ntrailer"
			}
		} else {
			text = genSoup(r)
		}
		path := filepath.Join(dir, fmt.Sprintf("f%d.json", i))
		if err := os.WriteFile(path, []byte(text), 0o644); err != nil {
			c.Inconclusive("cannot write scratch file: " + err.Error())
			return
		}
		defer os.Remove(path)
		c.MarkInput(text)
		of := doParseFile(path)
		oo := doParseObject(text)
		c.Count("parsefile_calls")
		c.Distinct(text)
		if !checkOutcome(c, "ParseFile", text, of) {
			return
		}
		if !sameOutcome(of, oo) {
			c.Violate("parsefile-differs-from-parseobject", "file content "+quoteBytes(text), fmt.Sprintf("ParseObject: err=%q tree=%s", oo.Err, spec.Trunc(oo.Canon, 300)), fmt.Sprintf("ParseFile: err=%q tree=%s", of.Err, spec.Trunc(of.Canon, 300)))
		}
	})
	// the path is the operating system's business: whatever os.ReadFile(path) reads is "the file's bytes", for every
	// spelling of a path (dot segments, doubled separators, '..' behind a symbolic link to a directory elsewhere,
	// relative paths, names with blanks / line breaks / wildcard and escape characters)
	pf := filepath.Join(dir, "pathforms")
	mk := func(rel, content string) {
		full := filepath.Join(pf, rel)
		os.MkdirAll(filepath.Dir(full), 0o755)
		os.WriteFile(full, []byte(content), 0o644)
	}
	os.RemoveAll(pf)
	mk("real/t.json", `{"where":"real"}`)
	mk("real/deep/t.json", `{"where":"deep"}`)
	mk("other/t.json", `{"where":"other"}`)
	mk("q/t.json", `{"where":"decoy next to the link"}`)
	mk("t.json", `{"where":"top"}`)
	os.Symlink(filepath.Join("..", "real", "deep"), filepath.Join(pf, "q", "link")) // q/link -> real/deep
	os.Symlink(filepath.Join(pf, "other"), filepath.Join(pf, "real", "abs"))        // real/abs -> other (absolute target)
	os.Symlink("t.json", filepath.Join(pf, "real", "alias.json"))                   // link to a file
	os.Symlink("alias.json", filepath.Join(pf, "real", "alias2.json"))              // chain
	os.Symlink("missing.json", filepath.Join(pf, "real", "dangling.json"))          // dangling
	odd := []string{"a b.json", " lead.json", "trail.json ", "tab\there.json", "line\nbreak.json", "%41.json", "~", "back\\slash.json", "*.json", "?.json", "$HOME.json", ".hidden", "file.JSON",
		string(rune(0xfc)) + ".json", "e" + string(rune(0x301)) + ".json", "..json", "...", "-", "a:b.json", "[x].json", "{y}.json", "q\"uote.json", "#frag.json", "with%20space.json"}
	for k, name := range odd {
		mk(filepath.Join("odd", name), fmt.Sprintf(`{"odd":%d}`, k))
	}
	// unreadable paths with readable look-alikes next to them (an extension added or dropped, an index file inside a
	// directory, another case, a backup suffix): ParseFile reads the path it is given or fails
	mk("decoy/noext.json", `{"decoy":"noext.json"}`)
	mk("decoy/dirlike/index.json", `{"decoy":"index.json"}`)
	mk("decoy/dirlike.json", `{"decoy":"dirlike.json"}`)
	mk("decoy/file.json.bak", `{"decoy":"bak"}`)
	mk("decoy/file.json~", `{"decoy":"tilde"}`)
	mk("decoy/UPPER.JSON", `{"decoy":"upper"}`)
	mk("decoy/data.json.gz", `{"decoy":"gz"}`)
	mk("decoy/conf.JSON", `{"decoy":"conf"}`)
	forms := []string{
		filepath.Join(pf, "real", "t.json"),
		pf + "/real/./t.json", pf + "/real//t.json", pf + "//real/t.json", pf + "/real/../real/t.json", pf + "/./real/./deep/../t.json",
		pf + "/q/link/../t.json", // through the link: real/t.json, lexically: q/t.json
		pf + "/q/link/../../other/t.json", pf + "/q/link/t.json", pf + "/q/link/../deep/../../q/link/t.json",
		pf + "/real/abs/../t.json", // through the link: the top t.json, lexically: real/t.json
		pf + "/real/abs/t.json", pf + "/real/alias.json", pf + "/real/alias2.json", pf + "/real/dangling.json",
		pf + "/real/t.json/", pf + "/real/t.json/.", pf + "/real/t.json/..", pf + "/real/missing/../t.json", pf + "/q/link/../missing.json",
		pf + "/REAL/t.json", pf + "/real/T.JSON", " " + pf + "/real/t.json", pf + "/real/t.json ", pf + "/real/t.json\n",
	}
	for _, dn := range []string{"noext", "dirlike", "file.json", "file", "upper.json", "UPPER", "data.json", "data", "conf.json", "conf", "noext.", "noext.JSON", "missing/../noext"} {
		forms = append(forms, pf+"/decoy/"+dn)
	}
	if wd, err := os.Getwd(); err == nil {
		if rel, err := filepath.Rel(wd, filepath.Join(pf, "real", "t.json")); err == nil {
			forms = append(forms, rel, "./"+rel, filepath.Dir(rel)+"/../real/t.json")
		}
		if rel, err := filepath.Rel(wd, filepath.Join(pf, "q", "link")); err == nil {
			forms = append(forms, rel+"/../t.json")
		}
	}
	for _, name := range odd {
		forms = append(forms, filepath.Join(pf, "odd")+"/"+name)
	}
	c.Cases("pathforms", len(forms), true, func(i int, r *rng.R) {
		path := forms[i]
		c.Distinct("pathform " + path)
		want, rerr := os.ReadFile(path)
		of := doParseFile(path)
		c.Count("pathform_calls")
		if !checkOutcome(c, "ParseFile", path, of) {
			return
		}
		if rerr != nil {
			c.Count("pathform_unreadable")
			if of.NilE {
				c.Violate("parsefile-unreadable-path-accepted", "ParseFile("+quoteBytes(path)+"), which os.ReadFile cannot read: "+rerr.Error(), "error", "accepted as "+spec.Trunc(of.Canon, 200))
			}
			return
		}
		oo := doParseObject(string(want))
		if !sameOutcome(of, oo) {
			c.Violate("parsefile-differs-from-parseobject", "ParseFile("+quoteBytes(path)+"); os.ReadFile of that path gives "+quoteBytes(string(want)), fmt.Sprintf("ParseObject: err=%q tree=%s", oo.Err, spec.Trunc(oo.Canon, 300)), fmt.Sprintf("ParseFile: err=%q tree=%s", of.Err, spec.Trunc(of.Canon, 300)))
		}
	})
	// relative paths after the working directory has changed: the path means what it means to os.ReadFile at the moment of
	// the call (the working directory is put back right after each call; cases run one after the other)
	type chd struct{ dir, rel string }
	var moved []chd
	for _, d := range []string{"other", "real/deep", "q/link", "real"} {
		for _, rel := range []string{"t.json", "./t.json", "../real/t.json", "../t.json", "deep/t.json", "../other/../real/alias.json", "missing.json"} {
			moved = append(moved, chd{filepath.Join(pf, d), rel})
		}
	}
	// names that mean something to a shell or to a command line ("-", "~", "*.json", "$HOME.json", ".hidden" ...) as relative
	// paths: to ParseFile they are file names like any other
	for _, name := range odd {
		moved = append(moved, chd{filepath.Join(pf, "odd"), name})
	}
	moved = append(moved, chd{filepath.Join(pf, "real"), "-"}, chd{filepath.Join(pf, "real"), "~"}) // no such files there
	// spellings that a "helpful" reader might translate (URLs, home and variable references): they are relative paths, some
	// of which exist literally, with a decoy where the translation would lead
	mk("urls/file:/conf.json", `{"literally":"file:/conf.json"}`)
	mk("urls/conf.json", `{"decoy":"conf.json"}`)
	mk("urls/~/t.json", `{"literally":"~/t.json"}`)
	mk("urls/$HOME/t.json", `{"literally":"$HOME/t.json"}`)
	mk("urls/${PWD}/t.json", `{"literally":"${PWD}/t.json"}`)
	mk("urls/%2e/t.json", `{"literally":"%2e/t.json"}`)
	mk("urls/t.json", `{"decoy":"t.json"}`)
	mk("urls/http:/host/t.json", `{"literally":"http:/host/t.json"}`)
	for _, rel := range []string{"file://conf.json", "file:/conf.json", "file:conf.json", "file:///" + filepath.Join(pf, "real", "t.json"), "file://localhost" + filepath.Join(pf, "real", "t.json"),
		"file://" + filepath.Join(pf, "real", "t.json"), "~/t.json", "$HOME/t.json", "${PWD}/t.json", "%2e/t.json", "./%2e/t.json", "http://host/t.json", "t.json?x=1", "t.json#frag", "t.json\x00", "@t.json"} {
		moved = append(moved, chd{filepath.Join(pf, "urls"), rel})
	}
	c.Cases("after-chdir", len(moved), true, func(i int, r *rng.R) {
		wd, err := os.Getwd()
		if err != nil || !filepath.IsAbs(pf) {
			c.Count("chdir_not_available")
			return
		}
		m := moved[i]
		if err := os.Chdir(m.dir); err != nil {
			c.Count("chdir_not_available")
			return
		}
		want, rerr := os.ReadFile(m.rel)
		of := doParseFile(m.rel)
		if err := os.Chdir(wd); err != nil {
			panic("cannot return to the working directory: " + err.Error())
		}
		in := "ParseFile(" + quoteBytes(m.rel) + ") after os.Chdir(" + quoteBytes(m.dir) + ") (the process started in " + quoteBytes(wd) + ")"
		c.Distinct("chdir " + m.dir + " " + m.rel)
		c.Count("pathform_calls")
		if !checkOutcome(c, "ParseFile", in, of) {
			return
		}
		if rerr != nil {
			if of.NilE {
				c.Violate("parsefile-unreadable-path-accepted", in+", which os.ReadFile cannot read: "+rerr.Error(), "error", "accepted as "+spec.Trunc(of.Canon, 200))
			}
			return
		}
		oo := doParseObject(string(want))
		if !sameOutcome(of, oo) {
			c.Violate("parsefile-differs-from-parseobject", in+"; os.ReadFile of that path gives "+quoteBytes(string(want)), fmt.Sprintf("ParseObject: err=%q tree=%s", oo.Err, spec.Trunc(oo.Canon, 300)), fmt.Sprintf("ParseFile: err=%q tree=%s", of.Err, spec.Trunc(of.Canon, 300)))
		}
	})
	// one path, rewritten between two calls with other bytes of the same length, the modification time put back: whatever
	// Stat says, the second call answers for the bytes that are there now
	rewrites := [][2]string{
		{`{"a":1,"b":[true,null]}`, `{"a":2,"b":[null,true]}`}, {`{"k":"old value"}`, `{"k":"new value"}`}, {`{"k":"v"}`, `{"k":"v" `}, {`{"k":"v" `, `{"k":"v"}`},
		{`{"k":[1,2,3]}`, `{"k":[1,2,3]]`}, {`{"a":{"b":{"c":"deep"}}}`, `{"a":{"b":{"c":"DEEP"}}}`}, {`{"x":10}`, `{"y":10}`}, {"{\"s\":\"\xc3\xa9\"}", "{\"s\":\"\xc3\x28\"}"},
		{`{}`, `[]`}, {`{"n":1.5e3}`, `{"n":15e-1}`},
	}
	c.Cases("rewritten-file", len(rewrites)*2, true, func(i int, r *rng.R) {
		pair := rewrites[i/2]
		path := filepath.Join(dir, "rewritten.json")
		stamp := time.Unix(1700000000, 0)
		c.Distinct(fmt.Sprintf("rewritten %d", i))
		var of parseOutcome
		for k, text := range pair {
			if err := os.WriteFile(path, []byte(text), 0o644); err != nil {
				return
			}
			if i%2 == 0 {
				os.Chtimes(path, stamp, stamp)
			}
			of = doParseFile(path)
			c.Count("parsefile_calls")
			want, _ := os.ReadFile(path)
			oo := doParseObject(string(want))
			in := fmt.Sprintf("ParseFile(%s), call %d of 2; the file was written with %s, then with %s (same length, modification time put back: %v)", quoteBytes(path), k+1, quoteBytes(pair[0]), quoteBytes(pair[1]), i%2 == 0)
			if !checkOutcome(c, "ParseFile", in, of) {
				return
			}
			if !sameOutcome(of, oo) {
				c.Violate("parsefile-differs-from-parseobject", in, fmt.Sprintf("ParseObject of the bytes that are in the file now: err=%q tree=%s", oo.Err, spec.Trunc(oo.Canon, 300)), fmt.Sprintf("ParseFile: err=%q tree=%s", of.Err, spec.Trunc(of.Canon, 300)))
				return
			}
		}
		os.Remove(path)
	})
	// files that begin with the signature of another format (compressed streams, archives, byte order marks) or ARE such a
	// stream: ParseFile parses the bytes that are in the file, as ParseObject would
	var gz bytes.Buffer
	zw := gzip.NewWriter(&gz)
	zw.Write([]byte(`{"zipped":true}`))
	zw.Close()
	magics := []string{"\x1f\x8b", "\x1f\x8b\x08\x00", "PK\x03\x04", "BZh9", "\x28\xb5\x2f\xfd", "\xfd7zXZ\x00", "\xef\xbb\xbf", "\xff\xfe", "\xfe\xff", "%PDF-", "#!/bin/sh\n", "\x00\x00\x00\x00", gz.String()}
	c.Cases("magic-prefixes", len(magics)*2, true, func(i int, r *rng.R) {
		text := magics[i/2]
		if i/2 < len(magics)-1 {
			text += []string{` {"a":1}`, `{"a":[1,2],"b":"c"}`}[i%2]
		} else if i%2 == 1 {
			text += `{"after":"the stream"}`
		}
		path := filepath.Join(dir, "magic.json")
		if err := os.WriteFile(path, []byte(text), 0o644); err != nil {
			return
		}
		defer os.Remove(path)
		c.Distinct(fmt.Sprintf("magic %d", i))
		of := doParseFile(path)
		c.Count("parsefile_calls")
		in := "ParseFile of a file holding " + quoteBytes(spec.Trunc(text, 80))
		if !checkOutcome(c, "ParseFile", in, of) {
			return
		}
		if oo := doParseObject(text); !sameOutcome(of, oo) {
			c.Violate("parsefile-differs-from-parseobject", in, fmt.Sprintf("ParseObject of the same bytes: err=%q tree=%s", oo.Err, spec.Trunc(oo.Canon, 300)), fmt.Sprintf("ParseFile: err=%q tree=%s", of.Err, spec.Trunc(of.Canon, 300)))
		}
	})
	// a path whose size as reported by Stat is not what reading it delivers: a named pipe fed by a writer
	c.Cases("fifo", c.N(3, 20), true, func(i int, r0 *rng.R) {
		doc := []string{`{"from":"a pipe","n":[1,2,3]}`, "{\"big\":\"" + strings.Repeat("x", 70000) + "\"}", `{"broken":`}[i%3]
		fifo := filepath.Join(dir, fmt.Sprintf("pipe%d", i))
		os.Remove(fifo)
		if err := syscall.Mkfifo(fifo, 0o600); err != nil {
			c.Count("fifo_not_available")
			return
		}
		defer os.Remove(fifo)
		go func() {
			if w, err := os.OpenFile(fifo, os.O_WRONLY, 0); err == nil {
				w.Write([]byte(doc))
				w.Close()
			}
		}()
		done := make(chan parseOutcome, 1)
		go func() { done <- doParseFile(fifo) }()
		var of parseOutcome
		select {
		case of = <-done:
		case <-time.After(20 * time.Second):
			// nobody opened the pipe for reading (or the read never ends): unblock the writer and call it inconclusive
			if rd, err := os.OpenFile(fifo, os.O_RDONLY|syscall.O_NONBLOCK, 0); err == nil {
				rd.Close()
			}
			c.Inconclusive("ParseFile on a named pipe did not return within 20 s")
			return
		}
		c.Count("fifo_calls")
		c.Distinct(fmt.Sprintf("fifo %d", i))
		oo := doParseObject(doc)
		if !checkOutcome(c, "ParseFile", fifo, of) {
			return
		}
		if !sameOutcome(of, oo) {
			c.Violate("parsefile-differs-from-parseobject", "ParseFile on a named pipe that delivers "+quoteBytes(spec.Trunc(doc, 200)), fmt.Sprintf("ParseObject: err=%q tree=%s", oo.Err, spec.Trunc(oo.Canon, 200)), fmt.Sprintf("ParseFile: err=%q tree=%s", of.Err, spec.Trunc(of.Canon, 200)))
		}
	})
	c.Cases("badpaths", 6, true, func(i int, r *rng.R) {
		var path string
		switch i {
		case 0:
			path = filepath.Join(dir, "does-not-exist.json")
		case 1:
			path = dir // a directory
		case 2:
			path = filepath.Join(dir, strings.Repeat("x", 5000))
		case 3:
			path = ""
		case 4:
			path = filepath.Join(dir, "a\x00b")
		default:
			path = filepath.Join(dir, "noperm.json")
			os.WriteFile(path, []byte("{}"), 0o000)
			defer os.Remove(path)
			if os.Geteuid() == 0 {
				// root reads anything: this case then checks the readable path instead
				o := doParseFile(path)
				c.Count("badpath_calls")
				c.Distinct("noperm-as-root")
				checkOutcome(c, "ParseFile", path, o)
				return
			}
		}
		o := doParseFile(path)
		c.Count("badpath_calls")
		c.Distinct("badpath " + fmt.Sprint(i))
		if !checkOutcome(c, "ParseFile", path, o) {
			return
		}
		if o.NilE {
			c.Violate("parsefile-unreadable-path-accepted", "ParseFile("+quoteBytes(path)+")", "error", "accepted")
		}
	})
	// read fault injected with strace (EIO on read of the file): ParseFile must return an error
	c.Cases("readfault", c.N(2, 6), true, func(i int, r *rng.R) {
		self, err := os.Executable()
		if err != nil {
			c.Count("readfault_skipped")
			return
		}
		if _, err := exec.LookPath("strace"); err != nil {
			c.Count("readfault_skipped")
			return
		}
		path := filepath.Join(dir, fmt.Sprintf("fault%d.json", i))
		os.WriteFile(path, []byte("{\"a\":[1,2,3]}"), 0o644)
		defer os.Remove(path)
		// control run without the fault: must accept
		ctl := exec.Command(self, "-aux", "parsefile", path)
		cb, _ := ctl.CombinedOutput()
		if !strings.Contains(string(cb), "PARSEFILE accepted") {
			c.Count("readfault_skipped")
			return
		}
		cmd := exec.Command("strace", "-f", "-qq", "-o", "/dev/null", "-P", path, "-e", "trace=read", "-e", "inject=read:error=EIO", self, "-aux", "parsefile", path)
		out, _ := cmd.CombinedOutput()
		s := string(out)
		switch {
		case strings.Contains(s, "PARSEFILE error") && strings.Contains(s, "input/output error"):
			c.Count("readfault_injected")
			c.Distinct("readfault " + fmt.Sprint(i))
		case strings.Contains(s, "PARSEFILE accepted"), strings.Contains(s, "PARSEFILE nilnil"), strings.Contains(s, "PARSEFILE both"), strings.Contains(s, "PARSEFILE panic"):
			if strings.Contains(s, "PARSEFILE accepted") && !strings.Contains(s, "EIO") {
				// cannot tell whether the fault was injected at all (ptrace may be unavailable): not a verdict
				c.Count("readfault_skipped")
				return
			}
			c.Violate("parsefile-read-error-dropped", "ParseFile with EIO injected on read", "error", spec.Trunc(s, 500))
		default:
			c.Count("readfault_skipped")
		}
	})

	// (e) nesting depth sweep in-process
	depths := []int{1, 2, 10, 100, 1000, 10000}
	if !c.Quick() {
		depths = append(depths, 100000)
	}
	c.Cases("depth", len(depths)*3, true, func(i int, r *rng.R) {
		d := depths[i/3]
		var text string
		switch i % 3 {
		case 0:
			text = strings.Repeat("[", d) + strings.Repeat("]", d)
		case 1:
			text = strings.Repeat("[", d) // truncated
		default:
			text = strings.Repeat("{\"a\":", d) + "1" + strings.Repeat("}", d)
		}
		c.MarkInput(text)
		c.Max("max_depth", int64(d))
		c.Distinct(fmt.Sprintf("depth %d %d", d, i%3))
		var o parseOutcome
		if i%3 == 2 {
			o = doParseObject(text)
			// cheap outcome check without canonicalising a 100000-deep tree twice
		} else {
			o = doParseList(text)
		}
		if o.Panic != "" || (o.NilC && o.NilE) || (!o.NilC && !o.NilE) {
			checkOutcome(c, "parse", spec.Trunc(text, 100), o)
		}
		if i%3 == 1 && o.NilE {
			c.Violate("truncated-document-accepted", fmt.Sprintf("%d opening brackets", d), "error", "accepted")
		}
		if i%3 != 1 && !o.NilE {
			c.Violate("deep-valid-document-rejected", fmt.Sprintf("nesting depth %d", d), "accepted", o.Err)
		}
	})
	// stack-exhaustion probe in an isolated child with a reduced stack limit
	c.Cases("stackprobe", 2, true, func(i int, r *rng.R) {
		if c.Arch386 {
			return
		}
		self, err := os.Executable()
		if err != nil {
			return
		}
		kind := []string{"list", "object"}[i]
		cmd := exec.Command(self, "-aux", "stackprobe", kind)
		out, _ := cmd.CombinedOutput()
		s := string(out)
		c.Count("stackprobe_runs")
		c.Distinct("stackprobe " + kind)
		if strings.Contains(s, "STACKPROBE survived") {
			return
		}
		if strings.Contains(s, "stack overflow") || strings.Contains(s, "stack exceeds") {
			per := ""
			if j := strings.Index(s, "STACKPROBE"); j >= 0 {
				per = firstLine(s[j:])
			}
			c.Violate("stack-overflow-deep-nesting", fmt.Sprintf("300000 nested %s openings with the goroutine stack limited to 32 MiB (the default 1 GB limit is reached at about 4,000,000 levels)", kind),
				"an error or a container", "fatal error: stack overflow (not recoverable) "+per)
			return
		}
		c.Inconclusive("stack probe ended unexpectedly: " + spec.Trunc(s, 300))
	})
	// the other side of that finding: a complete document of 200 000 levels needs about 50 MB of goroutine stack on the
	// unchanged tree, a twentieth of the default limit. It is parsed in a child with the default limit and must be accepted;
	// dying there is another input than the one the known finding names.
	c.Cases("deepdoc", 2, true, func(i int, r *rng.R) {
		if c.Arch386 {
			return
		}
		self, err := os.Executable()
		if err != nil {
			return
		}
		kind := []string{"list", "object"}[i]
		cmd := exec.Command(self, "-aux", "deepdoc", kind)
		out, _ := cmd.CombinedOutput()
		s := string(out)
		c.Count("deepdoc_runs")
		c.Distinct("deepdoc " + kind)
		in := fmt.Sprintf("a complete %s document nested 200000 levels deep, default goroutine stack limit", kind)
		switch {
		case strings.Contains(s, "DEEPDOC accepted"):
		case strings.Contains(s, "DEEPDOC rejected"):
			c.Violate("deep-valid-document-rejected", in, "accepted", firstLine(s[strings.Index(s, "DEEPDOC rejected"):]))
		case strings.Contains(s, "stack overflow") || strings.Contains(s, "stack exceeds"):
			c.Violate("stack-overflow-at-200000-levels", in, "a container (the unchanged parser needs about 256 bytes of stack per level, 50 MB here)", "fatal error: stack overflow (not recoverable)")
		default:
			c.Inconclusive("deep document probe ended unexpectedly: " + spec.Trunc(s, 300))
		}
	})
}

func auxDeepDoc(args []string) int {
	n := 200000
	var err error
	if len(args) > 0 && args[0] == "object" {
		fmt.Println("DEEPDOC start object", n)
		_, err = at.ParseObject(strings.Repeat("{\"a\":", n) + "1" + strings.Repeat("}", n))
	} else {
		fmt.Println("DEEPDOC start list", n)
		_, err = at.ParseList(strings.Repeat("[", n) + strings.Repeat("]", n))
	}
	if err != nil {
		fmt.Println("DEEPDOC rejected", err)
		return 0
	}
	fmt.Println("DEEPDOC accepted")
	return 0
}

// genBracketyTree: trees whose strings and keys are made of the characters that steer the parser's state machine
// (brackets, quotes, backslash runs, commas, colons), so that cut points fall right after them.
func genBracketyTree(r *rng.R) *spec.Spec {
	pool := []string{"a\\", "\\", "\\\\", "C:\\tmp\\", "]", "[", "}", "{", "[1]", "see [1]", "{\"a\":1}", "\"", "\"]", "\"}", "\\\"", "\\\"]", ",", ":", "a,b", "\\]", "]\\", "x\"y\\", "\\n", "\n", "null", "1", "]]]", "}}}", "\\u0041", "\\\\\""}
	str := func() string {
		if r.Chance(1, 4) {
			return pool[r.Intn(len(pool))] + pool[r.Intn(len(pool))]
		}
		return pool[r.Intn(len(pool))]
	}
	var rec func(k spec.Kind, depth int) *spec.Spec
	rec = func(k spec.Kind, depth int) *spec.Spec {
		s := &spec.Spec{K: k}
		n := r.Range(1, 4)
		for i := 0; i < n; i++ {
			var v *spec.Spec
			switch {
			case depth < 3 && r.Chance(1, 4):
				ck := spec.List
				if r.Bool() {
					ck = spec.Obj
				}
				v = rec(ck, depth+1)
			case r.Chance(1, 5):
				v = spec.GenScalar(r)
			default:
				v = spec.StrV(str())
			}
			if k == spec.List {
				s.L = append(s.L, v)
			} else {
				s.Set(str(), v)
			}
		}
		return s
	}
	if r.Bool() {
		return rec(spec.List, 1)
	}
	return rec(spec.Obj, 1)
}

func firstLine(s string) string {
	if i := strings.IndexByte(s, '\n'); i >= 0 {
		return s[:i]
	}
	return s
}

// history probes: a few fixed inputs are re-parsed after every generated input; their outcome must never change
// (the same input always gives the same outcome, whatever was parsed before).
var c04Probes = []string{"[1]", "[true,null]", "{\"a\":1}", "[1.5,\"s\"]", "{\"k\":[1,{\"x\":\"y\"}]}", "[tru]", "[\"ab", "{\"a\":", "[[2]]", "[ 7 ]"}
var c04ProbeFirst = map[string][2]parseOutcome{}
var c04ProbeIdx int

func c04HistoryProbe(c *fw.Ctx, after string) {
	p := c04Probes[c04ProbeIdx%len(c04Probes)]
	c04ProbeIdx++
	now := [2]parseOutcome{doParseList(p), doParseObject(p)}
	first, ok := c04ProbeFirst[p]
	if !ok {
		c04ProbeFirst[p] = now
		return
	}
	c.Count("history_probes")
	if !sameOutcome(first[0], now[0]) || !sameOutcome(first[1], now[1]) {
		c.Violate("parse-outcome-depends-on-history", fmt.Sprintf("parse of %q after the earlier parse of %s", p, quoteBytes(after)), fmt.Sprintf("the outcome it gave the first time: %+v", first), fmt.Sprintf("%+v", now))
		c04ProbeFirst[p] = now
	}
}

func c04Both(c *fw.Ctx, text string) {
	defer c04HistoryProbe(c, text)
	c.MarkInput(text)
	c.DistinctHash(spec.Hash(text))
	if c.WantSample() && len(text) > 8 && len(text) < 80 {
		c.Sample(map[string]any{"input": fmt.Sprintf("%q", text)})
	}
	if !utf8.ValidString(text) {
		c.Count("inputs_invalid_utf8")
	}
	l1 := doParseList(text)
	if checkOutcome(c, "ParseList", text, l1) {
		l2 := doParseList(text)
		if !sameOutcome(l1, l2) {
			c.Violate("parse-nondeterministic", "ParseList on "+quoteBytes(text), fmt.Sprintf("%+v", l1), fmt.Sprintf("%+v", l2))
		}
		if l1.NilE {
			c.Count("soup_accepted_list")
		}
	}
	o1 := doParseObject(text)
	if checkOutcome(c, "ParseObject", text, o1) {
		o2 := doParseObject(text)
		if !sameOutcome(o1, o2) {
			c.Violate("parse-nondeterministic", "ParseObject on "+quoteBytes(text), fmt.Sprintf("%+v", o1), fmt.Sprintf("%+v", o2))
		}
		if o1.NilE {
			c.Count("soup_accepted_object")
		}
	}
}

func auxStackProbe(args []string) int {
	debug.SetMaxStack(32 << 20)
	n := 300000
	var text string
	if len(args) > 0 && args[0] == "object" {
		text = strings.Repeat("{\"a\":", n)
		fmt.Println("STACKPROBE start object", n)
		_, err := at.ParseObject(text)
		fmt.Println("STACKPROBE survived", err != nil)
		return 0
	}
	text = strings.Repeat("[", n)
	fmt.Println("STACKPROBE start list", n)
	_, err := at.ParseList(text)
	fmt.Println("STACKPROBE survived", err != nil)
	return 0
}

func auxParseFile(args []string) int {
	if len(args) < 1 {
		return 2
	}
	o := doParseFile(args[0])
	switch {
	case o.Panic != "":
		fmt.Println("PARSEFILE panic", o.Panic)
	case o.NilC && o.NilE:
		fmt.Println("PARSEFILE nilnil")
	case !o.NilC && !o.NilE:
		fmt.Println("PARSEFILE both")
	case o.NilE:
		fmt.Println("PARSEFILE accepted", o.Canon)
	default:
		fmt.Println("PARSEFILE error", o.Err)
	}
	return 0
}

func selfC04(s *fw.SelfCheck) {
	s.Expect(!sameOutcome(parseOutcome{Err: "a"}, parseOutcome{Err: "b"}), "outcome comparison ignores the error text")
	for _, bad := range illFormed {
		s.Expect(!utf8.ValidString(bad.bytes), "ill-formed class "+bad.name+" is valid UTF-8")
	}
	r := rng.New(1, "selfC04", 0)
	kinds := map[bool]int{}
	for i := 0; i < 200; i++ {
		kinds[utf8.ValidString(genSoup(r))]++
	}
	s.Expect(kinds[true] > 10 && kinds[false] > 10, "soup generator does not mix valid and invalid UTF-8")
}
