package mon

import (
	"fmt"
	"math"
	"strings"

	at "github.com/DanielSvub/anytype"

	"verifharness/internal/drive"
	"verifharness/internal/fw"
	"verifharness/internal/refjson"
	"verifharness/internal/rng"
	"verifharness/internal/spec"
)

// ---------------------------------------------------------------------------------------------
// Shared workload of the text-output monitors: pinned trees, random trees, the code-point sweep.

func forEachOutputTree(c *fw.Ctx, nQuick, nThorough int, body func(tree *spec.Spec, r *rng.R)) {
	pins := pinnedTrees()
	c.Cases("pinned", len(pins), true, func(i int, r *rng.R) {
		body(pins[i], r)
	})
	c.Cases("trees", c.N(nQuick, nThorough), false, func(i int, r *rng.R) {
		body(genTreeFor(r), r)
	})
	// Code-point sweep: every Unicode scalar value in value and key position, 256 per string.
	chunks := spec.CodePointChunks(256)
	c.Cases("sweep", chunks, true, func(i int, r *rng.R) {
		if c.Quick() && !sweepQuickChunk(i, c.Seed) {
			return
		}
		ch := spec.CodePointChunk(i, 256)
		if ch == "" {
			return
		}
		c.Add("sweep_code_points", int64(len([]rune(ch))))
		var tree *spec.Spec
		if i%2 == 0 {
			tree = spec.ListV(spec.StrV(ch), spec.ObjV(ch, spec.StrV(ch)))
		} else {
			tree = spec.ObjV(ch, spec.ListV(spec.StrV(ch)), "k", spec.StrV(ch))
		}
		body(tree, nil)
	})
}

// sweepQuickChunk selects the chunks the quick tier covers: the hot ranges always, plus a seed-rotated 1/16 stride.
func sweepQuickChunk(i int, seed uint64) bool {
	lo := i * 256
	switch {
	case lo < 0x300, lo >= 0x2000 && lo < 0x2100, lo >= 0xd700 && lo < 0xe100, lo >= 0xff00 && lo < 0x10100,
		lo >= 0xe0000 && lo < 0xe0100, lo >= 0x10ff00, lo >= 0x1ff00 && lo < 0x20000:
		return true
	}
	return i%16 == int(seed%16)
}

func nonTrivialTree(t *spec.Spec) bool { return t.Size() >= 2 }

func noteTree(c *fw.Ctx, tree *spec.Spec) {
	tree.Classes(func(s string) { c.Count("class/" + s) })
	if nonTrivialTree(tree) {
		c.Distinct(tree.Canon())
	}
	c.Max("max_depth", int64(tree.Depth()))
}

// ---------------------------------------------------------------------------------------------
// C01 serialise-then-parse round trip

func init() {
	register(&Monitor{ID: "C01", Run: runC01, Self: selfC01})
	register(&Monitor{ID: "C02", Run: runC02, Self: selfC02})
	register(&Monitor{ID: "C16", Run: runC16, Self: selfC16})
}

// largeFlatTrees: containers with 10 000+ small records (per-element bookkeeping that adds up shows here).
func largeFlatTrees(c *fw.Ctx, body func(tree *spec.Spec, r *rng.R)) {
	c.Cases("large-flat", c.N(6, 30), true, func(i int, r0 *rng.R) {
		if c.Arch386 && i > 1 {
			return
		}
		n := []int{10001, 12000, 20011, 33000}[i%4]
		tree := &spec.Spec{K: spec.List}
		for j := 0; j < n; j++ {
			var rec *spec.Spec
			switch i % 6 {
			case 0:
				rec = spec.ObjV()
			case 1:
				rec = spec.ListV()
			case 2:
				rec = spec.ObjV("id", spec.IntV(j), "tags", spec.ListV(spec.StrV("x")), "e", spec.ObjV())
			case 3:
				rec = spec.ListV(spec.ObjV(), spec.ObjV(), spec.ListV())
			case 4:
				rec = spec.FloatV(float64(j) / 8)
			default:
				rec = spec.StrV("s\"" + fmt.Sprint(j))
			}
			tree.L = append(tree.L, rec)
		}
		if i%2 == 1 {
			o := &spec.Spec{K: spec.Obj}
			for j, rec := range tree.L[:n/3] {
				o.Keys = append(o.Keys, fmt.Sprintf("k%d", j))
				o.Vals = append(o.Vals, rec)
			}
			tree = o
		}
		c.Add("large_flat_records", int64(tree.Len()))
		body(tree, nil)
	})
}

// longStringTrees: strings and keys of 4 KiB ... 64 KiB made of multi-byte characters, behind 0..3 bytes of ASCII, so that
// every block boundary a serializer or parser might work with (4096, 8192, 65536 bytes, of the value or of the output)
// falls inside a character for some of them; now and then a character that needs escaping shifts the output.
func longStringTrees(c *fw.Ctx, body func(tree *spec.Spec, r *rng.R)) {
	chars := []string{string(rune(0xe9)), string(rune(0x20ac)), string(rune(0x1f600)), string(rune(0x2028)), string(rune(0x7ff)), string(rune(0xffff))}
	sizes := []int{4096, 8192, 65536}
	c.Cases("long-strings", len(chars)*len(sizes)*4, true, func(i int, r0 *rng.R) {
		ch := chars[i%len(chars)]
		size := sizes[(i/len(chars))%len(sizes)]
		pre := i / (len(chars) * len(sizes))
		if c.Arch386 && size > 8192 {
			return
		}
		var b strings.Builder
		b.WriteString("abc"[:pre])
		for b.Len() < size+2*len(ch)+3 {
			b.WriteString(ch)
			if i%5 == 4 && b.Len()%1000 < len(ch) {
				b.WriteString("\"\n")
			}
		}
		long := b.String()
		tree := spec.ListV(spec.StrV(long), spec.ObjV(long, spec.StrV("v"), "k", spec.StrV(long[pre:])), spec.StrV("tail"))
		if i%2 == 1 {
			half := "abc"[:pre] + strings.Repeat(ch, size/2/len(ch)+1) // (cut between characters, not inside one)
			tree = spec.ObjV("a", spec.StrV(long), half, spec.ListV(spec.StrV(long)))
		}
		c.Add("long_string_bytes", int64(len(long)))
		body(tree, nil)
	})
}

// deepOutputTrees: chains far deeper than the random trees (serializer recursion, nested buffers).
func deepOutputTrees(c *fw.Ctx, body func(tree *spec.Spec, r *rng.R)) {
	depths := []int{40, 129, 1000, 5000, 9999, 10001, 10002} // (10000 is where encoding/json's scanner gives up)
	if !c.Quick() {
		depths = append(depths, 20000)
	}
	c.Cases("deep", len(depths)*2, true, func(i int, r0 *rng.R) {
		d := depths[i/2]
		if c.Arch386 && d > 5000 {
			return
		}
		tree := spec.ListV(spec.FloatV(1), spec.StrV("leaf\n"), spec.ObjV())
		for j := 0; j < d; j++ {
			if (j+i)%2 == 0 {
				tree = spec.ListV(tree)
			} else {
				tree = spec.ObjV("k\"", tree)
			}
		}
		c.Max("max_depth", int64(d))
		body(tree, nil)
	})
}

func runC01(c *fw.Ctx) {
	forEachOutputTree(c, 4000, 2000000, func(tree *spec.Spec, r *rng.R) {
		guard(c, func() string { return spec.Trunc(describeTree(tree), 3000) }, func() { c01Case(c, tree, r) })
	})
	deepOutputTrees(c, func(tree *spec.Spec, r *rng.R) {
		guard(c, func() string { return spec.Trunc(describeTree(tree), 300) }, func() { c01Case(c, tree, r) })
	})
	largeFlatTrees(c, func(tree *spec.Spec, r *rng.R) {
		guard(c, func() string { return spec.Trunc(describeTree(tree), 300) }, func() { c01Case(c, tree, r) })
	})
	longStringTrees(c, func(tree *spec.Spec, r *rng.R) {
		guard(c, func() string { return spec.Trunc(describeTree(tree), 300) }, func() { c01Case(c, tree, r) })
	})
	numericOrigins(c, func(tree *spec.Spec, r *rng.R) {
		guard(c, func() string { return spec.Trunc(describeTree(tree), 3000) }, func() { c01Case(c, tree, r) })
	})
	historyCases(c, "history", 600, 60000, probeRoundTrip)
}

// givenReal, when set, is the container the next tree-based case works on instead of building one from the tree.
var givenReal any

func buildOrGiven(r *rng.R, tree *spec.Spec) any {
	if givenReal != nil {
		return givenReal
	}
	return drive.Build(r, tree)
}

// numericOrigins: containers whose numbers were handed over in other Go types, among them unsigned values beyond the int
// range (what the library makes of those is stated nowhere, so the reference is whatever the container holds afterwards,
// read back element by element; a constructor that refuses such a value is fine). What a container prints has to be
// what it holds, wherever its content came from.
func numericOrigins(c *fw.Ctx, judge func(tree *spec.Spec, r *rng.R)) {
	vals := []any{uint64(math.MaxUint64), uint64(1) << 63, uint64(1)<<63 + 12345, uint64(math.MaxInt64), uint(math.MaxUint), uint(math.MaxUint/2 + 1), uint32(math.MaxUint32), uint32(1) << 31,
		int64(math.MinInt64), int64(1)<<40 + 7, -(int64(1) << 40), int32(math.MinInt32), uint16(65535), uint8(200), int8(-128), float32(0.1), float32(3.4e38), float32(1e-45), uint64(1) << 53, uint64(1)<<53 + 1}
	var builders []func() any
	for _, v := range vals {
		v := v
		builders = append(builders,
			func() any { return at.NewList(v) },
			func() any { return at.NewObject("k", v) },
			func() any { return at.NewList(1, []any{v, map[string]any{"deep": v}}, 2.5) },
			func() any { return at.NewObject().SetTF(".a#1.b", v) })
	}
	builders = append(builders,
		func() any { return at.NewList(vals...) },
		func() any { return at.NewListFrom(vals) },
		func() any { return at.NewList().Add(vals...).Insert(3, vals[0]).Replace(0, vals[1]) },
		func() any {
			m := map[string]any{}
			for i, v := range vals {
				m[fmt.Sprintf("k%d", i)] = v
			}
			return at.NewObjectFrom(m)
		})
	c.Cases("numeric-origins", len(builders), true, func(i int, r *rng.R) {
		var real any
		if p, _ := drive.Protect(func() { real = builders[i]() }); p {
			c.Count("numeric_origins_refused_by_the_library")
			return
		}
		w, err := drive.Walk(real)
		if err != nil {
			c.Violate("container-unwalkable", fmt.Sprintf("numeric-origins builder %d", i), "a consistent container", err.Error())
			return
		}
		c.Count("numeric_origin_containers")
		givenReal = real
		defer func() { givenReal = nil }()
		judge(w.ToSpec(), r)
	})
}

func c01Case(c *fw.Ctx, tree *spec.Spec, r *rng.R) {
	noteTree(c, tree)
	real := buildOrGiven(r, tree)
	text := stringOf(real)
	c.MarkInput(text)
	if c.WantSample() && tree.Size() > 3 && tree.Size() < 30 {
		c.Sample(map[string]any{"tree": tree.Canon(), "String()": text})
	}
	in := func() string { return describeTree(tree) + "\nString() = " + text }
	parsed, err, pan := parseRoot(tree.K, text)
	if pan != "" {
		c.Violate("roundtrip-parse-panic", in(), "parse of String() succeeds", "panic: "+pan)
		return
	}
	if err != nil || parsed == nil {
		c.Violate("roundtrip-parse-error", in(), "parse of String() returns no error", fmt.Sprintf("error: %v", err))
		return
	}
	// Equals on parse results nobody has read yet (a parser may postpone work until the first read): as the argument of
	// the original's Equals, and two untouched parse results against each other; judged below, once the content is known
	// to be right
	untouchedOK, untouchedWhat := true, ""
	if tree.Size() < 5000 {
		pa, _, _ := parseRoot(tree.K, text)
		pb, _, _ := parseRoot(tree.K, text)
		pc, _, _ := parseRoot(tree.K, text)
		if pa != nil && pb != nil && pc != nil {
			drive.Protect(func() {
				if !equalsOf(real, pa) {
					untouchedOK, untouchedWhat = false, "original.Equals(parse result that was not read before)"
				} else if !equalsOf(pb, pc) {
					untouchedOK, untouchedWhat = false, "two parse results of the same text, neither read before"
				}
			})
			c.Count("equals_on_untouched_parse_results")
		}
	}
	w, werr := drive.Walk(parsed)
	if werr != nil {
		c.Violate("roundtrip-unwalkable", in(), "a consistent container", werr.Error())
		return
	}
	if d := drive.Diff(w, tree); d != "" {
		sig := "roundtrip-differs"
		if strings.Contains(d, "kind int, expected float") {
			sig = "roundtrip-float-became-int"
		} else if strings.Contains(d, "kind float, expected int") {
			sig = "roundtrip-int-became-float"
		} else if strings.Contains(d, ": string ") {
			sig = "roundtrip-string-differs"
		} else if strings.Contains(d, "key") {
			sig = "roundtrip-key-differs"
		}
		c.Violate(sig, in(), "re-parsed container equals the original tree", d+"\nre-parsed = "+spec.Trunc(w.Canon(), 600))
		return
	}
	if !untouchedOK {
		c.Violate("roundtrip-equals-false", in(), "Equals is true: "+untouchedWhat+" (the walker sees identical content)", "Equals returned false")
		return
	}
	for rep := 0; rep < 3; rep++ { // repeated: object comparison walks a map in a different order each time
		if !equalsOf(parsed, real) || !equalsOf(real, parsed) {
			c.Violate("roundtrip-equals-false", in(), "parsed.Equals(original) and original.Equals(parsed) are true (walker sees identical content)", "Equals returned false")
			return
		}
	}
	// second round trip
	text2 := stringOf(parsed)
	parsed2, err2, pan2 := parseRoot(tree.K, text2)
	if pan2 != "" || err2 != nil || parsed2 == nil {
		c.Violate("second-roundtrip-error", in()+"\nsecond String() = "+text2, "second round trip parses", fmt.Sprintf("error: %v panic: %s", err2, pan2))
		return
	}
	w2, werr2 := drive.Walk(parsed2)
	if werr2 != nil {
		c.Violate("second-roundtrip-unwalkable", in(), "a consistent container", werr2.Error())
		return
	}
	if d := drive.Diff(w2, tree); d != "" {
		c.Violate("second-roundtrip-differs", in()+"\nsecond String() = "+text2, "second round trip equals the original", d)
		return
	}
	if !equalsOf(parsed2, parsed) {
		c.Violate("second-roundtrip-equals-false", in(), "Equals true", "Equals false")
	}
}

func selfC01(s *fw.SelfCheck) {
	// the comparator must notice a float that came back as an int, a changed string, a lost key
	t := spec.ListV(spec.FloatV(1))
	w, _ := drive.Walk(at.NewList(1))
	s.Expect(drive.Diff(w, t) != "", "C01 comparator misses float->int")
	w, _ = drive.Walk(at.NewList(1.0))
	s.Expect(drive.Diff(w, t) == "", "C01 comparator rejects identical tree")
	w, _ = drive.Walk(at.NewObject("a", "x"))
	s.Expect(drive.Diff(w, spec.ObjV("a", spec.StrV("y"))) != "", "C01 comparator misses changed string")
	s.Expect(drive.Diff(w, spec.ObjV("b", spec.StrV("x"))) != "", "C01 comparator misses renamed key")
}

// ---------------------------------------------------------------------------------------------
// C02 String() is standard JSON

// checkJSONText validates library-produced text with both references and compares the decoded data with the tree.
// Returns true when the text is fine.
func checkJSONText(c *fw.Ctx, what string, text string, tree *spec.Spec, in func() string) bool {
	strict, lone, depth, serr := refjson.ParseInfo(text, IntBits)
	std, derr := refjson.DecodeStd(text, IntBits)
	if serr != nil {
		detail := serr.Error()
		if derr != nil {
			detail += " | encoding/json: " + derr.Error()
		} else {
			detail += " | encoding/json accepts it"
		}
		sig := what + "-not-valid-json"
		if text == "" {
			sig = what + "-empty-output"
		}
		c.Violate(sig, in(), what+" output is one valid RFC 8259 JSON text", detail)
		return false
	}
	if lone > 0 {
		c.Violate(what+"-lone-surrogate-escape", in(), "no lone surrogate escapes for valid UTF-8 strings", fmt.Sprintf("%d lone surrogate escapes", lone))
		return false
	}
	if derr != nil {
		if depth < 9000 {
			c.Inconclusive(fmt.Sprintf("reference split: strict parser accepts, encoding/json rejects (%v): %s", derr, spec.Trunc(text, 300)))
		}
	} else if d := jsonDataDiff(std, tree, ""); d != "" {
		c.Violate(what+"-decodes-differently", in(), "an independent decoder (encoding/json) recovers the container's content", d)
		return false
	}
	if d := jsonDataDiff(strict, tree, ""); d != "" {
		c.Violate(what+"-decodes-differently", in(), "a strict RFC 8259 decoder recovers the container's content", d)
		return false
	}
	return true
}

func runC02(c *fw.Ctx) {
	c02Tree := func(tree *spec.Spec, r *rng.R) {
		guard(c, func() string { return describeTree(tree) }, func() {
			noteTree(c, tree)
			real := buildOrGiven(r, tree)
			text := stringOf(real)
			textCopy := strings.Clone(text)
			defer func() {
				// what String() returned stays what it was while later calls (of this and of other containers) run
				other := at.NewList("another container", 1, 2.5).String() + at.NewObject("k", "v").String()
				if text != textCopy {
					c.Violate("string-output-changes-afterwards", describeTree(tree)+"\nthe string returned by the first String(), looked at again after later String() calls (the last ones gave "+other+")", textCopy, text)
				}
			}()
			c.MarkInput(text)
			if c.WantSample() && tree.Size() > 3 && tree.Size() < 30 {
				c.Sample(map[string]any{"tree": tree.Canon(), "String()": text})
			}
			if checkJSONText(c, "string", text, tree, func() string { return describeTree(tree) + "\nString() = " + text }) && tree.Size() < 200 {
				// objects are serialised in map iteration order, which changes from call to call: two more renderings
				for rep := 0; rep < 2; rep++ {
					t2 := stringOf(real)
					if t2 != text {
						c.Count("string_renderings_in_another_key_order")
						if !checkJSONText(c, "string", t2, tree, func() string { return describeTree(tree) + "\nString() (another call) = " + t2 }) {
							break
						}
					}
				}
			}
		})
	}
	forEachOutputTree(c, 4000, 2000000, c02Tree)
	numericOrigins(c, c02Tree)
	overridingHolders(c, func(real any, want *spec.Spec, where string, r *rng.R) {
		guard(c, func() string { return where }, func() {
			for rep := 0; rep < 2; rep++ {
				text := stringOf(real)
				if !checkJSONText(c, "string", text, want, func() string { return where + "\nString() = " + spec.Trunc(text, 2000) }) {
					return
				}
			}
		})
	})
	historyCases(c, "history", 600, 60000, probeJSONText)
	for _, gen := range []func(*fw.Ctx, func(*spec.Spec, *rng.R)){deepOutputTrees, largeFlatTrees, longStringTrees} {
		gen(c, func(tree *spec.Spec, r *rng.R) {
			guard(c, func() string { return spec.Trunc(describeTree(tree), 300) }, func() {
				real := drive.Build(r, tree)
				text := stringOf(real)
				checkJSONText(c, "string", text, tree, func() string { return spec.Trunc(describeTree(tree), 300) })
			})
		})
	}
}

func selfC02(s *fw.SelfCheck) {
	bad := []string{"[\"\\x01\"]", "[\"\\a\"]", "[1,]", "[01]", "[\"a\nb\"]", "[1] x", "{\"a\":1,}", "[NaN]", "[\"\\U000e0001\"]", "", "[1.]", "[.5]", "[+1]", "['a']"}
	for _, b := range bad {
		_, err := refjson.Parse(b, 64)
		s.Expect(err != nil, "strict parser accepts invalid JSON "+b)
	}
	good := []string{"[]", " [ 1 , 2.5e-3 , \"\\u00e9\\n\" , null , true , { \"a\" : [ ] } ] ", "{\"a\":{\"a\":1,\"a\":2}}", "\"x\"", "[-0]", "[1E+2]"}
	for _, g := range good {
		v1, e1 := refjson.Parse(g, 64)
		v2, e2 := refjson.DecodeStd(g, 64)
		s.Expect(e1 == nil && e2 == nil, "references reject valid JSON "+g)
		if e1 == nil && e2 == nil {
			s.Expect(spec.Equal(v1, v2), "references disagree on "+g)
		}
	}
	got, _ := refjson.Parse("[1]", 64)
	s.Expect(jsonDataDiff(got, spec.ListV(spec.IntV(2)), "") != "", "C02 comparator misses a changed int")
	got, _ = refjson.Parse("[1]", 64)
	s.Expect(jsonDataDiff(got, spec.ListV(spec.FloatV(1)), "") == "", "C02 comparator demands a float marker (JSON has none)")
	got, _ = refjson.Parse("[0.1]", 64)
	s.Expect(jsonDataDiff(got, spec.ListV(spec.FloatV(0.10000000149011612)), "") != "", "C02 comparator misses float32 rounding")
	got, _ = refjson.Parse("[9223372036854775808]", 64)
	s.Expect(jsonDataDiff(got, spec.ListV(spec.IntV(int(^uint(0)>>1))), "") != "", "C02 comparator misses an off-by-one big int")
}

// ---------------------------------------------------------------------------------------------
// C16 FormatString

func runC16(c *fw.Ctx) {
	forEachOutputTree(c, 1000, 400000, func(tree *spec.Spec, r *rng.R) {
		guard(c, func() string { return describeTree(tree) }, func() { c16Case(c, tree, r) })
	})
	numericOrigins(c, func(tree *spec.Spec, r *rng.R) {
		guard(c, func() string { return describeTree(tree) }, func() { c16Case(c, tree, r) })
	})
	longStringTrees(c, func(tree *spec.Spec, r *rng.R) {
		guard(c, func() string { return spec.Trunc(describeTree(tree), 300) }, func() { c16Case(c, tree, r) })
	})
	historyCases(c, "history", 400, 40000, probeFormat)
	overridingHolders(c, func(real any, want *spec.Spec, where string, r *rng.R) {
		guard(c, func() string { return where }, func() {
			indent := []int{0, 1, 2, 4, 10}[r.Intn(5)]
			out := formatOf(real, indent)
			checkJSONText(c, "format", out, want, func() string {
				return fmt.Sprintf("%s\nFormatString(%d) = %s", where, indent, spec.Trunc(out, 2000))
			})
		})
	})
	// very long lines (a single string / key beyond 64 KiB) inside nested containers, a few indents only
	c.Cases("long-lines", c.N(4, 24), true, func(i int, r0 *rng.R) {
		if c.Arch386 {
			return
		}
		n := []int{65530, 65536, 70000, 200000}[i%4]
		long := strings.Repeat("x", n)
		var tree *spec.Spec
		switch (i / 4) % 3 {
		case 0:
			tree = spec.ObjV("b", spec.ListV(spec.StrV("x"), spec.StrV(long), spec.IntV(1)), "c", spec.BoolV(true))
		case 1:
			tree = spec.ObjV("o", spec.ObjV(long, spec.IntV(1), "z", spec.ListV(spec.StrV(long))), "c", spec.NilV())
		default:
			tree = spec.ListV(spec.ObjV("k", spec.ListV(spec.StrV(long))), spec.StrV("tail"))
		}
		guard(c, func() string { return fmt.Sprintf("tree with a %d-byte string in a nested container", n) }, func() {
			real := drive.Build(nil, tree)
			for _, indent := range []int{0, 2, 10} {
				out := formatOf(real, indent)
				c.Count("format_calls")
				in := func() string {
					return fmt.Sprintf("tree with a %d-byte string in a nested container, FormatString(%d)", n, indent)
				}
				if !checkJSONText(c, "format", out, tree, in) {
					return
				}
				if re, err := refjson.Reindent(out, indent); err == nil && re != out {
					c.Violate("format-not-canonical-layout", in(), "canonical layout", spec.Trunc(out, 300))
					return
				}
			}
			c.Distinct(fmt.Sprintf("long-lines %d", i))
		})
	})
	// deep chains (indentation wider than typical pad buffers) and long lists with nested containers
	shapes := []int{13, 14, 20, 33, 40, 65, 130, 300}
	c.Cases("deep-and-long", len(shapes)*4, true, func(i int, r0 *rng.R) {
		r := rng.New(c.Seed, "C16/deep-and-long", i)
		var tree *spec.Spec
		if i%2 == 0 {
			d := shapes[i/4]
			tree = spec.ListV(spec.IntV(1), spec.StrV("leaf"))
			for j := 0; j < d; j++ {
				if (j+i/2)%2 == 0 {
					tree = spec.ListV(spec.IntV(j), tree)
				} else {
					tree = spec.ObjV("k", tree, "n", spec.IntV(j))
				}
			}
		} else {
			n := []int{255, 256, 257, 300, 512, 1000, 1025, 4097}[i/4]
			tree = &spec.Spec{K: spec.List}
			for j := 0; j < n; j++ {
				switch r.Intn(8) {
				case 0:
					tree.L = append(tree.L, spec.ObjV("k", spec.ListV(spec.IntV(j)), "e", spec.ListV()))
				case 1:
					tree.L = append(tree.L, spec.ListV(spec.ObjV("k", spec.IntV(j))))
				default:
					tree.L = append(tree.L, spec.IntV(j))
				}
			}
			if i%4 == 3 {
				tree = spec.ObjV("long", tree)
			}
		}
		guard(c, func() string { return spec.Trunc(describeTree(tree), 2000) }, func() { c16Case(c, tree, r) })
	})
	// illegal indents on a few containers
	c.Cases("illegal-indent", c.N(200, 50000), false, func(i int, r *rng.R) {
		tree := genTreeFor(r)
		guard(c, func() string { return describeTree(tree) }, func() {
			real := drive.Build(r, tree)
			var ind int
			switch r.Intn(9) {
			case 6:
				ind = 256*r.Range(1, 300) + r.Intn(11) // low byte is a legal indent
			case 7:
				ind = (1 << uint(r.Range(8, 30))) + r.Intn(11)
			case 8:
				ind = -256*r.Range(1, 300) + r.Intn(11)
			case 0:
				ind = -1
			case 1:
				ind = 11
			case 2:
				ind = -r.Range(1, 100)
			case 3:
				ind = r.Range(11, 100)
			case 4:
				ind = -int(^uint(0)>>1) - 1
			default:
				ind = int(^uint(0) >> 1)
			}
			before := stringCanon(real)
			p, _ := drive.Protect(func() { formatOf(real, ind) })
			c.Count("illegal_indent_calls")
			c.Distinct(fmt.Sprintf("illegal %d %s", ind, tree.K))
			if !p {
				c.Violate("illegal-indent-accepted", fmt.Sprintf("%s\nFormatString(%d)", describeTree(tree), ind), "panic for an indent outside 0..10", "no panic")
			}
			if after := stringCanon(real); after != before {
				c.Violate("format-modifies-container", describeTree(tree), "container unchanged", after)
			}
		})
	})
}

func stringCanon(real any) string {
	w, err := drive.Walk(real)
	if err != nil {
		return "unwalkable: " + err.Error()
	}
	return w.Canon()
}

func c16Case(c *fw.Ctx, tree *spec.Spec, r *rng.R) {
	noteTree(c, tree)
	real := buildOrGiven(r, tree)
	before := stringCanon(real) // (taken through the harness's own walker before anything is printed)
	plain := stringOf(real)
	// what a call returned stays what it was while later calls run: every output is kept next to a private copy of its bytes
	type keptOutput struct {
		indent     int
		kept, copy string
	}
	kept := []keptOutput{{-1, plain, strings.Clone(plain)}}
	defer func() {
		for _, k := range kept {
			if k.kept != k.copy {
				c.Violate("format-output-changes-afterwards", fmt.Sprintf("%s\nthe string returned by FormatString(%d) (-1: String()), looked at again after the later calls", describeTree(tree), k.indent), k.copy, k.kept)
				return
			}
		}
	}()
	for indent := 0; indent <= 10; indent++ {
		c.MarkInput(fmt.Sprintf("indent %d of %s", indent, plain))
		in := func() string {
			return fmt.Sprintf("%s\nFormatString(%d)", describeTree(tree), indent)
		}
		var out string
		if p, msg := drive.Protect(func() { out = formatOf(real, indent) }); p {
			c.Violate("format-legal-indent-panics", in(), "no panic for indent 0..10", msg)
			continue
		}
		c.Count("format_calls")
		kept = append(kept, keptOutput{indent, out, strings.Clone(out)})
		in2 := func() string { return in() + " = " + out + "\nString() = " + plain }
		if out == "" {
			c.Violate("format-empty-output", in2(), "non-empty output", "empty string")
			continue
		}
		if !checkJSONText(c, "format", out, tree, in2) {
			continue
		}
		re, err := refjson.Reindent(out, indent)
		if err != nil {
			c.Inconclusive("re-indenter rejected text the strict parser accepted: " + err.Error())
			continue
		}
		if re != out {
			c.Violate("format-not-canonical-layout", in2(), "canonical re-indentation reproduces the output byte for byte:\n"+re, out)
			continue
		}
		// same data as String(): the token texts (strings and number literals) must denote the same values
		ps, e1 := refjson.Parse(plain, IntBits)
		pf, e2 := refjson.Parse(out, IntBits)
		if e1 == nil && e2 == nil {
			if d := sameJSONData(pf, ps, ""); d != "" {
				c.Violate("format-data-differs-from-string", in2(), "same data as String()", d)
			}
		}
		if c.WantSample() && tree.Size() > 3 && tree.Size() < 12 && indent == 2 {
			c.Sample(map[string]any{"tree": tree.Canon(), "indent": indent, "FormatString": out})
		}
	}
	if after := stringCanon(real); after != before {
		c.Violate("format-modifies-container", describeTree(tree), before, after)
	}
}

// sameJSONData compares two decoded texts; numbers must denote exactly the same rational value.
func sameJSONData(a, b *spec.Spec, path string) string {
	an := a.K == spec.Int || a.K == spec.Float
	bn := b.K == spec.Int || b.K == spec.Float
	if an && bn {
		if !sameRat(a.Lit, b.Lit) {
			return fmt.Sprintf("at %s: number %q vs %q", path, a.Lit, b.Lit)
		}
		return ""
	}
	if a.K != b.K {
		return fmt.Sprintf("at %s: %s vs %s", path, a.K, b.K)
	}
	switch a.K {
	case spec.Bool:
		if a.B != b.B {
			return fmt.Sprintf("at %s: bool differs", path)
		}
	case spec.Str:
		if a.S != b.S {
			return fmt.Sprintf("at %s: string differs", path)
		}
	case spec.List:
		if len(a.L) != len(b.L) {
			return fmt.Sprintf("at %s: length %d vs %d", path, len(a.L), len(b.L))
		}
		for i := range a.L {
			if d := sameJSONData(a.L[i], b.L[i], fmt.Sprintf("%s#%d", path, i)); d != "" {
				return d
			}
		}
	case spec.Obj:
		if len(a.Keys) != len(b.Keys) {
			return fmt.Sprintf("at %s: key count %d vs %d", path, len(a.Keys), len(b.Keys))
		}
		for i, k := range b.Keys {
			o := a.Get(k)
			if o == nil {
				return fmt.Sprintf("at %s: key %q missing", path, k)
			}
			if d := sameJSONData(o, b.Vals[i], path+"."+k); d != "" {
				return d
			}
		}
	}
	return ""
}

func selfC16(s *fw.SelfCheck) {
	re, err := refjson.Reindent("[1,{\"a\":[],\"b\":{}},[2]]", 2)
	s.Expect(err == nil && re == "[\n  1,\n  {\n    \"a\": [],\n    \"b\": {}\n  },\n  [\n    2\n  ]\n]", "re-indenter layout wrong: "+re)
	re0, _ := refjson.Reindent("[1,2]", 0)
	s.Expect(re0 == "[\n1,\n2\n]", "re-indenter indent 0 wrong: "+re0)
	re1, _ := refjson.Reindent("{\"a\\\\\":\"x,y\"}", 1)
	s.Expect(re1 == "{\n \"a\\\\\": \"x,y\"\n}", "re-indenter mishandles backslash before quote: "+re1)
	s.Expect(sameRat("1.0", "1") && !sameRat("1.0", "1.1"), "rational comparison broken")
}
