package mon

import (
	"fmt"
	"os"
	"path/filepath"
	"regexp"
	"strconv"
	"strings"
	"sync"

	at "github.com/DanielSvub/anytype"

	"verifharness/internal/drive"
	"verifharness/internal/fw"
	"verifharness/internal/refjson"
	"verifharness/internal/rng"
	"verifharness/internal/spec"
)

func init() { register(&Monitor{ID: "C20", Run: runC20, Self: selfC20}) }

// errDoc is a document with exactly one injected syntax error at a known place.
type errDoc struct {
	Text     string
	Kind     string       // K1..K4
	Token    string       // the injected token (as the message must quote it)
	Lines    map[int]bool // accepted 1-based line numbers
	Injected bool
}

type errRender struct {
	r        *rng.R
	b        strings.Builder
	kind     string
	target   int // which candidate site gets the error
	seen     int // candidate sites seen so far
	doc      *errDoc
	nlWeight int
	pending  bool // an invalid literal was written: the next delimiter's line is accepted too
	// wideBlanks: blanks of several bytes between tokens (the probe pass and the real pass use the same setting)
	wideBlanks bool
}

// delim writes a ',' ']' or '}' and, right after an injected literal, records its line.
func (e *errRender) delim(ch byte) {
	if e.pending {
		e.pending = false
		e.doc.Lines[e.line()] = true
	}
	e.b.WriteByte(ch)
}

var badLiterals = []string{"tru", "nul", "@", "1..2", "x", "fals", "nill", "1e", "--1", "TRUE1", "0x", "1.2.3", "abc",
	// invalid literals with characters of two, three and four bytes (byte offsets and character counts drift apart)
	"tr" + string(rune(0xfc)), "nul" + string(rune(0xe9)), "fals" + string(rune(0x20ac)), "x" + string(rune(0x1f600)), string(rune(0xe9)), string(rune(0xf1)) + "ul", "nu" + string(rune(0x3bb)) + string(rune(0x3bb))}
var strayChars = []string{"@", "x", "2", ":", "]", "?", "%", string(rune(0xe9)), string(rune(0x20ac)), string(rune(0x1f600))}

// quoteForLines renders a string or key literal; now and then with pieces a lenient parser takes inside a literal and
// that contain line breaks: a raw LF, a backslash directly followed by a raw LF, CR LF (they all count as line breaks of the
// input, the writer's own line counter sees them in the text)
func (e *errRender) quoteForLines(s string) string {
	q := refjson.Quote(s)
	if !e.r.Chance(1, 6) {
		return q
	}
	piece := []string{"\n", "\\\n", "\r\n", "\\\n\\\n", "x\\\ny", "\n\n"}[e.r.Intn(6)]
	return q[:len(q)-1] + piece + "\""
}

func (e *errRender) ws() {
	n := e.r.Intn(3)
	if e.wideBlanks && e.r.Chance(1, 10) {
		// a blank of several bytes (where the parser tolerates it), followed by ASCII blanks and a line break
		e.b.WriteString(string(rune([]int{0xa0, 0x2028, 0x3000, 0x85}[e.r.Intn(4)])))
		e.b.WriteString([]string{" \n", "\t\n", " ", " \t\n"}[e.r.Intn(4)])
	}
	for i := 0; i < n; i++ {
		if e.r.Intn(10) < e.nlWeight {
			e.b.WriteByte('\n')
		} else {
			e.b.WriteByte(" \t\r"[e.r.Intn(3)])
		}
	}
}

func (e *errRender) line() int { return 1 + strings.Count(e.b.String(), "\n") }

func (e *errRender) site(kind string) bool {
	if e.kind != kind {
		return false
	}
	hit := e.seen == e.target
	e.seen++
	return hit && !e.doc.Injected
}

// badLiteral writes an invalid literal (possibly split by whitespace, which the parser skips inside values).
func (e *errRender) badLiteral() {
	tok := badLiterals[e.r.Intn(len(badLiterals))]
	if e.r.Chance(1, 4) {
		// long invalid literals (messages that quote them get long)
		n := []int{40, 79, 80, 81, 82, 83, 84, 85, 100, 127, 128, 129, 200, 300}[e.r.Intn(14)]
		tok = strings.Repeat("x", n-1) + "y"
	}
	e.doc.Token = tok
	e.doc.Injected = true
	wide := false
	for i, ch := range tok {
		if i > 0 && e.r.Chance(1, 6) {
			e.ws()
		}
		e.b.WriteRune(ch)
		wide = ch > 0x7f
	}
	if wide && e.r.Bool() {
		// a character of several bytes, then an ASCII blank, then a line break within the next few bytes
		e.b.WriteString([]string{" \n", "\t\n", " \t\n", " \n\n"}[e.r.Intn(4)])
	}
	e.pending = true
}

func (e *errRender) stray() {
	tok := strayChars[e.r.Intn(len(strayChars))]
	for e.kind == "K3" && tok == ":" {
		tok = strayChars[e.r.Intn(len(strayChars))]
	}
	e.doc.Token = tok
	e.doc.Injected = true
	e.doc.Lines[e.line()] = true
	e.b.WriteString(tok)
	if tok[0] > 0x7f && e.r.Bool() {
		e.b.WriteString([]string{" \n", "\t\n", " \t\n"}[e.r.Intn(3)])
	}
}

func (e *errRender) value(s *spec.Spec) {
	if e.site("K1") {
		e.badLiteral()
		return
	}
	switch s.K {
	case spec.List:
		e.b.WriteByte('[')
		e.ws()
		for i, v := range s.L {
			if i > 0 {
				e.delim(',')
				e.ws()
			}
			if e.r.Chance(1, 10) {
				// empty elements (commas with nothing but blanks between them): the parser steps over them, their line
				// breaks are line breaks of the input like any other
				for k := 1 + e.r.Intn(3); k > 0; k-- {
					e.b.WriteByte(',')
					e.ws()
				}
			}
			e.value(v)
			e.ws()
		}
		e.delim(']')
	case spec.Obj:
		e.b.WriteByte('{')
		e.ws()
		for i, k := range s.Keys {
			if i > 0 {
				e.delim(',')
				e.ws()
			}
			if e.site("K2") {
				e.stray()
				e.ws()
			}
			e.b.WriteString(e.quoteForLines(k))
			e.ws()
			if e.site("K3") {
				e.stray()
				e.ws()
			} else {
				e.b.WriteByte(':')
			}
			e.ws()
			v := s.Vals[i]
			e.value(v)
			e.ws()
			if v.IsContainer() && e.site("K4") {
				e.stray()
				e.ws()
			}
		}
		e.delim('}')
	default:
		// plain scalars: ASCII-only rendering is enough here, the subject is line counting
		switch s.K {
		case spec.Nil:
			e.b.WriteString("null")
		case spec.Bool:
			e.b.WriteString(strconv.FormatBool(s.B))
		case spec.Int:
			e.b.WriteString(strconv.Itoa(s.I))
		case spec.Float:
			e.b.WriteString(strconv.FormatFloat(s.F, 'e', -1, 64))
		case spec.Str:
			e.b.WriteString(e.quoteForLines(s.S))
		}
	}
}

// genLineTree: trees with printable ASCII strings (newlines inside strings are escaped by strconv.Quote and so
// never count), nested under both kinds.
func genLineTree(r *rng.R, root spec.Kind) *spec.Spec {
	maxD, chance := 5, 4
	if r.Chance(1, 15) {
		maxD, chance = 40, 7 // narrow but deep
	}
	var rec func(k spec.Kind, depth int) *spec.Spec
	rec = func(k spec.Kind, depth int) *spec.Spec {
		s := &spec.Spec{K: k}
		n := r.Range(0, 4)
		if depth == 1 && n == 0 {
			n = 2
		}
		if maxD > 5 && depth > 3 {
			n = r.Range(1, 2)
		}
		for i := 0; i < n; i++ {
			var v *spec.Spec
			if depth < maxD && r.Chance(chance, 10) {
				ck := spec.List
				if r.Bool() {
					ck = spec.Obj
				}
				v = rec(ck, depth+1)
			} else {
				switch r.Intn(5) {
				case 0:
					v = spec.NilV()
				case 1:
					v = spec.BoolV(r.Bool())
				case 2:
					v = spec.IntV(r.Range(-50, 50))
				case 3:
					v = spec.FloatV(float64(r.Range(-50, 50)) / 4)
				default:
					v = spec.StrV([]string{"a", "line\nbreak", "x y", "", "[", "}", "a,b", "q\"q", "ls" + string(rune(0x2028)) + "x", "ps" + string(rune(0x2029)), "nel" + string(rune(0x85)), "cr\rcr", "vt\vff\f"}[r.Intn(13)])
				}
			}
			if k == spec.List {
				s.L = append(s.L, v)
			} else {
				key := spec.SafeKeys[r.Intn(len(spec.SafeKeys))] + strconv.Itoa(i)
				if r.Chance(1, 8) {
					key += string(rune([]int{0x2028, 0x2029, 0x85, 0x0b, 0x0c, 0xa0}[r.Intn(6)]))
				}
				if r.Chance(1, 8) {
					key += []string{"\n", "a\nb\n", "\r\n", "\\n"}[r.Intn(4)] // newline characters inside the key (escaped in the text)
				}
				s.Set(key, v)
			}
		}
		return s
	}
	return rec(root, 1)
}

func genErrDoc(r *rng.R, root spec.Kind) *errDoc {
	tree := genLineTree(r, root)
	kind := []string{"K1", "K1", "K2", "K3", "K4"}[r.Intn(5)]
	nlw := []int{0, 2, 5, 9}[r.Intn(4)]
	// pass 1: count the candidate sites of this kind
	wide := r.Chance(1, 4)
	probe := &errRender{r: r.Fork(), kind: kind, target: -1, doc: &errDoc{Lines: map[int]bool{}}, nlWeight: nlw, wideBlanks: wide}
	probe.value(tree)
	if probe.seen == 0 {
		return nil
	}
	target := r.Intn(probe.seen)
	if kind == "K1" && target == 0 && probe.seen > 1 {
		target = 1 + r.Intn(probe.seen-1) // site 0 is the root itself
	}
	if kind == "K1" && target == 0 {
		return nil
	}
	doc := &errDoc{Kind: kind, Lines: map[int]bool{}}
	e := &errRender{r: r.Fork(), kind: kind, target: target, doc: doc, nlWeight: nlw, wideBlanks: wide}
	// preamble before the root bracket (free of that bracket), possibly with newlines
	if r.Chance(1, 2) {
		pre := []string{"// header\n", "\n\n", "garbage text\nmore\n", "  \t", "x = ", "\r\n\r\n", "# a ] b } c\n", strings.Repeat("line\n", 70000), strings.Repeat("\n", 300), "say \"hello\nworld\" twice\n", "\"\n\n\"\n", "'q\n' \"a\nb\nc\" \"\n", "\"unpaired\nquote\n"}[r.Intn(13)]
		if r.Chance(1, 3) {
			// a preamble of characters that are near the line feed in some way (other controls, other line separators,
			// bytes one bit away), at every alignment
			alphabet := []string{"\n", "\n", "\n", "\v", "\v", "\f", "\r", "\t", "\b", "\x0e", "\x1a", "\x2a", "\x4a", "\x8a", "\x85", "\u2028", "\u2029", "\x00", " ", "a", "\x7f", "\xff"}
			var sb strings.Builder
			for k := r.Intn(48); k > 0; k-- {
				sb.WriteString(alphabet[r.Intn(len(alphabet))])
			}
			pre = sb.String()
		}
		if root == spec.List {
			pre = strings.ReplaceAll(pre, "[", "(")
		} else {
			pre = strings.ReplaceAll(pre, "{", "(")
		}
		for i := r.Intn(3); i > 0; i-- {
			pre += "\n"
		}
		e.b.WriteString(pre)
	}
	e.value(tree)
	e.ws()
	if r.Bool() {
		e.b.WriteString("\ntrailer\n")
	}
	doc.Text = e.b.String()
	if !doc.Injected {
		return nil
	}
	return doc
}

var lineRe = regexp.MustCompile(`on line (-?\d+)`)

func runC20(c *fw.Ctx) {
	pins := []struct {
		text  string
		root  spec.Kind
		lines []int
		tok   string
	}{
		{"[\n1,\ntru,\n2]", spec.List, []int{3}, "tru"},
		{"\n\n[1,\n[2,\n{\"a\":\nnul}]]", spec.List, []int{6}, "nul"},
		{"{\"a\":1,\n\n@\"b\":2}", spec.Obj, []int{3}, "@"},
		{"{\"a\"\n @ 1}", spec.Obj, []int{2}, "@"},
		{"{\"a\":[\n]\n x}", spec.Obj, []int{3}, "x"},
		{"header\nline\n{\"a\":{\"b\":[\n1,{\"c\"\n:\nx\n}]}}", spec.Obj, []int{7}, "x"},
		{"[{\n},[\r\n],\n@]", spec.List, []int{4}, "@"},
		{"[1,\ntru\n]", spec.List, []int{3}, "tru"},
		{"{\"a\":nul\n\n,\"b\":3}", spec.Obj, []int{3}, "nul"},
		{"[[\n],[\n],{\"k\":[\n]\n2}]", spec.List, []int{5}, "2"},
	}
	c.Cases("pinned", len(pins), true, func(i int, r *rng.R) {
		p := pins[i]
		lines := map[int]bool{}
		for _, l := range p.lines {
			lines[l] = true
		}
		c20Check(c, &errDoc{Text: p.text, Kind: "pinned", Token: p.tok, Lines: lines, Injected: true}, p.root, 0)
	})
	// several goroutines parse erroneous documents at the same time: each call still cites its own line
	c.Cases("concurrent", c.N(40, 2000), false, func(i int, r *rng.R) {
		g := r.Range(2, 12)
		docs := make([]*errDoc, 0, g)
		roots := make([]spec.Kind, 0, g)
		for len(docs) < g {
			root := spec.List
			if r.Bool() {
				root = spec.Obj
			}
			if d := genErrDoc(r, root); d != nil {
				docs = append(docs, d)
				roots = append(roots, root)
			}
		}
		var wg sync.WaitGroup
		start := make(chan struct{})
		for j := range docs {
			wg.Add(1)
			go func(d *errDoc, root spec.Kind) {
				defer wg.Done()
				<-start
				for rep := 0; rep < 20; rep++ {
					guard(c, func() string { return d.Text }, func() { c20CheckVia(c, d, root, 0, "") })
				}
			}(docs[j], roots[j])
		}
		close(start)
		wg.Wait()
		c.Count("concurrent_parse_rounds")
	})
	// private to this worker process: the passes (main, cov, 386) run shards with the same number at the same time
	dir := filepath.Join(c.WorkDir, fmt.Sprintf("c20files.%d.%d", c.Shard, os.Getpid()))
	defer os.RemoveAll(dir)
	c.Cases("docs", c.N(3000, 2000000), false, func(i int, r *rng.R) {
		root := spec.List
		if r.Bool() {
			root = spec.Obj
		}
		doc := genErrDoc(r, root)
		if doc == nil {
			c.Count("generator_no_site")
			return
		}
		via := 0
		if root == spec.Obj && r.Chance(1, 20) {
			via = 1
			os.MkdirAll(dir, 0o755)
		}
		guard(c, func() string { return doc.Text }, func() { c20CheckVia(c, doc, root, via, dir) })
	})
	// any rejection at all: token soups and damaged valid documents with line breaks sprinkled in; whatever error kind the
	// parser reports, if it cites a line, the kind-independent oracle says which line that has to be
	c.Cases("any-error", c.N(6000, 3000000), false, func(i int, r *rng.R) {
		var text string
		if r.Bool() {
			text = genSoup(r)
		} else {
			root := spec.List
			if r.Bool() {
				root = spec.Obj
			}
			b := []byte(renderRoot(r, genDocTree(r, root, r.Range(1, 3), r.Range(1, 4)), randStyle(r), false))
			for k := r.Range(1, 3); k > 0 && len(b) > 2; k-- {
				pos := 1 + r.Intn(len(b)-1)
				switch r.Intn(4) {
				case 0:
					b = append(b[:pos], b[pos+1:]...) // drop a byte
				case 1:
					b[pos] = "@x:,]}[{\"\\ \n"[r.Intn(12)] // overwrite a byte
				case 2:
					b = append(b[:pos], append([]byte{"@x:,]}[{\"\\ \n"[r.Intn(12)]}, b[pos:]...)...) // insert a byte
				default:
					b = append(b[:pos], append([]byte("\n"), b[pos:]...)...)
				}
			}
			text = string(b)
		}
		// line breaks at random places (also inside literals: the lenient parser takes many of them)
		bb := []byte(text)
		for k := r.Intn(5); k > 0 && len(bb) > 0; k-- {
			pos := r.Intn(len(bb) + 1)
			bb = append(bb[:pos], append([]byte([]string{"\n", "\r\n", "\n\n", " \n"}[r.Intn(4)]), bb[pos:]...)...)
		}
		// text that means something to a shell or a template engine (variable references, command substitutions), whole or
		// broken up by the line breaks above: to the parser these are characters like any other, in memory and from a file
		if r.Chance(1, 4) {
			for k := r.Range(1, 3); k > 0; k-- {
				pos := r.Intn(len(bb) + 1)
				snip := []string{"${", "}", "${HOME}", "$HOME", "$PATH", "${\n}", "$(", ")", "`", "%TEMP%", "~", "{{", "}}", "<%", "%>", "$$", "${A\nB}"}[r.Intn(17)]
				bb = append(bb[:pos], append([]byte(snip), bb[pos:]...)...)
			}
		}
		text = string(bb)
		c.MarkInput(text)
		if r.Chance(1, 5) {
			// the same bytes through ParseFile: the same verdict, the same line
			os.MkdirAll(dir, 0o755)
			path := filepath.Join(dir, "any.json")
			if os.WriteFile(path, []byte(text), 0o644) == nil {
				var ferr, merr error
				pan, msg := drive.Protect(func() {
					_, ferr = at.ParseFile(path)
					_, merr = at.ParseObject(text)
				})
				c.Count("via_parsefile")
				inF := func() string { return fmt.Sprintf("a file holding %q given to ParseFile", text) }
				switch {
				case pan:
					c.Violate("parse-panics", inF(), "error or container", "panic: "+msg)
					return
				case (ferr == nil) != (merr == nil):
					c.Violate("parsefile-differs-from-parseobject", inF(), fmt.Sprintf("the verdict of ParseObject on the same bytes: %v", merr), fmt.Sprintf("%v", ferr))
					return
				case ferr != nil:
					fl, ml := lineRe.FindStringSubmatch(ferr.Error()), lineRe.FindStringSubmatch(merr.Error())
					if (fl == nil) != (ml == nil) || (fl != nil && fl[1] != ml[1]) {
						c.Violate("wrong-line-of-detection-character", inF(), "the line ParseObject cites for the same bytes: "+merr.Error(), ferr.Error())
						return
					}
					c.Count("parsefile_lines_compared")
				}
			}
		}
		for _, root := range []spec.Kind{spec.List, spec.Obj} {
			var err error
			pan, msg := drive.Protect(func() {
				if root == spec.List {
					_, err = at.ParseList(text)
				} else {
					_, err = at.ParseObject(text)
				}
			})
			in := func() string { return fmt.Sprintf("input %q given to the %v parser", text, root) }
			if pan {
				c.Violate("parse-panics", in(), "error or container", "panic: "+msg)
				return
			}
			if err == nil || lineRe.FindStringSubmatch(err.Error()) == nil {
				c.Count("any_error_no_line_cited")
				continue
			}
			c.Count("any_error_line_citing")
			c.SetAdd("error_kinds_seen", lineRe.ReplaceAllString(regexp.MustCompile(`'[^']*'`).ReplaceAllString(err.Error(), "'…'"), "on line N"))
			c.Distinct(text)
			if !c20PrefixOracle(c, text, root, err.Error(), in) {
				return
			}
		}
	})
}

func c20Check(c *fw.Ctx, doc *errDoc, root spec.Kind, via int) { c20CheckVia(c, doc, root, via, "") }

func c20CheckVia(c *fw.Ctx, doc *errDoc, root spec.Kind, via int, dir string) {
	c.MarkInput(doc.Text)
	var err error
	var nilc bool
	p, msg := drive.Protect(func() {
		switch {
		case via == 1:
			path := filepath.Join(dir, "doc.json")
			os.WriteFile(path, []byte(doc.Text), 0o644)
			var o at.Object
			o, err = at.ParseFile(path)
			nilc = o == nil
			c.Count("via_parsefile")
		case root == spec.List:
			var l at.List
			l, err = at.ParseList(doc.Text)
			nilc = l == nil
		default:
			var o at.Object
			o, err = at.ParseObject(doc.Text)
			nilc = o == nil
		}
	})
	in := func() string {
		var ls []string
		for l := range doc.Lines {
			ls = append(ls, strconv.Itoa(l))
		}
		return fmt.Sprintf("document %q (error kind %s, injected token %q, accepted lines %v)", doc.Text, doc.Kind, doc.Token, ls)
	}
	if p {
		c.Violate("parse-panics", in(), "error", "panic: "+msg)
		return
	}
	if err == nil {
		_ = nilc
		c.Count("vacuous_accepted")
		return
	}
	m := lineRe.FindStringSubmatch(err.Error())
	if m == nil {
		c.Count("vacuous_no_line_in_message")
		return
	}
	// kind-independent oracle: the parser reads from left to right, so the character at which an error was detected is
	// the last character of the shortest prefix of the input that is rejected with the very same message
	if !c20PrefixOracle(c, doc.Text, root, err.Error(), in) {
		return
	}
	if !strings.Contains(err.Error(), "'"+doc.Token+"'") {
		c.Count("vacuous_other_token")
		return
	}
	c.Count("line_citing_errors")
	c.Count("kind/" + doc.Kind)
	c.Distinct(doc.Text)
	n, _ := strconv.Atoi(m[1])
	c.Max("max_line_cited", int64(n))
	if len(doc.Lines) > 1 {
		c.Count("multi_line_accept_sets")
	}
	if c.WantSample() && len(doc.Text) < 150 && n > 2 {
		c.Sample(map[string]any{"document": doc.Text, "message": err.Error(), "accepted_lines": fmt.Sprint(doc.Lines)})
	}
	if !doc.Lines[n] {
		sig := "wrong-line-" + doc.Kind
		c.Violate(sig, in(), "the cited line is the line of the detection character", err.Error())
	}
}

// c20PrefixOracle locates the detection character of a line-citing error without knowing its kind (binary search for the
// shortest prefix that gives the same message; every longer prefix gives it too, because the parser stops there) and
// compares the cited line with that character's line. Returns false after reporting a violation.
func c20PrefixOracle(c *fw.Ctx, text string, root spec.Kind, message string, in func() string) bool {
	parse := func(t string) string {
		var err error
		drive.Protect(func() {
			if root == spec.List {
				_, err = at.ParseList(t)
			} else {
				_, err = at.ParseObject(t)
			}
		})
		if err == nil {
			return ""
		}
		return err.Error()
	}
	if parse(text) != message {
		c.Count("prefix_oracle_not_applicable") // e.g. the message came from ParseFile with another wording
		return true
	}
	lo, hi := 0, len(text) // invariant: parse(text[:hi]) == message; the answer is in (lo, hi]
	for hi-lo > 1 {
		mid := (lo + hi) / 2
		if parse(text[:mid]) == message {
			hi = mid
		} else {
			lo = mid
		}
	}
	// monotonicity is what the search relies on: confirm it at the boundary
	if hi == 0 || parse(text[:hi-1]) == message {
		c.Count("prefix_oracle_not_applicable")
		return true
	}
	// the detection character ends at byte hi-1 (it may be a character of several bytes: its line is that of its bytes)
	want := 1 + strings.Count(text[:hi-1], "\n")
	c.Count("prefix_oracle_judgements")
	m := lineRe.FindStringSubmatch(message)
	n, _ := strconv.Atoi(m[1])
	if n != want {
		c.Violate("wrong-line-of-detection-character", in()+fmt.Sprintf("\nshortest prefix with this message ends at byte %d (%q)", hi-1, text[maxInt(0, hi-12):hi]), fmt.Sprintf("line %d (one plus the line breaks before the character at which the error was detected)", want), message)
		return false
	}
	return true
}

func maxInt(a, b int) int {
	if a > b {
		return a
	}
	return b
}

func selfC20(s *fw.SelfCheck) {
	r := rng.New(7, "selfC20", 0)
	made := 0
	for i := 0; i < 200; i++ {
		root := spec.List
		if i%2 == 0 {
			root = spec.Obj
		}
		d := genErrDoc(r, root)
		if d == nil {
			continue
		}
		made++
		// the accepted line must really hold the detection character: the stray token itself, or (K1) a delimiter
		lines := strings.Split(d.Text, "\n")
		ok := len(d.Lines) == 1
		for l := range d.Lines {
			if l < 1 || l > len(lines) {
				ok = false
				continue
			}
			if d.Kind == "K1" {
				ok = ok && strings.ContainsAny(lines[l-1], ",]}")
			} else {
				ok = ok && strings.Contains(lines[l-1], d.Token)
			}
		}
		if !ok {
			s.Expect(false, "error document generator mislabels lines: "+strconv.Quote(d.Text))
			return
		}
	}
	s.Expect(made > 100, "error document generator yields too few documents")
	s.Expect(lineRe.FindStringSubmatch("x on line 12") != nil, "line regexp broken")
}
