package mon

import (
	"fmt"
	"math"
	"reflect"
	"sort"
	"strings"

	at "github.com/DanielSvub/anytype"

	"verifharness/internal/drive"
	"verifharness/internal/fw"
	"verifharness/internal/rng"
	"verifharness/internal/spec"
)

func init() { register(&Monitor{ID: "C09", Run: runC09, Self: selfC09}) }

// party is one of the values involved in a scenario: receiver, argument, a result, a Go-native result.
type party struct {
	name   string
	val    any    // at.List, at.Object, []any, map[string]any, typed slice
	last   any    // last top-level snapshot
	frozen bool   // plain values (strings, bools) — nothing to watch
	deep   string // last deep content (containers only)
}

func deepOf(v any) string {
	switch v.(type) {
	case at.List, at.Object:
		return stringCanon(v)
	}
	return ""
}

// objectObservation selects how top() reads an object: 0 Keys()+Get, 1 Dict(), 2 ForEach.
var objectObservation int

// top takes the top-level snapshot: per slot the scalar value or the identity of the nested container.
func top(v any) any {
	switch x := v.(type) {
	case at.List:
		out := make([]any, x.Count())
		for i := range out {
			out[i] = x.Get(i)
		}
		return out
	case at.Object:
		// the observation route is varied from scenario to scenario so that the monitor's own reads do not always
		// warm (and thereby hide) whatever the library might remember between calls
		out := map[string]any{}
		switch objectObservation {
		case 1:
			for k, v := range x.Dict() {
				out[k] = v
			}
		case 2:
			x.ForEach(func(k string, v any) { out[k] = v })
		default:
			keys := x.Keys()
			for i := 0; i < keys.Count(); i++ {
				k := keys.GetString(i)
				out[k] = x.Get(k)
			}
		}
		return out
	case []any:
		return append([]any{}, x...)
	case map[string]any:
		out := map[string]any{}
		for k, e := range x {
			out[k] = e
		}
		return out
	case []at.Object:
		out := make([]any, len(x))
		for i, e := range x {
			out[i] = e
		}
		return out
	case []at.List:
		out := make([]any, len(x))
		for i, e := range x {
			out[i] = e
		}
		return out
	case []string:
		out := make([]any, len(x))
		for i, e := range x {
			out[i] = e
		}
		return out
	case []bool:
		out := make([]any, len(x))
		for i, e := range x {
			out[i] = e
		}
		return out
	case []int:
		out := make([]any, len(x))
		for i, e := range x {
			out[i] = e
		}
		return out
	case []float64:
		out := make([]any, len(x))
		for i, e := range x {
			out[i] = e
		}
		return out
	}
	return nil
}

func showTop(t any) string {
	show := func(e any) string {
		switch y := e.(type) {
		case at.List:
			return fmt.Sprintf("<list %p>", y)
		case at.Object:
			return fmt.Sprintf("<object %p>", y)
		case string:
			return fmt.Sprintf("%q", spec.Trunc(y, 30))
		}
		return fmt.Sprintf("%v", e)
	}
	switch x := t.(type) {
	case []any:
		s := make([]string, len(x))
		for i, e := range x {
			s[i] = show(e)
		}
		return "[" + strings.Join(s, ", ") + "]"
	case map[string]any:
		keys := make([]string, 0, len(x))
		for k := range x {
			keys = append(keys, k)
		}
		sort.Strings(keys)
		s := make([]string, len(keys))
		for i, k := range keys {
			s[i] = fmt.Sprintf("%q: %s", k, show(x[k]))
		}
		return "{" + strings.Join(s, ", ") + "}"
	}
	return fmt.Sprint(t)
}

// eqSlot: scalars by value, containers by identity, nested native maps/slices (inside Native* results) deeply.
func eqSlot(a, b any) bool {
	switch a.(type) {
	case []any, map[string]any:
		return reflect.DeepEqual(a, b)
	}
	switch b.(type) {
	case []any, map[string]any:
		return false
	}
	if x, ok := a.(float64); ok {
		// floats by bit pattern: -0 is not +0 (the sign can be observed), NaN is the NaN it was
		y, ok := b.(float64)
		return ok && math.Float64bits(x) == math.Float64bits(y)
	}
	return sameValue(a, b) // == where Go defines it; the two non-comparable derived fixture types by their parts
}

func sameTop(a, b any) bool {
	switch x := a.(type) {
	case []any:
		y, ok := b.([]any)
		if !ok || len(x) != len(y) {
			return false
		}
		for i := range x {
			if !eqSlot(x[i], y[i]) {
				return false
			}
		}
		return true
	case map[string]any:
		y, ok := b.(map[string]any)
		if !ok || len(x) != len(y) {
			return false
		}
		for k, e := range x {
			f, ok := y[k]
			if !ok || !eqSlot(e, f) {
				return false
			}
		}
		return true
	}
	return a == nil && b == nil
}

// buildReceiverList builds a list with the given content in a chosen storage condition.
func buildReceiverList(r *rng.R, vals []any) (at.List, string) {
	cond := r.Intn(6)
	switch cond {
	case 0:
		return at.NewList(vals...), "NewList(args)"
	case 1: // grown one by one (capacity from append growth)
		l := at.NewList()
		for _, v := range vals {
			l.Add(v)
		}
		return l, "Add one by one"
	case 2: // grown past, then popped back: spare capacity
		l := at.NewList(vals...)
		k := r.Range(1, 6)
		for i := 0; i < k; i++ {
			l.Add("junk")
		}
		for i := 0; i < k; i++ {
			l.Pop()
		}
		return l, fmt.Sprintf("NewList+Add x%d+Pop x%d (spare capacity)", k, k)
	case 3: // deleted from the front: spare capacity at the end
		l := at.NewList("junk", "junk2")
		l.Add(vals...)
		l.Delete(0, 1)
		return l, "built behind two junk elements, then Delete(0,1)"
	case 4: // NewListFrom (exact capacity)
		return at.NewListFrom(append([]any{}, vals...)), "NewListFrom"
	default: // insert at front repeatedly
		l := at.NewList()
		for i := len(vals) - 1; i >= 0; i-- {
			l.Insert(0, vals[i])
		}
		return l, "Insert(0) repeatedly"
	}
}

func c09Vals(r *rng.R, n int, homogeneous int) []any {
	vals := make([]any, n)
	for i := range vals {
		switch homogeneous {
		case 1:
			vals[i] = r.Range(-5, 5)
		case 2:
			vals[i] = c05Strs[r.Intn(len(c05Strs))]
		case 3:
			vals[i] = float64(r.Range(-8, 8)) / 2
		case 4: // rows: lists with several elements, not in order
			switch r.Intn(4) {
			case 0:
				vals[i] = at.NewList(3, 1, 2)
			case 1:
				vals[i] = at.NewList("b", "a", "c")
			case 2:
				vals[i] = at.NewList(2.5, -1.5)
			default:
				vals[i] = at.NewList()
			}
		default:
			switch r.Intn(8) {
			case 0:
				vals[i] = at.NewList(r.Intn(3), r.Intn(3)-2)
			case 1:
				vals[i] = at.NewObject("k", r.Intn(3))
			case 2:
				vals[i] = nil
			case 3:
				vals[i] = r.Bool()
			case 4:
				vals[i] = float64(r.Range(-8, 8)) / 2
				if r.Chance(1, 4) {
					// floats that printing code tends to treat specially, at the top level and one level down
					sp := []float64{math.Copysign(0, -1), math.Inf(1), math.Inf(-1), math.NaN(), 1e21, 5e-324}[r.Intn(6)]
					switch r.Intn(3) {
					case 0:
						vals[i] = sp
					case 1:
						vals[i] = at.NewList(1, sp, at.NewList(sp))
					default:
						vals[i] = at.NewObject("k", sp, "in", at.NewObject("deep", sp))
					}
				}
			case 5:
				vals[i] = c05Strs[r.Intn(len(c05Strs))]
			default:
				vals[i] = r.Range(-5, 5)
			}
		}
	}
	return vals
}

type c09Scenario struct {
	c       *fw.Ctx
	r       *rng.R
	parties []*party
	trace   []string
	failed  bool
	// watch: Go values of the caller that were passed as arguments (spread slices); each returns "" while unchanged
	watch []func() string
}

func (s *c09Scenario) input() string { return "scenario:\n  " + strings.Join(s.trace, "\n  ") }

func (s *c09Scenario) add(name string, v any) *party {
	p := &party{name: name, val: v}
	p.last = top(v)
	p.deep = deepOf(v)
	if p.last == nil {
		p.frozen = true
	}
	s.parties = append(s.parties, p)
	return p
}

// verify compares all parties except `changed` with their last snapshot.
func (s *c09Scenario) verify(changed *party, sig, after string) {
	for _, w := range s.watch {
		if d := w(); d != "" {
			s.failed = true
			s.c.Violate("argument-slice-modified-later", s.input(), "a slice the caller passed as argument stays the caller's, also after "+after, d)
			return
		}
	}
	for _, p := range s.parties {
		if p.frozen {
			continue
		}
		var now any
		if pan, msg := drive.Protect(func() { now = top(p.val) }); pan {
			s.failed = true
			s.c.Violate("party-unobservable", s.input(), p.name+" observable", "panic: "+msg)
			return
		}
		if p == changed {
			p.last = now
			p.deep = deepOf(p.val)
			continue
		}
		if !sameTop(p.last, now) {
			s.failed = true
			s.c.Violate(sig, s.input(), fmt.Sprintf("%s unchanged by %s: %s", p.name, after, showTop(p.last)), fmt.Sprintf("%s is now %s", p.name, showTop(now)))
			return
		}
		// the mutations used here act on top-level slots only, so even the nested (possibly shared) containers of the
		// other parties keep their content
		if d := deepOf(p.val); d != p.deep {
			s.failed = true
			s.c.Violate(sig+"-nested", s.input(), fmt.Sprintf("content of %s (nested containers included) unchanged by %s: %s", p.name, after, spec.Trunc(p.deep, 600)), spec.Trunc(d, 600))
			return
		}
	}
}

// rederive calls the deriving operations whose result is a plain image of the receiver and compares it with the
// receiver's current top-level content.
func (s *c09Scenario) rederive() {
	recv := s.parties[0].val
	bad := func(op, want, got string) {
		s.failed = true
		s.c.Violate("derived-result-stale:"+op, s.input()+"\n  then recv."+op+" once more", "an image of the receiver's current content "+want, got)
	}
	drive.Protect(func() {
		switch x := recv.(type) {
		case at.List:
			now := top(x)
			for _, d := range []struct {
				op string
				v  any
			}{{"Slice()", x.Slice()}, {"SubList(0,0)", x.SubList(0, 0)}, {"Concat(empty)", x.Concat(at.NewList())}, {"Map(identity)", x.Map(func(i int, v any) any { return v })},
				{"Filter(all)", x.Filter(func(any) bool { return true })}, {"MapValues(identity)", x.MapValues(func(v any) any { return v })}} {
				s.c.Count("rederivations")
				if !sameTop(now, top(d.v)) {
					bad(d.op, showTop(now), showTop(top(d.v)))
					return
				}
			}
		case at.Object:
			now := top(x).(map[string]any)
			s.c.Count("rederivations")
			if d := top(x.Dict()); !sameTop(now, d) {
				bad("Dict()", showTop(now), showTop(d))
				return
			}
			keys := top(x.Keys()).([]any)
			seen := map[string]bool{}
			ok := len(keys) == len(now)
			for _, k := range keys {
				ks, isStr := k.(string)
				if _, has := now[ks]; !isStr || !has || seen[ks] {
					ok = false
				}
				seen[ks] = true
			}
			if !ok {
				bad("Keys()", showTop(now), showTop(keys))
				return
			}
			vals := top(x.Values()).([]any)
			used := map[string]bool{}
			ok = len(vals) == len(now)
			for _, v := range vals {
				found := false
				for k, w := range now {
					if !used[k] && eqSlot(v, w) {
						used[k], found = true, true
						break
					}
				}
				if !found {
					ok = false
				}
			}
			if !ok {
				bad("Values()", showTop(now), showTop(vals))
				return
			}
			if m := top(x.Map(func(k string, v any) any { return v })); !sameTop(now, m) {
				bad("Map(identity)", showTop(now), showTop(m))
			}
		}
	})
}

func intPred(mask uint64) func(int) bool {
	return func(x int) bool { return mask>>(uint(x+8)&31)&1 == 1 }
}

// deriveList applies one deriving operation to the list receiver; returns the result to watch (may be nil).
func (s *c09Scenario) deriveList(recv at.List, arg at.List, which int, resName string) (name string, res any) {
	r := s.r
	mask := r.U64() | 1
	n := recv.Count()
	switch which {
	case 0:
		return "Concat(arg)", recv.Concat(arg)
	case 1:
		a, b := 0, n
		if n > 0 {
			a, b = r.Intn(n+1), r.Intn(n+1)
			if a > b {
				a, b = b, a
			}
			if b == 0 {
				b = n
			}
			if n > 1 && r.Chance(1, 3) {
				// the ranges that touch an end of the list: a proper tail, a proper head, everything but the ends
				switch r.Intn(3) {
				case 0:
					a, b = r.Range(1, n-1), n
				case 1:
					a, b = 0, r.Range(1, n-1)
				default:
					a, b = 1, maxInt(1, n-1)
				}
			}
		}
		if n > 1 && r.Chance(1, 6) {
			// a range outside the documented domain (start beyond end, start below zero, end beyond the count): the call is
			// expected to be rejected, and rejected or not it is no licence to change the receiver
			bad := [][2]int{{n, 1}, {n - 1, 1}, {n, -(n - 1)}, {-1, n}, {0, n + 1}, {n + 1, n + 2}, {2, 1}}[r.Intn(7)]
			var out at.List
			drive.Protect(func() { out = recv.SubList(bad[0], bad[1]) })
			s.c.Count("sublist_calls_outside_the_domain")
			if out == nil {
				return fmt.Sprintf("SubList(%d,%d) [outside the domain, panicked]", bad[0], bad[1]), nil
			}
			return fmt.Sprintf("SubList(%d,%d) [outside the domain, returned]", bad[0], bad[1]), out
		}
		if n > 0 && r.Chance(1, 3) {
			b -= n // the same range with the end counted from the back (an end <= 0 is taken relative to the count)
		}
		return fmt.Sprintf("SubList(%d,%d)", a, b), recv.SubList(a, b)
	case 2:
		if r.Chance(1, 3) {
			return "Filter(all)", recv.Filter(func(any) bool { return true })
		}
		i := 0
		return "Filter(mask)", recv.Filter(func(any) bool { i++; return mask>>(uint(i)&31)&1 == 1 })
	case 3:
		return "FilterInts", recv.FilterInts(intPred(mask))
	case 4:
		return "FilterStrings", recv.FilterStrings(func(x string) bool { return len(x)%2 == int(mask&1) })
	case 5:
		return "FilterFloats", recv.FilterFloats(func(x float64) bool { return x >= 0 })
	case 6:
		return "FilterObjects", recv.FilterObjects(func(at.Object) bool { return true })
	case 7:
		return "FilterLists", recv.FilterLists(func(at.List) bool { return true })
	case 8:
		return "Map(identity)", recv.Map(func(i int, v any) any { return v })
	case 9:
		return "MapValues(identity)", recv.MapValues(func(v any) any { return v })
	case 10:
		return "MapInts(+1)", recv.MapInts(func(x int) any { return x + 1 })
	case 11:
		return "MapStrings", recv.MapStrings(func(x string) any { return x + "!" })
	case 12:
		return "MapFloats", recv.MapFloats(func(x float64) any { return x * 2 })
	case 13:
		return "MapObjects(identity)", recv.MapObjects(func(x at.Object) any { return x })
	case 14:
		return "MapLists(identity)", recv.MapLists(func(x at.List) any { return x })
	case 15:
		return "MapBools", recv.MapBools(func(x bool) any { return !x })
	case 16:
		return "MapAsync(identity)", recv.MapAsync(func(i int, v any) any { return v })
	case 17:
		return "Slice()", recv.Slice()
	case 18:
		return "IntSlice()", recv.IntSlice()
	case 19:
		return "StringSlice()", recv.StringSlice()
	case 20:
		return "FloatSlice()", recv.FloatSlice()
	case 21:
		return "BoolSlice()", recv.BoolSlice()
	case 22:
		return "ObjectSlice()", recv.ObjectSlice()
	case 23:
		return "ListSlice()", recv.ListSlice()
	case 24:
		recv.Reduce(0, func(acc any, v any) any { return acc })
		recv.ReduceInts(0, func(a, b int) int { return a + b })
		recv.ReduceStrings("", func(a, b string) string { return a + b })
		recv.ReduceFloats(0, func(a, b float64) float64 { return a + b })
		return "Reduce*", nil
	case 25:
		_ = recv.String()
		_ = recv.FormatString(r.Intn(11))
		return "String/FormatString", nil
	case 26:
		_ = recv.Equals(arg)
		_ = arg.Equals(recv)
		return "Equals(arg)", nil
	case 27:
		var probe any = r.Range(-5, 5)
		if n > 0 && r.Bool() {
			probe = recv.Get(r.Intn(n))
		}
		_ = recv.Contains(probe)
		_ = recv.IndexOf(probe)
		return "Contains/IndexOf", nil
	default:
		return "NativeSlice()", recv.NativeSlice()
	}
}

const c09ListOps = 29

func (s *c09Scenario) deriveObject(recv at.Object, arg at.Object, which int) (name string, res any) {
	r := s.r
	switch which {
	case 0:
		return "Merge(arg)", recv.Merge(arg)
	case 1:
		return "Merge(empty)", recv.Merge(at.NewObject())
	case 2:
		keys := recv.Keys()
		var pick []string
		for i := 0; i < keys.Count(); i++ {
			if r.Bool() {
				pick = append(pick, keys.GetString(i))
			}
		}
		// duplicates inside the spread slice, with other keys after them
		for i := r.Intn(3); i > 0 && len(pick) > 0; i-- {
			at := r.Intn(len(pick) + 1)
			dup := pick[r.Intn(len(pick))]
			pick = append(pick[:at], append([]string{dup}, pick[at:]...)...)
		}
		// the caller's slice has spare capacity, marked so that a write into it shows
		pick = append(make([]string, 0, len(pick)+2), pick...)
		pick[:len(pick)+1][len(pick)] = "spare-slot-of-the-caller"
		before := append([]string{}, pick...)
		res := recv.Pluck(pick...)
		for i := range before {
			if i >= len(pick) || pick[i] != before[i] {
				s.failed = true
				s.c.Violate("deriving-op-modifies-input:Pluck-keys-argument", s.input(), fmt.Sprintf("the keys slice passed to Pluck stays %q", before), fmt.Sprintf("%q", pick))
				break
			}
		}
		// the slice stays the caller's for good: whatever is done to the result (or anything else) later must not reach it
		keep := append([]string{}, before...)
		held := pick
		s.watch = append(s.watch, func() string {
			if len(held) != len(keep) {
				return fmt.Sprintf("the keys slice passed to Pluck changed its length: %q", held)
			}
			for i := range keep {
				if held[i] != keep[i] {
					return fmt.Sprintf("the keys slice passed to Pluck was %q and is now %q", keep, held)
				}
			}
			// the spare capacity behind it is the caller's too
			if cap(held) > len(held) {
				if ext := held[:len(held)+1]; ext[len(held)] != "spare-slot-of-the-caller" {
					return fmt.Sprintf("the spare capacity behind the keys slice passed to Pluck was written: %q", ext[len(held)])
				}
			}
			return ""
		})
		return fmt.Sprintf("Pluck(%q...)", before), res
	case 3:
		return "Keys()", recv.Keys()
	case 4:
		return "Values()", recv.Values()
	case 5:
		return "Dict()", recv.Dict()
	case 6:
		return "Map(identity)", recv.Map(func(k string, v any) any { return v })
	case 7:
		return "MapValues(identity)", recv.MapValues(func(v any) any { return v })
	case 8:
		return "MapAsync(identity)", recv.MapAsync(func(k string, v any) any { return v })
	case 9:
		return "MapInts/Strings/...", recv.MapInts(func(x int) any { return x + 1 })
	case 10:
		_ = recv.String()
		_ = recv.FormatString(r.Intn(11))
		return "String/FormatString", nil
	case 11:
		_ = recv.Equals(arg)
		_ = arg.Equals(recv)
		return "Equals(arg)", nil
	case 12:
		_ = recv.Contains(r.Range(-5, 5))
		return "Contains", nil
	case 13:
		return "NativeDict()", recv.NativeDict()
	default:
		return "Dict() again", recv.Dict()
	}
}

const c09ObjOps = 15

// mutateParty applies one top-level mutation to a party; returns its description ("" if none applicable).
func mutateParty(r *rng.R, p *party) (desc string) {
	drive.Protect(func() {
		switch x := p.val.(type) {
		case at.List:
			n := x.Count()
			switch op := r.Intn(9); {
			case op == 0 || n == 0:
				x.Add("added")
				desc = "Add(\"added\")"
			case op == 1:
				i := r.Intn(n + 1)
				x.Insert(i, "ins")
				desc = fmt.Sprintf("Insert(%d, \"ins\")", i)
			case op == 2 || op == 3:
				i := r.Intn(n)
				x.Replace(i, 777)
				desc = fmt.Sprintf("Replace(%d, 777)", i)
			case op == 4:
				i := r.Intn(n)
				x.Delete(i)
				desc = fmt.Sprintf("Delete(%d)", i)
			case op == 5:
				x.Pop()
				desc = "Pop()"
			case op == 6:
				x.Reverse()
				desc = "Reverse()"
			case op == 7:
				// Sort only inside its domain
				k := x.TypeOf(0)
				ok := k == at.TypeInt || k == at.TypeString || k == at.TypeFloat
				for i := 1; i < n && ok; i++ {
					ok = x.TypeOf(i) == k
				}
				if ok {
					x.Sort()
					desc = "Sort()"
				} else if k != at.TypeInt && k != at.TypeString && k != at.TypeFloat && r.Bool() {
					// outside Sort's domain (first element of another kind): rejected, and whatever it does it has no business
					// inside the nested containers the parties share
					drive.Protect(func() { x.Sort() })
					desc = "Sort() [first element of another kind: rejected]"
					// (the rejected call leaves this party alone as well: the caller compares every party)
				} else {
					x.Add(1)
					desc = "Add(1)"
				}
			default:
				x.Clear()
				desc = "Clear()"
			}
		case at.Object:
			keys := x.Keys()
			switch r.Intn(4) {
			case 0:
				if keys.Count() > 0 {
					k := keys.GetString(r.Intn(keys.Count()))
					x.Unset(k)
					desc = fmt.Sprintf("Unset(%q)", k)
					return
				}
				fallthrough
			case 1:
				if keys.Count() > 0 {
					k := keys.GetString(r.Intn(keys.Count()))
					// same-kind overwrite of an existing field
					switch x.TypeOf(k) {
					case at.TypeInt:
						x.Set(k, x.GetInt(k)+100)
					case at.TypeString:
						x.Set(k, x.GetString(k)+"~")
					case at.TypeFloat:
						x.Set(k, x.GetFloat(k)+0.5)
					case at.TypeBool:
						x.Set(k, !x.GetBool(k))
					default:
						x.Set(k, 4242)
					}
					desc = fmt.Sprintf("Set(%q, same-kind new value)", k)
					return
				}
				fallthrough
			case 2:
				if keys.Count() > 0 && r.Bool() {
					// a native Go map / slice over an existing field (whatever it holds)
					k := keys.GetString(r.Intn(keys.Count()))
					if r.Bool() {
						x.Set(k, map[string]any{"fresh": 1})
					} else {
						x.Set(k, []any{"fresh"})
					}
					desc = fmt.Sprintf("Set(%q, native map/slice)", k)
					return
				}
				x.Set("zz-new", 26)
				desc = "Set(\"zz-new\", 26)"
			default:
				x.Clear()
				desc = "Clear()"
			}
		case []any:
			if len(x) > 0 {
				i := r.Intn(len(x))
				x[i] = "overwritten"
				_ = append(x[:0], "appended-in-place")
				desc = fmt.Sprintf("native[%d] = \"overwritten\"; append(native[:0], ...)", i)
			}
		case map[string]any:
			x["native-new"] = 1
			for k := range x {
				x[k] = "overwritten"
				break
			}
			desc = "native map: new key and one overwritten"
		case []int:
			if len(x) > 0 {
				x[r.Intn(len(x))] = 424242
				desc = "native []int element overwritten"
			}
		case []string:
			if len(x) > 0 {
				x[r.Intn(len(x))] = "overwritten"
				desc = "native []string element overwritten"
			}
		case []float64:
			if len(x) > 0 {
				x[r.Intn(len(x))] = 4242.5
				desc = "native []float64 element overwritten"
			}
		case []bool:
			if len(x) > 0 {
				i := r.Intn(len(x))
				x[i] = !x[i]
				desc = "native []bool element flipped"
			}
		case []at.Object:
			if len(x) > 0 {
				x[r.Intn(len(x))] = at.NewObject("other", 1)
				desc = "native []Object element replaced"
			}
		case []at.List:
			if len(x) > 0 {
				x[r.Intn(len(x))] = at.NewList("other")
				desc = "native []List element replaced"
			}
		}
	})
	return
}

func runC09(c *fw.Ctx) {
	c.Cases("pinned", c09ListOps+c09ObjOps, true, func(i int, r *rng.R) {
		// every deriving operation once on a receiver with spare capacity, two derivations, fixed mutation list
		c09Case(c, r, i, true)
	})
	c.Cases("scenarios", c.N(2000, 800000), false, func(i int, r *rng.R) { c09Case(c, r, -1, false) })
	c.Cases("first-results", c.N(60, 6000), true, func(i int, r *rng.R) { c09FirstResults(c, i, r) })
	c.Cases("ranges-of-full-lists", c.N(120, 12000), true, func(i int, r *rng.R) { c09RangesOfFullLists(c, i, r) })
	c.Cases("paging", c.N(60, 6000), false, func(i int, r *rng.R) { c09Paging(c, r) })
	c.Cases("paging-objects", c.N(40, 4000), false, func(i int, r *rng.R) { c09PagingObjects(c, r) })
}

// c09PagingObjects: the same for objects - a long run of Pluck / Merge / Clone / Map results and Keys / Values lists
// from one or two receivers, each written to at once; the last ten results, the receivers and a few kept Dict /
// NativeDict / Keys exports stay what they were.
func c09PagingObjects(c *fw.Ctx, r *rng.R) {
	var trace []string
	in := func() string {
		t := trace
		if len(t) > 60 {
			t = t[len(t)-60:]
		}
		return "paging over objects (the last steps):\n  " + strings.Join(t, "\n  ")
	}
	guard(c, in, func() {
		type page struct {
			name string
			v    any
			last any
		}
		var live []*page
		mk := func(name string, v any) *page {
			p := &page{name, v, top(v)}
			live = append(live, p)
			return p
		}
		type keptExport struct {
			desc string
			val  any
			text string
		}
		var exports []keptExport
		nested := at.NewList("n")
		var recvs []*page
		for k := r.Range(1, 2); k > 0; k-- {
			o := at.NewObject()
			for j := r.Range(3, 12); j > 0; j-- {
				var v any = j
				if r.Chance(1, 6) {
					v = nested
				}
				o.Set(fmt.Sprintf("k%d", j), v)
			}
			p := mk(fmt.Sprintf("recv%d", k), o)
			recvs = append(recvs, p)
			trace = append(trace, fmt.Sprintf("%s = %s", p.name, spec.Trunc(stringCanon(o), 160)))
		}
		check := func(except *page, after string) bool {
			for _, p := range live {
				if p == except {
					continue
				}
				if now := top(p.v); !sameTop(p.last, now) {
					c.Violate("storage-shared-between-parties", in(), fmt.Sprintf("%s unchanged by %s: %s", p.name, after, showTop(p.last)), showTop(now))
					return false
				}
			}
			return true
		}
		show := func(e any) string {
			// maps print in sorted key order under %v
			return fmt.Sprintf("%v", e)
		}
		rounds := r.Range(60, 120)
		for round := 0; round < rounds; round++ {
			src := recvs[r.Intn(len(recvs))]
			if r.Chance(1, 3) {
				for tries := 0; tries < 4; tries++ {
					if cand := live[r.Intn(len(live))]; cand != nil {
						if _, ok := cand.v.(at.Object); ok {
							src = cand
							break
						}
					}
				}
			}
			so := src.v.(at.Object)
			var res any
			var desc string
			drive.Protect(func() {
				keys := so.Keys().StringSlice()
				switch op := r.Intn(7); {
				case op <= 1 && len(keys) > 0:
					sel := []string{keys[r.Intn(len(keys))], keys[r.Intn(len(keys))]}
					res, desc = so.Pluck(sel...), fmt.Sprintf("%s.Pluck(%q)", src.name, sel)
				case op == 2:
					res, desc = so.Merge(at.NewObject("round", round)), src.name+".Merge({round})"
				case op == 3:
					res, desc = so.Clone(), src.name+".Clone()"
				case op == 4:
					res, desc = so.MapInts(func(x int) any { return x + 1 }), src.name+".MapInts(+1)"
				case op == 5:
					res, desc = so.Keys(), src.name+".Keys()"
				default:
					res, desc = so.Values(), src.name+".Values()"
				}
			})
			if res == nil {
				continue
			}
			name := fmt.Sprintf("p%d", round)
			trace = append(trace, name+" = "+desc)
			c.Count("pages_taken")
			if !check(nil, "taking "+name+" = "+desc) {
				return
			}
			p := mk(name, res)
			var wdesc string
			drive.Protect(func() {
				switch x := res.(type) {
				case at.Object:
					switch r.Intn(3) {
					case 0:
						x.Set("+"+name, round)
						wdesc = "Set(new key)"
					case 1:
						x.SetTF(".+"+name+"#1", round)
						wdesc = "SetTF(new key, padded list)"
					default:
						x.Set("+"+name, 1, "++"+name, 2).Unset("++" + name)
						wdesc = "Set x2, Unset"
					}
				case at.List:
					x.Add("+" + name)
					wdesc = "Add"
				}
			})
			p.last = top(res)
			trace = append(trace, name+"."+wdesc)
			if !check(p, name+"."+wdesc) {
				return
			}
			if r.Chance(1, 3) {
				var e any
				var edesc string
				drive.Protect(func() {
					switch x := res.(type) {
					case at.Object:
						if r.Bool() {
							e, edesc = x.Dict(), name+".Dict()"
						} else {
							e, edesc = x.NativeDict(), name+".NativeDict()"
						}
					case at.List:
						e, edesc = x.Slice(), name+".Slice()"
					}
				})
				if e != nil {
					exports = append(exports, keptExport{edesc, e, show(e)})
					if len(exports) > 8 {
						exports = exports[len(exports)-8:]
					}
				}
			}
			for _, k := range exports {
				if now := show(k.val); now != k.text {
					c.Violate("storage-shared-between-parties", in(), fmt.Sprintf("the value returned by %s stays what it was: %s", k.desc, k.text), now)
					return
				}
			}
			if len(live) > len(recvs)+10 {
				old := live[len(recvs)]
				drive.Protect(func() {
					switch x := old.v.(type) {
					case at.Object:
						if r.Bool() {
							x.Clear()
						} else {
							x.Unset(x.Keys().StringSlice()...)
						}
					case at.List:
						x.Clear()
					}
				})
				live = append(live[:len(recvs):len(recvs)], live[len(live)-10:]...)
			}
		}
		c.Distinct(in())
	})
}

// c09Paging: a long run of small derived results (pages cut by SubList, Concat results, clones, filtered copies) taken
// from a few receivers, each written to right after it was made. Every result made so far (a window of the last ten)
// and every receiver must stay what it was when the next one is made and when a neighbour grows: whatever storage the
// library hands out to results belongs to one result.
func c09Paging(c *fw.Ctx, r *rng.R) {
	var trace []string
	in := func() string {
		t := trace
		if len(t) > 60 {
			t = t[len(t)-60:]
		}
		return "paging (the last steps):\n  " + strings.Join(t, "\n  ")
	}
	guard(c, in, func() {
		type page struct {
			name string
			l    at.List
			last any
		}
		var live []*page
		type keptExport struct {
			desc string
			val  any
			text string
		}
		var exports []keptExport
		mk := func(name string, l at.List) *page {
			p := &page{name, l, top(l)}
			live = append(live, p)
			return p
		}
		nested := at.NewList("n")
		var recvs []*page
		for k := r.Range(1, 3); k > 0; k-- {
			n := r.Range(3, 24)
			vals := make([]any, n)
			for j := range vals {
				vals[j] = j
				if r.Chance(1, 8) {
					vals[j] = nested
				}
			}
			l, how := buildReceiverList(r, vals)
			p := mk(fmt.Sprintf("recv%d", k), l)
			recvs = append(recvs, p)
			trace = append(trace, fmt.Sprintf("%s = %s via %s", p.name, spec.Trunc(stringCanon(l), 120), how))
		}
		check := func(except *page, after string) bool {
			for _, p := range live {
				if p == except {
					continue
				}
				if now := top(p.l); !sameTop(p.last, now) {
					c.Violate("storage-shared-between-parties", in(), fmt.Sprintf("%s unchanged by %s: %s", p.name, after, showTop(p.last)), showTop(now))
					return false
				}
			}
			return true
		}
		rounds := r.Range(80, 160)
		for round := 0; round < rounds; round++ {
			src := live[r.Intn(len(live))]
			if r.Bool() {
				src = recvs[r.Intn(len(recvs))]
			}
			n := src.l.Count()
			var res at.List
			var desc string
			drive.Protect(func() {
				switch op := r.Intn(8); {
				case op <= 3 && n > 0:
					a := r.Intn(n)
					b := a + r.Range(1, 16)
					if b > n {
						b = n
					}
					res, desc = src.l.SubList(a, b), fmt.Sprintf("%s.SubList(%d, %d)", src.name, a, b)
				case op == 4:
					res, desc = src.l.Concat(at.NewList(round)), src.name+".Concat([round])"
				case op == 5:
					res, desc = at.NewList(round).Concat(src.l.SubList(0, -n/2)), "[round].Concat("+src.name+".SubList(0, -n/2))"
				case op == 6:
					res, desc = src.l.Clone(), src.name+".Clone()"
				default:
					res, desc = src.l.FilterInts(func(x int) bool { return x%2 == 0 }), src.name+".FilterInts(even)"
				}
			})
			if res == nil {
				continue
			}
			name := fmt.Sprintf("p%d", round)
			trace = append(trace, name+" = "+desc)
			c.Count("pages_taken")
			if !check(nil, "taking "+name+" = "+desc) {
				return
			}
			p := mk(name, res)
			// write to the new result at once
			var wdesc string
			drive.Protect(func() {
				switch r.Intn(5) {
				case 0, 1:
					res.Add("+" + name)
					wdesc = "Add"
				case 2:
					res.Insert(0, "+"+name)
					wdesc = "Insert(0)"
				case 3:
					res.SetTF(fmt.Sprintf("#%d", res.Count()+1), "+"+name)
					wdesc = "SetTF behind the end"
				default:
					res.Add("+"+name, "++"+name).Pop()
					wdesc = "Add x2, Pop"
				}
			})
			p.last = top(res)
			trace = append(trace, name+"."+wdesc)
			if !check(p, name+"."+wdesc) {
				return
			}
			// native exports are results too: a few are kept next to a private copy and looked at again after every later call
			if r.Chance(1, 3) {
				var e any
				var edesc string
				drive.Protect(func() {
					switch r.Intn(4) {
					case 0:
						e, edesc = res.Slice(), name+".Slice()"
					case 1:
						e, edesc = res.IntSlice(), name+".IntSlice()"
					case 2:
						e, edesc = res.NativeSlice(), name+".NativeSlice()"
					default:
						e, edesc = res.StringSlice(), name+".StringSlice()"
					}
				})
				if e != nil {
					exports = append(exports, keptExport{edesc, e, fmt.Sprintf("%#v", e)})
					if len(exports) > 8 {
						exports = exports[len(exports)-8:]
					}
				}
			}
			for _, k := range exports {
				if now := fmt.Sprintf("%#v", k.val); now != k.text {
					c.Violate("storage-shared-between-parties", in(), fmt.Sprintf("the slice returned by %s stays what it was: %s", k.desc, k.text), now)
					return
				}
			}
			if len(live) > len(recvs)+10 {
				// the oldest page is emptied before it is forgotten: whatever it held is free for the library to use again
				old := live[len(recvs)]
				drive.Protect(func() {
					switch r.Intn(3) {
					case 0:
						old.l.Clear()
					case 1:
						for old.l.Count() > 0 {
							old.l.Pop()
						}
					default:
						for old.l.Count() > 0 {
							old.l.Delete(0)
						}
					}
				})
				live = append(live[:len(recvs):len(recvs)], live[len(live)-10:]...)
			}
		}
		c.Distinct(in())
	})
}

func c09Case(c *fw.Ctx, r *rng.R, forceOp int, pinned bool) {
	s := &c09Scenario{c: c, r: r}
	objectObservation = r.Intn(3)
	defer func() { objectObservation = 0 }()
	guard(c, s.input, func() {
		isList := r.Bool()
		if forceOp >= 0 {
			isList = forceOp < c09ListOps
		}
		if isList {
			n := []int{0, 1, 2, 3, 5, 8, r.Range(0, 12), r.Range(0, 12), 33, 64, 100}[r.Intn(11)]
			vals := c09Vals(r, n, []int{0, 0, 1, 2, 3, 0, 0, 1, 2, 4}[r.Intn(10)])
			recv, how := buildReceiverList(r, vals)
			if pinned {
				// every deriving operation meets a negative zero, at the top level and nested (its sign is content too)
				vals = append(vals, math.Copysign(0, -1), at.NewList(math.Copysign(0, -1)), at.NewObject("z", math.Copysign(0, -1)))
				recv = at.NewList(vals...)
				recv.Add("j1", "j2", "j3")
				recv.Pop().Pop().Pop()
				how = "pinned: spare capacity after Add x3 + Pop x3"
			}
			arg, _ := buildReceiverList(r, c09Vals(r, r.Intn(4), 0))
			if r.Chance(1, 8) {
				arg = recv
			} else if r.Chance(1, 6) {
				// the argument is a derived structure (a user type embedding a List), now and then an empty one
				av := c09Vals(r, []int{0, 0, 1, 3}[r.Intn(4)], 0)
				if r.Bool() {
					arg = NewDList(av...)
				} else {
					arg = NewDDList(av...)
				}
				how += "; the argument is a derived structure"
				c.Count("deriving_calls_with_a_derived_argument")
			}
			s.trace = append(s.trace, fmt.Sprintf("recv = %s via %s; arg = %s", spec.Trunc(stringCanon(recv), 200), how, spec.Trunc(stringCanon(arg), 100)))
			if sv, ok := any(recv).(interface {
				VerifStorage() (uintptr, int, int)
			}); ok {
				_, ln, cp := sv.VerifStorage()
				switch {
				case ln == 0 && cp > 0:
					c.Count("hook_cond/empty_with_capacity")
				case ln < cp:
					c.Count("hook_cond/len<cap")
				default:
					c.Count("hook_cond/len==cap")
				}
				c.SetAdd("hook_len_cap_states", fmt.Sprintf("%d/%d", ln, cp))
			}
			pr := s.add("recv", recv)
			if any(arg) != any(recv) {
				s.add("arg", arg)
			}
			nd := 2
			for d := 0; d < nd && !s.failed; d++ {
				which := r.Intn(c09ListOps)
				if forceOp >= 0 {
					which = forceOp
				} else if d == 1 && r.Chance(1, 2) {
					which = 0 // a second Concat is the classic way to overwrite a sibling's tail
				}
				var name string
				var res any
				if pan, msg := drive.Protect(func() { name, res = s.deriveList(recv, arg, which, "") }); pan {
					c.Violate("deriving-op-panics", s.input(), "no panic", msg)
					return
				}
				rn := fmt.Sprintf("res%d", d+1)
				s.trace = append(s.trace, fmt.Sprintf("%s = recv.%s", rn, name))
				c.SetAdd("ops", "list."+strings.SplitN(name, "(", 2)[0])
				// purity: receiver, argument and earlier results unchanged by the call
				s.verify(nil, "deriving-op-modifies-input:"+strings.SplitN(name, "(", 2)[0], "the call "+name)
				if res != nil {
					rp := s.add(rn, res)
					if d == 0 && !rp.frozen && r.Chance(1, 2) {
						// the result is written to before the next derivation is made (mutate - derive - mutate - derive): a result
						// that grows into room it does not own is overwritten by whatever is handed out next
						if desc := mutateParty(r, rp); desc != "" {
							s.trace = append(s.trace, rp.name+"."+desc)
							c.Count("mutations")
							changed := rp
							if strings.HasSuffix(desc, "rejected]") {
								changed = nil
							}
							s.verify(changed, "storage-shared-between-parties", rp.name+"."+desc)
						}
					}
				}
			}
			_ = pr
		} else {
			mk := func() at.Object {
				o := at.NewObject()
				for i := r.Intn(6); i > 0; i-- {
					k := c06Keys[r.Intn(len(c06Keys))]
					v := c09Vals(r, 1, 0)[0]
					o.Set(k, v)
				}
				if r.Chance(1, 3) { // history: fields removed again
					o.Set("tmp1", 1, "tmp2", 2)
					o.Unset("tmp1", "tmp2")
				}
				return o
			}
			recv, arg := mk(), mk()
			if r.Chance(1, 6) {
				arg = at.NewObject()
			} else if r.Chance(1, 3) {
				// an argument related to the receiver: shared keys that hold containers of the same kind on both sides, with
				// partly different content (and one instance held by both)
				both := at.NewList("held by both")
				recv.Set("shared-obj", at.NewObject("only-recv", 1, "both", at.NewList(1), "deep", at.NewObject("r", 1)), "shared-list", at.NewList(1, 2), "same", both, "kind", at.NewList())
				arg.Set("shared-obj", at.NewObject("only-arg", 2, "both", at.NewList(2), "deep", at.NewObject("a", 2)), "shared-list", at.NewList(3), "same", both, "kind", at.NewObject(), "extra", 1)
				// nil on one side of a shared key, and on both
				recv.Set("nil-in-arg", 5, "nil-in-recv", nil, "nil-in-both", nil, "nil-in-arg-container", at.NewList(1))
				arg.Set("nil-in-arg", nil, "nil-in-recv", 6, "nil-in-both", nil, "nil-in-arg-container", nil)
				c.Count("related_arguments")
			}
			s.trace = append(s.trace, fmt.Sprintf("recv = %s; arg = %s", spec.Trunc(stringCanon(recv), 200), spec.Trunc(stringCanon(arg), 100)))
			s.add("recv", recv)
			s.add("arg", arg)
			for d := 0; d < 2 && !s.failed; d++ {
				which := r.Intn(c09ObjOps)
				if forceOp >= 0 {
					which = forceOp - c09ListOps
				}
				var name string
				var res any
				if pan, msg := drive.Protect(func() { name, res = s.deriveObject(recv, arg, which) }); pan {
					c.Violate("deriving-op-panics", s.input(), "no panic", msg)
					return
				}
				rn := fmt.Sprintf("res%d", d+1)
				s.trace = append(s.trace, fmt.Sprintf("%s = recv.%s", rn, name))
				c.SetAdd("ops", "object."+strings.SplitN(name, "(", 2)[0])
				s.verify(nil, "deriving-op-modifies-input:"+strings.SplitN(name, "(", 2)[0], "the call "+name)
				if res != nil {
					s.add(rn, res)
				}
			}
		}
		// later mutations on any party: none of the others may change
		nm := r.Range(6, 10)
		for m := 0; m < nm && !s.failed; m++ {
			var live []*party
			for _, p := range s.parties {
				if !p.frozen {
					live = append(live, p)
				}
			}
			p := live[r.Intn(len(live))]
			desc := mutateParty(r, p)
			if desc == "" {
				continue
			}
			s.trace = append(s.trace, p.name+"."+desc)
			c.Count("mutations")
			changed := p
			if strings.HasSuffix(desc, "rejected]") {
				changed = nil
			}
			s.verify(changed, "storage-shared-between-parties", p.name+"."+desc)
		}
		// derive once more after all the mutations: results must describe the receiver as it is now, not what an earlier
		// (since modified) result looked like
		if !s.failed && len(s.parties) > 0 {
			s.rederive()
		}
		c.Distinct(s.input())
		if c.WantSample() && len(s.trace) > 5 && len(s.input()) < 900 {
			c.Sample(map[string]any{"scenario": s.trace})
		}
	})
}

func selfC09(s *fw.SelfCheck) {
	inner := at.NewList(1)
	a := at.NewList(1, "x", inner)
	t1 := top(a)
	s.Expect(sameTop(t1, top(a)), "top snapshot unstable")
	a.Replace(0, 2)
	s.Expect(!sameTop(t1, top(a)), "top snapshot misses a replaced scalar")
	b := at.NewList(2, "x", at.NewList(1))
	s.Expect(!sameTop(top(a), top(b)), "top snapshot ignores container identity")
	inner.Add(5)
	a.Replace(0, 1)
	s.Expect(sameTop(t1, top(a)), "top snapshot looks below the top level (nested sharing is allowed)")
	sl := a.Slice()
	t2 := top(sl)
	sl[0] = 9
	s.Expect(!sameTop(t2, top(sl)), "native snapshot misses an element store")
}

// c09RangesOfFullLists: a receiver whose array is exactly full (made by a constructor, a deriving call or grown to a
// power of two), every range that touches an end of it (tails, heads, the middle, the whole), and then every kind of
// in-place change on the receiver and on the result, each followed by a look at both: neither shows what was done to
// the other.
func c09RangesOfFullLists(c *fw.Ctx, i int, r *rng.R) {
	n := []int{2, 3, 4, 5, 8, 16, 7, 9}[i%8]
	vals := make([]any, n)
	for j := range vals {
		vals[j] = 100 + j
	}
	var recv at.List
	var how string
	switch (i / 8) % 6 {
	case 0:
		recv, how = at.NewList(vals...), "NewList(values...)"
	case 1:
		recv, how = at.NewListFrom(vals), "NewListFrom(slice)"
	case 2:
		recv, how = at.NewList(vals[:n/2]...).Concat(at.NewList(vals[n/2:]...)), "a Concat result"
	case 3:
		recv, how = at.NewList(append([]any{"head"}, vals...)...).SubList(1, 0), "a SubList result"
	case 4:
		recv = at.NewList()
		for _, v := range vals {
			recv.Add(v)
		}
		how = "grown by single Adds"
	default:
		rev := make([]any, n)
		for j := range rev {
			rev[j] = vals[n-1-j]
		}
		recv, how = at.NewList(rev...).Sort(), "a sorted list"
	}
	start, end := 0, n
	switch (i / 48) % 4 {
	case 0:
		start = r.Range(1, n-1) // a proper tail
	case 1:
		end = r.Range(1, n-1) // a proper head
	case 2:
		if n > 2 {
			start, end = 1, n-1
		}
	}
	endArg := end
	if end == n && r.Bool() {
		endArg = 0 // the same end counted from the back
	}
	var trace []string
	in := func() string {
		return fmt.Sprintf("recv = %s with %d elements 100..; res = recv.SubList(%d, %d); then %s", how, n, start, endArg, strings.Join(trace, "; "))
	}
	guard(c, in, func() {
		c.Distinct(fmt.Sprintf("%d %s %d %d", n, how, start, end))
		c.Count("ranges_of_full_lists")
		res := recv.SubList(start, endArg)
		mr := append([]any{}, vals...)            // what recv holds
		ms := append([]any{}, vals[start:end]...) // what res holds
		look := func(after string) bool {
			for name, pair := range map[string][2]any{"recv": {recv, mr}, "res": {res, ms}} {
				got := top(pair[0]).([]any)
				want := pair[1].([]any)
				if !sameTop(got, want) {
					c.Violate("storage-shared-between-parties", in(), fmt.Sprintf("%s = %s after %s", name, showTop(want), after), showTop(got))
					return false
				}
			}
			return true
		}
		if !look("the SubList call") {
			return
		}
		steps := r.Range(2, 5)
		for st := 0; st < steps; st++ {
			onRecv := r.Bool()
			l, m := res, &ms
			name := "res"
			if onRecv {
				l, m, name = recv, &mr, "recv"
			}
			k := len(*m)
			var desc string
			switch op := r.Intn(6); {
			case op == 0 && k > 0:
				j := r.Intn(k)
				if onRecv && j < start && r.Bool() && start < k {
					j = start + r.Intn(k-start)
				}
				v := 900 + st
				l.Replace(j, v)
				(*m)[j] = v
				desc = fmt.Sprintf("%s.Replace(%d, %d)", name, j, v)
			case op == 1 && k > 1:
				l.Reverse()
				for a, b := 0, k-1; a < b; a, b = a+1, b-1 {
					(*m)[a], (*m)[b] = (*m)[b], (*m)[a]
				}
				desc = name + ".Reverse()"
			case op == 2 && k > 1:
				j := r.Intn(k)
				l.Delete(j)
				*m = append(append([]any{}, (*m)[:j]...), (*m)[j+1:]...)
				desc = fmt.Sprintf("%s.Delete(%d)", name, j)
			case op == 3 && k > 1:
				l.Pop()
				*m = append([]any{}, (*m)[:k-1]...)
				desc = name + ".Pop()"
			case op == 4:
				j := r.Intn(k + 1)
				v := 800 + st
				l.Insert(j, v)
				*m = append(append(append([]any{}, (*m)[:j]...), v), (*m)[j:]...)
				desc = fmt.Sprintf("%s.Insert(%d, %d)", name, j, v)
			default:
				v := 700 + st
				l.Add(v)
				*m = append(append([]any{}, *m...), v)
				desc = fmt.Sprintf("%s.Add(%d)", name, v)
			}
			trace = append(trace, desc)
			c.Count("mutations")
			if !look(desc) {
				return
			}
		}
	})
}

// c09FirstResults: the very first result of a deriving call on a container nobody has looked at yet (and the first one
// after every change of the receiver) is written to, and the call is made again: the second result describes the
// receiver, not what was done to the first.
func c09FirstResults(c *fw.Ctx, i int, r *rng.R) {
	n := []int{0, 1, 2, 3, 5, 8}[i%6]
	keys := make([]string, n)
	pairs := make([]any, 0, 2*n)
	vals := make([]any, n)
	for j := range keys {
		keys[j] = fmt.Sprintf("k%d", j)
		vals[j] = 10 + j
		pairs = append(pairs, keys[j], vals[j])
	}
	var trace []string
	in := func() string {
		return fmt.Sprintf("a fresh container with %d int fields / elements that nothing has read yet; %s", n, strings.Join(trace, "; "))
	}
	scribble := func(l at.List) {
		drive.Protect(func() {
			l.Add("scribbled")
			if l.Count() > 1 {
				l.Reverse()
				l.Delete(0)
			}
			l.Insert(0, "scribbled too")
		})
	}
	guard(c, in, func() {
		c.Distinct(fmt.Sprintf("first results %d", i))
		o := at.NewObject(pairs...)
		l := at.NewList(vals...)
		type op struct {
			name string
			call func() at.List
			want func() []string
		}
		sorted := func(x at.List) []string {
			var out []string
			drive.Protect(func() {
				for j := 0; j < x.Count(); j++ {
					out = append(out, fmt.Sprintf("%T:%v", x.Get(j), x.Get(j)))
				}
			})
			sort.Strings(out)
			return out
		}
		curKeys := append([]string{}, keys...)
		curVals := append([]any{}, vals...)
		lvals := append([]any{}, vals...)
		wantOf := func(vs []any) []string {
			var out []string
			for _, v := range vs {
				out = append(out, fmt.Sprintf("%T:%v", v, v))
			}
			sort.Strings(out)
			return out
		}
		ops := []op{
			{"Object.Keys()", func() at.List { return o.Keys() }, func() []string {
				var vs []any
				for _, k := range curKeys {
					vs = append(vs, k)
				}
				return wantOf(vs)
			}},
			{"Object.Values()", func() at.List { return o.Values() }, func() []string { return wantOf(curVals) }},
			{"List.SubList(0,0)", func() at.List { return l.SubList(0, 0) }, func() []string { return wantOf(lvals) }},
			{"List.Concat(empty)", func() at.List { return l.Concat(at.NewList()) }, func() []string { return wantOf(lvals) }},
			{"List.Filter(all)", func() at.List { return l.Filter(func(any) bool { return true }) }, func() []string { return wantOf(lvals) }},
			{"List.Map(identity)", func() at.List { return l.Map(func(_ int, v any) any { return v }) }, func() []string { return wantOf(lvals) }},
			{"List.Clone()", func() at.List { return l.Clone() }, func() []string { return wantOf(lvals) }},
		}
		for round := 0; round < 3; round++ {
			for _, k := range r.Perm(len(ops)) {
				d := ops[k]
				first := d.call()
				scribble(first)
				trace = append(trace, d.name+" -> written to; "+d.name+" again")
				c.Count("first_results_written_to")
				second := d.call()
				if got, want := sorted(second), d.want(); fmt.Sprint(got) != fmt.Sprint(want) {
					c.Violate("derived-result-stale:"+d.name, in(), fmt.Sprint(want), fmt.Sprint(got))
					return
				}
				scribble(second)
				third := d.call()
				if got, want := sorted(third), d.want(); fmt.Sprint(got) != fmt.Sprint(want) {
					c.Violate("derived-result-stale:"+d.name, in()+"; and once more", fmt.Sprint(want), fmt.Sprint(got))
					return
				}
			}
			// the receivers change (an overwrite that keeps the key set, then a new key / element): the next results are first ones again
			if len(curKeys) > 0 {
				o.Set(curKeys[0], 500+round)
				curVals[0] = 500 + round
				trace = append(trace, fmt.Sprintf("o.Set(%q, %d)", curKeys[0], 500+round))
			}
			nk := fmt.Sprintf("new%d", round)
			o.Set(nk, 600+round)
			curKeys, curVals = append(curKeys, nk), append(curVals, 600+round)
			l.Add(700 + round)
			lvals = append(lvals, 700+round)
			trace = append(trace, fmt.Sprintf("o.Set(%q, %d); l.Add(%d)", nk, 600+round, 700+round))
		}
	})
}
