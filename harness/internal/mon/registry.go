// Package mon holds one runtime monitor per property. Every monitor drives the real library (rebuilt
// from /repo) with generated workloads and judges each execution with an oracle that does not depend
// on the library.
package mon

import (
	"fmt"
	"math/big"
	"runtime/debug"
	"strconv"
	"strings"

	at "github.com/DanielSvub/anytype"

	"verifharness/internal/drive"
	"verifharness/internal/fw"
	"verifharness/internal/rng"
	"verifharness/internal/spec"
)

type Monitor struct {
	ID   string
	Run  func(c *fw.Ctx)
	Self func(s *fw.SelfCheck)
}

var All = map[string]*Monitor{}

func register(m *Monitor) { All[m.ID] = m }

// IntBits is the width of the platform int of this worker build.
const IntBits = strconv.IntSize

// guard runs one case body; a panic that escapes it is a violation (the monitors wrap every call for which a
// panic is a legal outcome themselves).
func guard(c *fw.Ctx, input func() string, body func()) {
	defer func() {
		if r := recover(); r != nil {
			st := string(debug.Stack())
			if strings.Contains(st, "verifharness/internal") && !strings.Contains(st, "DanielSvub/anytype.") {
				c.Inconclusive(fmt.Sprintf("harness panic: %v\n%s", r, spec.Trunc(st, 1500)))
				return
			}
			c.ViolateX("unexpected-panic", input(), "no panic", fmt.Sprintf("panic: %v", r), spec.Trunc(st, 2500))
		}
	}()
	body()
}

// parseRoot parses text with the parser that fits the root kind.
func parseRoot(k spec.Kind, text string) (res any, err error, panicked string) {
	defer func() {
		if r := recover(); r != nil {
			panicked = fmt.Sprint(r)
		}
	}()
	if k == spec.List {
		l, e := at.ParseList(text)
		if l == nil {
			return nil, e, ""
		}
		return l, e, ""
	}
	o, e := at.ParseObject(text)
	if o == nil {
		return nil, e, ""
	}
	return o, e, ""
}

func stringOf(v any) string {
	switch x := v.(type) {
	case at.List:
		return x.String()
	case at.Object:
		return x.String()
	}
	panic("stringOf: not a container")
}

func formatOf(v any, indent int) string {
	switch x := v.(type) {
	case at.List:
		return x.FormatString(indent)
	case at.Object:
		return x.FormatString(indent)
	}
	panic("formatOf: not a container")
}

func equalsOf(a, b any) bool {
	switch x := a.(type) {
	case at.List:
		return x.Equals(b.(at.List))
	case at.Object:
		return x.Equals(b.(at.Object))
	}
	panic("equalsOf: not a container")
}

func cloneOf(a any) any {
	switch x := a.(type) {
	case at.List:
		return x.Clone()
	case at.Object:
		return x.Clone()
	}
	panic("cloneOf: not a container")
}

// genTreeFor draws a tree with the size profile used by the text-format monitors.
func genTreeFor(r *rng.R) *spec.Spec {
	o := spec.Opts{MaxDepth: r.Range(1, 5), MaxWidth: r.Range(1, 7), ScalarBias: r.Range(5, 8), Wide: true}
	return spec.GenTree(r, o)
}

// pinnedTrees: seed-independent hostile trees (the triggers of the defects found on the original tree and
// the boundary literals the properties name).
func pinnedTrees() []*spec.Spec {
	S, I, F, L, O := spec.StrV, spec.IntV, spec.FloatV, spec.ListV, spec.ObjV
	neg0 := F(0)
	neg0.F = -neg0.F
	negz := spec.FloatV(negZero())
	// keys and values that collide under common digests, side by side in one object and one list
	collK, collL := &spec.Spec{K: spec.Obj}, &spec.Spec{K: spec.List}
	for i, p := range spec.CollisionPairs {
		collK.Set(p[0], S(p[1]))
		collK.Set(p[1], I(i))
		collL.L = append(collL.L, S(p[0]), S(p[1]))
	}
	trees := []*spec.Spec{
		collK, collL, L(collK.Clone(), collL.Clone()),
		L(F(1), negz, F(100000)),
		L(F(1e21), F(1e6), F(999999), F(1e-6), F(1e-7), F(5e-324), F(1.7976931348623157e308), F(123456.789)),
		L(S(string(rune(0xfffd)))),
		L(S("a\x01b"), S("\x7f"), S("\a\v"), S(string(rune(0xe0001))), S(string(rune(0x1f600))), S(string(rune(0x2028)))),
		L(S("a/b"), S("\\/"), S("\"\\"), S("\\u0041"), S("\\")),
		O("", O("", L())),
		O("a/b", I(1), "\x01", I(2), string(rune(0xfffd)), I(3), "\"", I(4), "\\", I(5), string(rune(0xe0001)), I(6)),
		L(I(0), I(-1), I(int(^uint(0)>>1)), I(-int(^uint(0)>>1)-1)),
		L(spec.NilV(), spec.BoolV(true), spec.BoolV(false), L(), O()),
		O("k", L(O("k", L(O("k", L(F(2))))))),
		L(S("]"), S("["), S("{"), S("}"), S(","), S(":"), S("null"), S("1"), S("1.0")),
		L(F(0.1), F(1.0/3.0), F(0.30000000000000004), F(2.2250738585072014e-308), F(9007199254740993)),
		L(S("\x01\x02"), S("\x1b\x1b[0m"), S("\x00\x00")),
		L(F(2500000), F(1e15), F(9007199254740992), F(-1e6), F(1.5e300)),
		L(S("C:\\data\\"), S("x"), L(S("a,b"), S("c:d"))),
	}
	return trees
}

func negZero() float64 {
	z := 0.0
	return -z
}

// numericLitEquals reports whether a JSON number literal denotes exactly the model number.
func numericLitEquals(lit string, want *spec.Spec) bool {
	if lit == "" {
		return false
	}
	if want.K == spec.Int {
		r, ok := new(big.Rat).SetString(lit)
		return ok && r.Cmp(new(big.Rat).SetInt64(int64(want.I))) == 0
	}
	f, err := strconv.ParseFloat(lit, 64)
	return err == nil && f == want.F
}

// jsonDataDiff compares a tree decoded from JSON text (numbers carry their literal) with the expected data.
// JSON does not distinguish ints from floats, so numbers are compared by value: an int exactly, a float as the
// correctly rounded float64 of the literal.
func jsonDataDiff(got, want *spec.Spec, path string) string {
	if path == "" {
		path = "<root>"
	}
	gotNum := got.K == spec.Int || got.K == spec.Float
	wantNum := want.K == spec.Int || want.K == spec.Float
	if gotNum && wantNum {
		if !numericLitEquals(got.Lit, want) {
			return fmt.Sprintf("at %s: number literal %q does not denote %s", path, got.Lit, want.Canon())
		}
		return ""
	}
	if got.K != want.K {
		return fmt.Sprintf("at %s: %s %s, expected %s %s", path, got.K, spec.Trunc(got.Canon(), 80), want.K, spec.Trunc(want.Canon(), 80))
	}
	switch got.K {
	case spec.Bool:
		if got.B != want.B {
			return fmt.Sprintf("at %s: %v, expected %v", path, got.B, want.B)
		}
	case spec.Str:
		if got.S != want.S {
			return fmt.Sprintf("at %s: string %s, expected %s", path, strconv.QuoteToASCII(spec.Trunc(got.S, 100)), strconv.QuoteToASCII(spec.Trunc(want.S, 100)))
		}
	case spec.List:
		if len(got.L) != len(want.L) {
			return fmt.Sprintf("at %s: array length %d, expected %d", path, len(got.L), len(want.L))
		}
		for i := range got.L {
			if d := jsonDataDiff(got.L[i], want.L[i], path+"#"+strconv.Itoa(i)); d != "" {
				return d
			}
		}
	case spec.Obj:
		if len(got.Keys) != len(want.Keys) {
			return fmt.Sprintf("at %s: %d keys, expected %d", path, len(got.Keys), len(want.Keys))
		}
		for i, k := range want.Keys {
			o := got.Get(k)
			if o == nil {
				return fmt.Sprintf("at %s: key %s missing", path, strconv.QuoteToASCII(spec.Trunc(k, 60)))
			}
			if d := jsonDataDiff(o, want.Vals[i], path+"."+strconv.QuoteToASCII(spec.Trunc(k, 40))); d != "" {
				return d
			}
		}
	}
	return ""
}

// describeTree is the explicit case text stored in violation records for tree inputs.
func describeTree(t *spec.Spec) string { return "tree " + t.Canon() }

var _ = drive.Walk

// sameRat: two JSON number literals denote exactly the same rational number.
func sameRat(a, b string) bool {
	if a == b {
		return a != ""
	}
	ra, ok1 := new(big.Rat).SetString(a)
	rb, ok2 := new(big.Rat).SetString(b)
	return ok1 && ok2 && ra.Cmp(rb) == 0
}
