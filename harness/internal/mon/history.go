package mon

import (
	"fmt"
	"math"

	"verifharness/internal/drive"
	"verifharness/internal/fw"
	"verifharness/internal/model"
	"verifharness/internal/refjson"
	"verifharness/internal/rng"
	"verifharness/internal/spec"
)

// History workloads: a tree is built as a model heap bound to real containers, then rounds of
// "probe the property on the whole tree; mutate the tree somewhere (methods, nested in place, tree-form writes,
// aliasing of existing containers)" are run. The probes recompute their expectation from the model after every round,
// so anything the library remembers from an earlier call (caches, memoised digests, reused buffers) and fails to
// invalidate becomes visible. Sharing of one container instance at several positions arises naturally here.

// reachable returns the nodes reachable from root (root first).
func reachable(root *model.Node) []*model.Node {
	seen := map[*model.Node]bool{}
	var out []*model.Node
	var rec func(n *model.Node)
	rec = func(n *model.Node) {
		if seen[n] {
			return
		}
		seen[n] = true
		out = append(out, n)
		for _, e := range n.E {
			if e.Ref != nil {
				rec(e.Ref)
			}
		}
		for _, k := range n.SortedKeys() {
			if e := n.M[k]; e.Ref != nil {
				rec(e.Ref)
			}
		}
	}
	rec(root)
	return out
}

// treeSafeVal: a value that can be stored anywhere below root without closing a cycle: a scalar, a fresh container,
// or an existing container that is not an ancestor-or-self of the target (shared instances are welcome).
func (p *prog) treeSafeVal(target *model.Node) model.Val {
	r := p.r
	switch r.Intn(10) {
	case 0, 1:
		var cands []*model.Node
		for _, n := range p.h.Nodes {
			if n.Real != nil && !model.Reaches(n, target) {
				cands = append(cands, n)
			}
		}
		if len(cands) > 0 {
			return model.Ref(cands[r.Intn(len(cands))])
		}
		fallthrough
	case 2:
		t := spec.GenTree(r, spec.Opts{MaxDepth: 2, MaxWidth: 3})
		return model.Ref(p.h.FromSpec(t))
	case 3:
		return model.ScalarFromSpec(spec.GenScalar(r)) // hostile scalars (strings, floats)
	default:
		// the history probes serve C01 / C02 / C16 as well, whose statements cover finite floats only
		for {
			v := scalarVal(r)
			if v.K == spec.Float && math.IsInf(v.F, 0) {
				continue
			}
			return v
		}
	}
}

// randomMutation applies one mutation somewhere inside the tree below root.
func randomMutation(p *prog, root *model.Node) {
	r := p.r
	nodes := reachable(root)
	n := nodes[r.Intn(len(nodes))]
	if r.Chance(1, 4) {
		// a tree-form write / unset from the root (only paths over addressable keys are generated)
		if r.Chance(3, 4) {
			path := genWritePath(p.c, r, root)
			segs, ok := model.WellFormed(root.K, path)
			if !ok {
				return
			}
			// value must not reach any node on the resolved prefix: use scalars, fresh containers, or unrelated containers
			v := model.Val{}
			switch r.Intn(3) {
			case 0:
				v = model.Ref(p.h.FromSpec(spec.GenTree(r, spec.Opts{MaxDepth: 2, MaxWidth: 2})))
			default:
				v = model.ScalarFromSpec(spec.GenScalar(r))
			}
			_ = segs
			c11Set(p, root, path, v)
		} else {
			paths, _ := model.AllPaths(root, 100)
			if len(paths) > 0 {
				c11Unset(p, root, paths[r.Intn(len(paths))])
			}
		}
		return
	}
	if n.K == spec.List {
		ln := len(n.E)
		switch op := r.Intn(9); {
		case op == 0 || ln == 0:
			c05Add(p, n, []model.Val{p.treeSafeVal(n)})
		case op == 1:
			c05Insert(p, n, r.Intn(ln+1), p.treeSafeVal(n))
		case op == 2 || op == 3:
			c05Replace(p, n, r.Intn(ln), p.treeSafeVal(n))
		case op == 4:
			c05Pop(p, n)
		case op == 5:
			c05Reverse(p, n)
		case op == 6:
			idx := r.Intn(ln)
			p.step("Delete", fmt.Sprintf("%s.Delete(%d)", n.Name(), idx), false, func() {
				n.E = append(n.E[:idx:idx], n.E[idx+1:]...)
				n.List().Delete(idx)
			})
		case op == 7 && sortable(n):
			p.step("Sort", n.Name()+".Sort()", false, func() {
				modelSort(n)
				n.List().Sort()
			})
		default:
			c05Add(p, n, []model.Val{p.treeSafeVal(n), p.treeSafeVal(n)})
		}
		return
	}
	keys := n.SortedKeys()
	switch op := r.Intn(8); {
	case op == 7 && len(keys) > 0:
		// a key leaves and comes back (with the old or another value) without anybody looking in between; and the same for
		// a key that was never there: set, unset, set
		k := keys[r.Intn(len(keys))]
		if r.Chance(1, 3) {
			k = spec.GenKey(r)
		}
		v1, v2 := p.treeSafeVal(n), p.treeSafeVal(n)
		if old, ok := n.M[k]; ok && r.Bool() {
			v2 = old
		}
		p.lazyHold++
		p.step("Set", fmt.Sprintf("%s.Set(%q, %s) [before it leaves]", n.Name(), k, v1), false, func() {
			n.M[k] = v1
			n.Object().Set(k, p.h.Arg(v1))
		})
		p.step("Unset", fmt.Sprintf("%s.Unset(%q) [leaves]", n.Name(), k), false, func() {
			delete(n.M, k)
			n.Object().Unset(k)
		})
		p.step("Set", fmt.Sprintf("%s.Set(%q, %s) [comes back]", n.Name(), k, v2), false, func() {
			n.M[k] = v2
			n.Object().Set(k, p.h.Arg(v2))
		})
		p.lazyHold--
	case op == 6:
		// Unset of keys that are not there (a no-op), alone, twice, next to a present one; absent keys that would sort
		// before, between and behind the present ones
		absent := []string{"", "\x00", "A", "absent", "m", "zzzz", "~", string(rune(0x10ffff))}
		var ks []string
		for k := r.Range(1, 3); k > 0; k-- {
			a := absent[r.Intn(len(absent))]
			if _, there := n.M[a]; !there {
				ks = append(ks, a)
			}
		}
		if len(keys) > 0 && r.Chance(1, 3) {
			k := keys[r.Intn(len(keys))]
			ks = append(ks, k, k) // a present key, twice in one call: the second time it is absent
		}
		p.step("Unset", fmt.Sprintf("%s.Unset(%q) [absent keys]", n.Name(), ks), false, func() {
			for _, k := range ks {
				delete(n.M, k)
			}
			n.Object().Unset(ks...)
		})
	case op == 0 && len(keys) > 0:
		k := keys[r.Intn(len(keys))]
		p.step("Unset", fmt.Sprintf("%s.Unset(%q)", n.Name(), k), false, func() {
			delete(n.M, k)
			n.Object().Unset(k)
		})
	case op == 1 && len(keys) > 0:
		// overwrite an existing key (scalar over container, container over scalar, same kind ...)
		k := keys[r.Intn(len(keys))]
		v := p.treeSafeVal(n)
		p.step("Set", fmt.Sprintf("%s.Set(%q, %s) [overwrite]", n.Name(), k, v), false, func() {
			n.M[k] = v
			n.Object().Set(k, p.h.Arg(v))
		})
	default:
		k := spec.GenKey(r)
		v := p.treeSafeVal(n)
		p.step("Set", fmt.Sprintf("%s.Set(%q, %s)", n.Name(), k, v), false, func() {
			n.M[k] = v
			n.Object().Set(k, p.h.Arg(v))
		})
	}
}

// historyCases runs the probe / mutate rounds.
func historyCases(c *fw.Ctx, sub string, nQuick, nThorough int, probe func(p *prog, root *model.Node, round int)) {
	c.Cases(sub, c.N(nQuick, nThorough), false, func(i int, r *rng.R) {
		p := &prog{c: c, r: r, h: &model.Heap{}, lazy: i%2 == 1, ctx: i%3 == 0}
		guard(c, p.input, func() {
			tree := genTreeFor(r)
			if tree.Size() > 400 {
				tree = spec.GenTree(r, spec.Opts{MaxDepth: 3, MaxWidth: 4})
			}
			root := p.h.FromSpec(tree)
			p.trace = append(p.trace, "root "+root.Name()+" = "+spec.Trunc(tree.Canon(), 600))
			rounds := r.Range(3, 5)
			for round := 0; round < rounds && !p.failed; round++ {
				probe(p, root, round)
				if p.failed {
					break
				}
				for m := r.Range(1, 3); m > 0 && !p.failed; m-- {
					randomMutation(p, root)
				}
				c.Count("history_rounds")
			}
			if !p.failed {
				probe(p, root, rounds)
			}
		})
		c.Distinct(p.input())
	})
}

// failProbe records a violation of the probing monitor with the history as input.
func (p *prog) failProbe(sig, expected, observed string) {
	if p.failed {
		return
	}
	p.failed = true
	p.c.Violate(sig, p.input(), expected, observed)
}

// --- probes -----------------------------------------------------------------------------------

func probeRoundTrip(p *prog, root *model.Node, round int) {
	want := root.ToSpec()
	text := stringOf(root.Real)
	p.trace = append(p.trace, fmt.Sprintf("probe %d: String() = %s", round, spec.Trunc(text, 300)))
	parsed, err, pan := parseRoot(root.K, text)
	if pan != "" || err != nil || parsed == nil {
		p.failProbe("history-roundtrip-parse-error", "String() of the current tree parses", fmt.Sprintf("error %v panic %s", err, pan))
		return
	}
	w, werr := drive.Walk(parsed)
	if werr != nil {
		p.failProbe("history-roundtrip-unwalkable", "consistent container", werr.Error())
		return
	}
	if d := drive.Diff(w, want); d != "" {
		p.failProbe("history-roundtrip-differs", "re-parsed container equals the current tree "+spec.Trunc(want.Canon(), 600), d)
		return
	}
	if !equalsOf(parsed, root.Real) || !equalsOf(root.Real, parsed) {
		p.failProbe("history-roundtrip-equals-false", "Equals true between the tree and its re-parsed serialisation", "false")
	}
}

func probeJSONText(p *prog, root *model.Node, round int) {
	want := root.ToSpec()
	text := stringOf(root.Real)
	p.trace = append(p.trace, fmt.Sprintf("probe %d: String() = %s", round, spec.Trunc(text, 300)))
	before := p.c.Violations()
	checkJSONText(p.c, "string", text, want, func() string { return p.input() })
	if p.c.Violations() > before {
		p.failed = true
	}
}

func probeFormat(p *prog, root *model.Node, round int) {
	want := root.ToSpec()
	indent := p.r.Intn(11)
	var out string
	if pan, msg := drive.Protect(func() { out = formatOf(root.Real, indent) }); pan {
		p.failProbe("history-format-panics", "no panic", msg)
		return
	}
	p.trace = append(p.trace, fmt.Sprintf("probe %d: FormatString(%d) = %s", round, indent, spec.Trunc(out, 300)))
	if out == "" {
		p.failProbe("history-format-empty-output", "non-empty", "empty")
		return
	}
	before := p.c.Violations()
	ok := checkJSONText(p.c, "format", out, want, func() string { return p.input() })
	if p.c.Violations() > before || !ok {
		p.failed = true
		return
	}
	if re, err := refjson.Reindent(out, indent); err == nil && re != out {
		p.failProbe("history-format-not-canonical-layout", re, out)
	}
}

func probeNative(p *prog, root *model.Node, round int) {
	want := root.ToSpec()
	nat := nativeOf(root.Real)
	p.trace = append(p.trace, fmt.Sprintf("probe %d: Native export", round))
	if d := nativeDiff(nat, want, ""); d != "" {
		p.failProbe("history-native-export-differs", "plain Go values equal to the current content "+spec.Trunc(want.Canon(), 600), d)
		return
	}
	scribble(nat)
	if d := p.h.CheckAll(); d != "" {
		p.failProbe("history-native-export-aliases-container", "tree unchanged after the export was overwritten", d)
	}
}

func probeEquals(p *prog, root *model.Node, round int) {
	want := root.ToSpec()
	fresh := drive.Build(p.r, want.Clone())
	p.trace = append(p.trace, fmt.Sprintf("probe %d: Equals against a separately built copy and a one-edit variant", round))
	var ab, ba bool
	if pan, msg := drive.Protect(func() { ab, ba = equalsOf(root.Real, fresh), equalsOf(fresh, root.Real) }); pan {
		p.failProbe("history-equals-panics", "true", msg)
		return
	}
	if !ab || !ba {
		p.failProbe("history-equals-false-for-equal-content", "tree.Equals(separately built copy of its current content) in both directions", fmt.Sprintf("%v / %v", ab, ba))
		return
	}
	edited, desc := editTree(p.r, want)
	other := drive.Build(p.r, edited)
	exp := spec.Equal(want, edited)
	var xy, yx bool
	drive.Protect(func() { xy, yx = equalsOf(root.Real, other), equalsOf(other, root.Real) })
	if xy != exp || yx != exp {
		p.failProbe("history-equals-differs-from-structural-equality", fmt.Sprintf("%v for the variant (%s) %s", exp, desc, spec.Trunc(edited.Canon(), 400)), fmt.Sprintf("%v / %v", xy, yx))
	}
}

func probeClone(p *prog, root *model.Node, round int) {
	want := root.ToSpec()
	cl := cloneOf(root.Real)
	p.trace = append(p.trace, fmt.Sprintf("probe %d: Clone", round))
	sc, err := drive.Walk(cl)
	if err != nil {
		p.failProbe("history-clone-unwalkable", "consistent", err.Error())
		return
	}
	if d := drive.Diff(sc, want); d != "" {
		p.failProbe("history-clone-content-differs", "the clone has the current content", d)
		return
	}
	so, err := drive.Walk(root.Real)
	if err != nil {
		return
	}
	if d := sharedContainers(so, sc); d != "" {
		p.failProbe("history-clone-shares-container", "no container reachable from both", d)
		return
	}
	// mutate the clone everywhere: the original (checked against the model) must not move
	for m := 0; m < 3; m++ {
		node, path, ok := pickContainer(p.r, sc)
		mutate(p.r, cl, node, path, ok)
		if s2, err := drive.Walk(cl); err == nil {
			sc = s2
		}
	}
	if d := p.h.CheckAll(); d != "" {
		p.failProbe("history-clone-mutation-leaks", "original unchanged by mutations of its clone", d)
	}
}
