//go:build verif

package mon

import at "github.com/DanielSvub/anytype"

func init() {
	installHook = func(f func(string)) bool {
		at.VerifPoint = f
		return true
	}
}
