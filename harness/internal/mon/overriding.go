package mon

import (
	"fmt"

	at "github.com/DanielSvub/anytype"

	"verifharness/internal/drive"
	"verifharness/internal/fw"
	"verifharness/internal/rng"
	"verifharness/internal/spec"
)

// Derived structures whose types redefine observers of the interface: a batch that prints a label of its own, does not
// count its trailer element and calls itself empty when only the trailer is left. What a plain container holding such a
// value prints is still the stored content: the printed form of a container is no place for a user type's own methods.

type LoudList struct {
	at.List
	label string
}

func (l *LoudList) String() string { return "batch<" + l.label + ">" }
func (l *LoudList) FormatString(indent int) string {
	return "batch<" + l.label + fmt.Sprint(indent) + ">"
}
func (l *LoudList) Count() int  { return l.List.Count() - 1 }
func (l *LoudList) Empty() bool { return l.List.Count() <= 1 }

// ForEach of a batch goes from the newest element to the oldest.
func (l *LoudList) ForEach(f func(int, any)) at.List {
	for i := l.List.Count() - 1; i >= 0; i-- {
		f(i, l.List.Get(i))
	}
	return l
}

type LoudObject struct {
	at.Object
	label string
}

func (o *LoudObject) String() string { return "record<" + o.label + ">" }
func (o *LoudObject) FormatString(indent int) string {
	return "record<" + o.label + fmt.Sprint(indent) + ">"
}
func (o *LoudObject) Count() int  { return o.Object.Count() + 1 }
func (o *LoudObject) Empty() bool { return false }

// Keys of a record lists every other key only, Values nothing.
func (o *LoudObject) Keys() at.List {
	all := o.Object.Keys()
	out := at.NewList()
	for i := 0; i < all.Count(); i += 2 {
		out.Add(all.Get(i))
	}
	return out
}
func (o *LoudObject) Values() at.List { return at.NewList() }

// loud wraps a plain container into the matching structure and registers it; embedded is the library container inside.
func loud(plain any, label string) (outer any, embedded any) {
	switch v := plain.(type) {
	case at.List:
		d := &LoudList{List: v, label: label}
		d.Init(d)
		return d, d.List
	case at.Object:
		d := &LoudObject{Object: v, label: label}
		d.Init(d)
		return d, d.Object
	}
	return plain, plain
}

// overridingHolders: plain containers that hold such structures at several places; judge gets the printing container and
// the content it holds.
func overridingHolders(c *fw.Ctx, judge func(real any, tree *spec.Spec, where string, r *rng.R)) {
	c.Cases("overriding-derived", c.N(300, 30000), true, func(i int, r *rng.R) {
		tree := genTreeFor(r)
		if i%5 == 0 { // small ones: empty, one element (only the 'trailer'), two
			n := (i / 5) % 3
			if i%2 == 0 {
				tree = spec.ListV()
				for j := 0; j < n; j++ {
					tree.L = append(tree.L, spec.IntV(j+1))
				}
			} else {
				tree = spec.ObjV()
				for j := 0; j < n; j++ {
					tree.Set(fmt.Sprintf("k%d", j), spec.StrV("v"))
				}
			}
		}
		outer, embedded := loud(drive.Build(nil, tree), fmt.Sprint(i))
		tree2 := genTreeFor(r)
		outer2, _ := loud(drive.Build(nil, tree2), "second")
		var real any
		var want *spec.Spec
		var where string
		switch i % 6 {
		case 0:
			real, want, where = at.NewList(1, outer, "x"), spec.ListV(spec.IntV(1), tree, spec.StrV("x")), "NewList(1, <structure>, \"x\")"
		case 1:
			real, want, where = at.NewObject("k", outer, "n", 2.5), spec.ObjV("k", tree, "n", spec.FloatV(2.5)), "NewObject(\"k\", <structure>, \"n\", 2.5)"
		case 2:
			real = at.NewList(at.NewObject("deep", at.NewList(outer)))
			want, where = spec.ListV(spec.ObjV("deep", spec.ListV(tree))), "NewList(NewObject(\"deep\", NewList(<structure>)))"
		case 3: // the embedded container of the structure prints itself
			real, want, where = embedded, tree, "the container embedded in the structure"
		case 4:
			real, want, where = at.NewList(outer, outer2, outer), spec.ListV(tree, tree2, tree), "NewList(<structure>, <second structure>, <structure>)"
		default:
			real = at.NewObject().Set("a", outer).Set("b", at.NewList().Add(outer2))
			want, where = spec.ObjV("a", tree, "b", spec.ListV(tree2)), "NewObject().Set(\"a\", <structure>).Set(\"b\", NewList().Add(<second structure>))"
		}
		c.Count("holders_of_structures_with_observers_of_their_own")
		judge(real, want, where+"; the structure's type redefines String, FormatString, Count, Empty and ForEach (lists) or Keys and Values (objects); it embeds "+spec.Trunc(tree.Canon(), 600), r)
	})
}
