package model

import (
	"strconv"

	"verifharness/internal/spec"
)

// Seg is one tree-form segment: sigil '.' or '#' and the text up to the next sigil.
type Seg struct {
	Sigil byte
	Text  string
}

// SplitPath splits a path into segments. ok=false when the string does not start with a sigil.
func SplitPath(p string) (segs []Seg, ok bool) {
	if p == "" || (p[0] != '.' && p[0] != '#') {
		return nil, false
	}
	i := 0
	for i < len(p) {
		sig := p[i]
		j := i + 1
		for j < len(p) && p[j] != '.' && p[j] != '#' {
			j++
		}
		segs = append(segs, Seg{Sigil: sig, Text: p[i+1 : j]})
		i = j
	}
	return segs, true
}

// CanonIndex: "0" or [1-9][0-9]* that fits a non-negative int.
func CanonIndex(t string) (int, bool) {
	if t == "" {
		return 0, false
	}
	if t[0] == '0' && len(t) > 1 {
		return 0, false
	}
	for i := 0; i < len(t); i++ {
		if t[i] < '0' || t[i] > '9' {
			return 0, false
		}
	}
	v, err := strconv.Atoi(t)
	if err != nil {
		return 0, false // canonical but too large for an int: can never be a valid index
	}
	return v, true
}

func allDigits(t string) bool {
	if t == "" {
		return false
	}
	for i := 0; i < len(t); i++ {
		if t[i] < '0' || t[i] > '9' {
			return false
		}
	}
	return true
}

// NumericLooking: an index text that is not canonical decimal but that an integer parser might or might
// not accept (sign, leading zero, base prefix, digit separators). Such paths are outside the domain of
// C10/C11, only consistency between GetTF and TypeOfTF is demanded for them.
func NumericLooking(t string) bool {
	if t == "" {
		return false
	}
	if _, ok := CanonIndex(t); ok {
		return false
	}
	if allDigits(t) && t[0] != '0' {
		return false // canonical decimal that overflows int: plainly unresolvable
	}
	// out of domain only if the text is a number in some wider syntax (sign, leading zeros, base prefix, digit
	// separators, float notation); a text no number parser accepts ("1-", "1x", "1/") is plainly non-numeric
	if _, err := strconv.ParseInt(t, 0, 64); err == nil {
		return true
	}
	if _, err := strconv.ParseUint(t, 0, 64); err == nil {
		return true
	}
	if ne, ok := err2num(t); ok {
		return ne
	}
	return false
}

// err2num: range errors of the integer parser (syntactically a number, too large) and float syntax count as numeric-looking.
func err2num(t string) (bool, bool) {
	if _, err := strconv.ParseInt(t, 0, 64); err != nil {
		if ne, ok := err.(*strconv.NumError); ok && ne.Err == strconv.ErrRange {
			return true, true
		}
	}
	if _, err := strconv.ParseFloat(t, 64); err == nil {
		return true, true
	}
	return false, false
}

type Status int

const (
	Resolved Status = iota
	Unresolved
	OutOfDomain
)

// Resolve applies the statement of C10: '.key' steps on objects, '#index' steps on lists.
func Resolve(root *Node, path string) (Val, Status) {
	segs, ok := SplitPath(path)
	if !ok || len(path) < 2 {
		return Val{}, Unresolved
	}
	// out of domain as soon as any list-index segment is numeric-looking but not canonical
	for _, s := range segs {
		if s.Sigil == '#' && NumericLooking(s.Text) {
			return Val{}, OutOfDomain
		}
	}
	cur := Ref(root)
	for _, s := range segs {
		if cur.Ref == nil {
			return Val{}, Unresolved // scalar in the way
		}
		n := cur.Ref
		switch s.Sigil {
		case '.':
			if n.K != spec.Obj || s.Text == "" {
				return Val{}, Unresolved
			}
			v, ok := n.M[s.Text]
			if !ok {
				return Val{}, Unresolved
			}
			cur = v
		case '#':
			if n.K != spec.List {
				return Val{}, Unresolved
			}
			i, ok := CanonIndex(s.Text)
			if !ok || i >= len(n.E) {
				return Val{}, Unresolved
			}
			cur = n.E[i]
		}
	}
	return cur, Resolved
}

// WellFormed reports whether a path is a well-formed write path for a root of the given kind:
// every segment '.key' (non-empty key) or '#canonical-index', first sigil fitting the root.
func WellFormed(rootKind spec.Kind, path string) ([]Seg, bool) {
	segs, ok := SplitPath(path)
	if !ok || len(segs) == 0 {
		return nil, false
	}
	if (rootKind == spec.List) != (segs[0].Sigil == '#') {
		return nil, false
	}
	for _, s := range segs {
		if s.Sigil == '.' && s.Text == "" {
			return nil, false
		}
		if s.Sigil == '#' {
			if _, ok := CanonIndex(s.Text); !ok {
				return nil, false
			}
		}
	}
	return segs, true
}

// SetTF applies the write rules of C11 to the model. New intermediates are created unbound (Real == nil)
// and are bound to whatever the library created when the heap is checked.
func (h *Heap) SetTF(root *Node, segs []Seg, v Val) {
	n := root
	for si, s := range segs {
		last := si == len(segs)-1
		var next spec.Kind
		if !last {
			if segs[si+1].Sigil == '.' {
				next = spec.Obj
			} else {
				next = spec.List
			}
		}
		if s.Sigil == '#' {
			i, _ := CanonIndex(s.Text)
			if last {
				if i >= len(n.E) {
					for len(n.E) < i {
						n.E = append(n.E, Nil())
					}
					n.E = append(n.E, v)
				} else {
					n.E[i] = v
				}
				return
			}
			if i >= len(n.E) {
				for len(n.E) < i {
					n.E = append(n.E, Nil())
				}
				c := h.newNode(next)
				n.E = append(n.E, Ref(c))
				n = c
			} else if n.E[i].K == next {
				n = n.E[i].Ref
			} else {
				c := h.newNode(next)
				n.E[i] = Ref(c)
				n = c
			}
			continue
		}
		// '.' segment on an object
		if last {
			n.M[s.Text] = v
			return
		}
		if cur, ok := n.M[s.Text]; ok && cur.K == next {
			n = cur.Ref
		} else {
			c := h.newNode(next)
			n.M[s.Text] = Ref(c)
			n = c
		}
	}
}

// UnsetTF removes the addressed slot when the whole path resolves; reports whether it did.
func (h *Heap) UnsetTF(root *Node, path string) bool {
	segs, ok := SplitPath(path)
	if !ok || len(path) < 2 {
		return false
	}
	if _, st := Resolve(root, path); st != Resolved {
		return false
	}
	n := root
	for _, s := range segs[:len(segs)-1] {
		if s.Sigil == '.' {
			n = n.M[s.Text].Ref
		} else {
			i, _ := CanonIndex(s.Text)
			n = n.E[i].Ref
		}
	}
	s := segs[len(segs)-1]
	if s.Sigil == '.' {
		delete(n.M, s.Text)
	} else {
		i, _ := CanonIndex(s.Text)
		n.E = append(n.E[:i:i], n.E[i+1:]...)
	}
	return true
}

// AllPaths enumerates every resolvable path below a root together with the value it resolves to.
// Keys that cannot be addressed (empty or containing a sigil) are skipped.
func AllPaths(root *Node, limit int) (paths []string, vals []Val) {
	var rec func(n *Node, prefix string, depth int)
	rec = func(n *Node, prefix string, depth int) {
		if len(paths) >= limit || depth > 40 {
			return
		}
		if n.K == spec.List {
			for i, e := range n.E {
				p := prefix + "#" + strconv.Itoa(i)
				paths = append(paths, p)
				vals = append(vals, e)
				if e.Ref != nil {
					rec(e.Ref, p, depth+1)
				}
			}
			return
		}
		for _, k := range n.SortedKeys() {
			if !AddressableKey(k) {
				continue
			}
			e := n.M[k]
			p := prefix + "." + k
			paths = append(paths, p)
			vals = append(vals, e)
			if e.Ref != nil {
				rec(e.Ref, p, depth+1)
			}
		}
	}
	rec(root, "", 0)
	return
}

func AddressableKey(k string) bool {
	if k == "" {
		return false
	}
	for i := 0; i < len(k); i++ {
		if k[i] == '.' || k[i] == '#' {
			return false
		}
	}
	return true
}
