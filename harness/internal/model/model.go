// Package model is the executable reference model: a heap of ordered sequences and string-keyed maps
// that hold scalars by value and containers by reference, bound one-to-one to the real containers.
package model

import (
	"fmt"
	"math"
	"sort"
	"strconv"
	"strings"

	at "github.com/DanielSvub/anytype"

	"verifharness/internal/drive"
	"verifharness/internal/spec"
)

// Val is a slot value: a scalar by value or a reference to a node.
type Val struct {
	K   spec.Kind
	B   bool
	I   int
	F   float64
	S   string
	Ref *Node
}

func Nil() Val            { return Val{K: spec.Nil} }
func Bool(b bool) Val     { return Val{K: spec.Bool, B: b} }
func Int(i int) Val       { return Val{K: spec.Int, I: i} }
func Float(f float64) Val { return Val{K: spec.Float, F: f} }
func Str(s string) Val    { return Val{K: spec.Str, S: s} }
func Ref(n *Node) Val     { return Val{K: n.K, Ref: n} }

// Same: scalars equal by kind and value, containers by identity.
func (v Val) Same(o Val) bool {
	if v.K != o.K {
		return false
	}
	switch v.K {
	case spec.Nil:
		return true
	case spec.Bool:
		return v.B == o.B
	case spec.Int:
		return v.I == o.I
	case spec.Float:
		return v.F == o.F
	case spec.Str:
		return v.S == o.S
	}
	return v.Ref == o.Ref
}

func (v Val) String() string {
	switch v.K {
	case spec.Nil:
		return "nil"
	case spec.Bool:
		return strconv.FormatBool(v.B)
	case spec.Int:
		return "i" + strconv.Itoa(v.I)
	case spec.Float:
		return "f" + strconv.FormatFloat(v.F, 'g', -1, 64)
	case spec.Str:
		return strconv.QuoteToASCII(spec.Trunc(v.S, 40))
	}
	if v.Ref == nil {
		return "<nil ref>"
	}
	return v.Ref.Name()
}

// Node is a model container.
type Node struct {
	ID   int
	K    spec.Kind // List or Obj
	E    []Val
	M    map[string]Val
	Real any // bound real container (at.List or at.Object)
}

func (n *Node) Name() string {
	if n.K == spec.List {
		return "L" + strconv.Itoa(n.ID)
	}
	return "O" + strconv.Itoa(n.ID)
}

func (n *Node) Len() int {
	if n.K == spec.List {
		return len(n.E)
	}
	return len(n.M)
}

func (n *Node) SortedKeys() []string {
	ks := make([]string, 0, len(n.M))
	for k := range n.M {
		ks = append(ks, k)
	}
	sort.Strings(ks)
	return ks
}

func (n *Node) List() at.List     { return n.Real.(at.List) }
func (n *Node) Object() at.Object { return n.Real.(at.Object) }

// Show prints one level of the node.
func (n *Node) Show() string {
	var b strings.Builder
	b.WriteString(n.Name())
	if n.K == spec.List {
		b.WriteString("[")
		for i, e := range n.E {
			if i > 0 {
				b.WriteString(",")
			}
			b.WriteString(e.String())
		}
		b.WriteString("]")
	} else {
		b.WriteString("{")
		for i, k := range n.SortedKeys() {
			if i > 0 {
				b.WriteString(",")
			}
			b.WriteString(strconv.QuoteToASCII(k) + ":" + n.M[k].String())
		}
		b.WriteString("}")
	}
	return b.String()
}

// Heap is the set of live model nodes.
type Heap struct {
	Nodes []*Node
	// Route selects how CheckNode reads a container: 0 Count/TypeOf/Get (KeyExists for objects), 1 Slice()/Dict(),
	// 2 ForEach. The monitors vary it so that their own reads do not always take the same path through the library.
	Route int
	// TypedArgs: for an unbound node that stands for a native argument of a TYPED flavour ([]string, map[string]List, ...),
	// the Go value to hand to the library (an untyped native tree is derived from the node itself).
	TypedArgs map[*Node]any
}

func (h *Heap) newNode(k spec.Kind) *Node {
	n := &Node{ID: len(h.Nodes), K: k}
	if k == spec.Obj {
		n.M = map[string]Val{}
	}
	h.Nodes = append(h.Nodes, n)
	return n
}

// NewList registers a fresh model list bound to real (may be nil and bound later).
func (h *Heap) NewList(real at.List) *Node {
	n := h.newNode(spec.List)
	if real != nil {
		n.Real = real
	}
	return n
}

func (h *Heap) NewObj(real at.Object) *Node {
	n := h.newNode(spec.Obj)
	if real != nil {
		n.Real = real
	}
	return n
}

// FromSpec builds the real container (plain constructors, children first) together with its model nodes.
func (h *Heap) FromSpec(s *spec.Spec) *Node {
	switch s.K {
	case spec.List:
		n := h.newNode(spec.List)
		args := make([]any, len(s.L))
		for i, e := range s.L {
			v := h.ValFromSpec(e)
			n.E = append(n.E, v)
			args[i] = h.Arg(v)
		}
		n.Real = at.NewList(args...)
		return n
	case spec.Obj:
		n := h.newNode(spec.Obj)
		args := make([]any, 0, 2*len(s.Keys))
		for i, k := range s.Keys {
			v := h.ValFromSpec(s.Vals[i])
			n.M[k] = v
			args = append(args, k, h.Arg(v))
		}
		n.Real = at.NewObject(args...)
		return n
	}
	panic("FromSpec: not a container")
}

// ModelFromSpec builds only model nodes (unbound) for a spec: the expectation for a container the library
// is going to create itself (native conversion, clone...). Bind attaches the real one later.
func (h *Heap) ModelFromSpec(s *spec.Spec) Val {
	switch s.K {
	case spec.List:
		n := h.newNode(spec.List)
		for _, e := range s.L {
			n.E = append(n.E, h.ModelFromSpec(e))
		}
		return Ref(n)
	case spec.Obj:
		n := h.newNode(spec.Obj)
		for i, k := range s.Keys {
			n.M[k] = h.ModelFromSpec(s.Vals[i])
		}
		return Ref(n)
	}
	return ScalarFromSpec(s)
}

func ScalarFromSpec(s *spec.Spec) Val {
	switch s.K {
	case spec.Bool:
		return Bool(s.B)
	case spec.Int:
		return Int(s.I)
	case spec.Float:
		return Float(s.F)
	case spec.Str:
		return Str(s.S)
	}
	return Nil()
}

func (h *Heap) ValFromSpec(s *spec.Spec) Val {
	if s.IsContainer() {
		return Ref(h.FromSpec(s))
	}
	return ScalarFromSpec(s)
}

// Arg is the Go value handed to the library for a model value.
func (h *Heap) Arg(v Val) any {
	switch v.K {
	case spec.Nil:
		return nil
	case spec.Bool:
		return v.B
	case spec.Int:
		return v.I
	case spec.Float:
		return v.F
	case spec.Str:
		return v.S
	}
	return v.Ref.Real
}

// ToSpec renders the (acyclic) content reachable from a value as a spec tree.
func (v Val) ToSpec() *spec.Spec {
	switch v.K {
	case spec.Nil:
		return spec.NilV()
	case spec.Bool:
		return spec.BoolV(v.B)
	case spec.Int:
		return spec.IntV(v.I)
	case spec.Float:
		return spec.FloatV(v.F)
	case spec.Str:
		return spec.StrV(v.S)
	}
	return v.Ref.ToSpec()
}

func (n *Node) ToSpec() *spec.Spec {
	s := &spec.Spec{K: n.K}
	if n.K == spec.List {
		for _, e := range n.E {
			s.L = append(s.L, e.ToSpec())
		}
	} else {
		for _, k := range n.SortedKeys() {
			s.Keys = append(s.Keys, k)
			s.Vals = append(s.Vals, n.M[k].ToSpec())
		}
	}
	return s
}

// Reaches reports whether `to` is reachable from `from` (from == to counts).
func Reaches(from, to *Node) bool {
	if from == to {
		return true
	}
	for _, e := range from.E {
		if e.Ref != nil && Reaches(e.Ref, to) {
			return true
		}
	}
	for _, e := range from.M {
		if e.Ref != nil && Reaches(e.Ref, to) {
			return true
		}
	}
	return false
}

// MatchVal compares a value returned by the library with a model value ("" = match).
func (h *Heap) MatchVal(got any, want Val) string {
	switch want.K {
	case spec.Nil:
		if got != nil {
			return fmt.Sprintf("got %T(%v), expected nil", got, got)
		}
	case spec.Bool:
		if b, ok := got.(bool); !ok || b != want.B {
			return fmt.Sprintf("got %T(%v), expected bool %v", got, got, want.B)
		}
	case spec.Int:
		if i, ok := got.(int); !ok || i != want.I {
			return fmt.Sprintf("got %T(%v), expected int %d", got, got, want.I)
		}
	case spec.Float:
		// by bit pattern: what was stored comes back as it was (a negative zero is not a positive one; no arithmetic happens
		// between storing and reading)
		if f, ok := got.(float64); !ok || (math.Float64bits(f) != math.Float64bits(want.F) && !(math.IsNaN(f) && math.IsNaN(want.F))) {
			return fmt.Sprintf("got %T(%v, sign bit %v), expected float %v (sign bit %v)", got, got, ok && math.Signbit(f), want.F, math.Signbit(want.F))
		}
	case spec.Str:
		if s, ok := got.(string); !ok || s != want.S {
			return fmt.Sprintf("got %T(%.60q), expected string %.60q", got, got, want.S)
		}
	case spec.List:
		l, ok := got.(at.List)
		if !ok {
			return fmt.Sprintf("got %T, expected the list %s", got, want.Ref.Name())
		}
		if want.Ref.Real == nil {
			return "" // unbound: caller binds
		}
		if any(l) != want.Ref.Real {
			return fmt.Sprintf("got a different list than the identical stored list %s", want.Ref.Name())
		}
	case spec.Obj:
		o, ok := got.(at.Object)
		if !ok {
			return fmt.Sprintf("got %T, expected the object %s", got, want.Ref.Name())
		}
		if want.Ref.Real == nil {
			return ""
		}
		if any(o) != want.Ref.Real {
			return fmt.Sprintf("got a different object than the identical stored object %s", want.Ref.Name())
		}
	}
	return ""
}

// CheckNode compares one level of a bound node with its real container through the public API.
func (h *Heap) CheckNode(n *Node) (res string) {
	defer func() {
		if r := recover(); r != nil {
			res = fmt.Sprintf("%s: panic while observing: %v", n.Name(), r)
		}
	}()
	if n.Real == nil {
		return ""
	}
	if n.K == spec.List && h.Route != 0 {
		l := n.List()
		var got []any
		if h.Route == 1 {
			got = l.Slice()
		} else {
			l.ForEach(func(i int, v any) {
				if i == len(got) {
					got = append(got, v)
				} else {
					got = append(got, fmt.Sprintf("<ForEach index %d out of order>", i))
				}
			})
		}
		if len(got) != len(n.E) {
			return fmt.Sprintf("%s: %d elements seen (route %d), model has %d elements %s", n.Name(), len(got), h.Route, len(n.E), n.Show())
		}
		for i, e := range n.E {
			if d := h.bindOrMatch(got[i], e); d != "" {
				return fmt.Sprintf("%s: element %d (route %d): %s (model %s)", n.Name(), i, h.Route, d, n.Show())
			}
		}
		return ""
	}
	if n.K == spec.Obj && h.Route != 0 {
		o := n.Object()
		got := map[string]any{}
		if h.Route == 1 {
			got = o.Dict()
		} else {
			dup := ""
			o.ForEach(func(k string, v any) {
				if _, d := got[k]; d {
					dup = k
				}
				got[k] = v
			})
			if dup != "" {
				return fmt.Sprintf("%s: ForEach visits key %q twice", n.Name(), dup)
			}
		}
		if len(got) != len(n.M) {
			return fmt.Sprintf("%s: %d fields seen (route %d), model has %d fields %s", n.Name(), len(got), h.Route, len(n.M), n.Show())
		}
		for k, e := range n.M {
			g, ok := got[k]
			if !ok {
				return fmt.Sprintf("%s: key %q not seen (route %d), model has it (%s)", n.Name(), k, h.Route, n.Show())
			}
			if d := h.bindOrMatch(g, e); d != "" {
				return fmt.Sprintf("%s: field %q (route %d): %s (model %s)", n.Name(), k, h.Route, d, n.Show())
			}
		}
		return ""
	}
	if n.K == spec.List {
		l := n.List()
		if c := l.Count(); c != len(n.E) {
			return fmt.Sprintf("%s: Count()=%d, model has %d elements %s", n.Name(), c, len(n.E), n.Show())
		}
		if l.Empty() != (len(n.E) == 0) {
			return fmt.Sprintf("%s: Empty()=%v with %d elements", n.Name(), l.Empty(), len(n.E))
		}
		for i, e := range n.E {
			if t := l.TypeOf(i); t != drive.TypeOfKind(e.K) {
				return fmt.Sprintf("%s: TypeOf(%d)=%d, model has %s (%s)", n.Name(), i, t, e.K, n.Show())
			}
			if d := h.bindOrMatch(l.Get(i), e); d != "" {
				return fmt.Sprintf("%s: Get(%d): %s (model %s)", n.Name(), i, d, n.Show())
			}
		}
		return ""
	}
	o := n.Object()
	if c := o.Count(); c != len(n.M) {
		return fmt.Sprintf("%s: Count()=%d, model has %d fields %s", n.Name(), c, len(n.M), n.Show())
	}
	if o.Empty() != (len(n.M) == 0) {
		return fmt.Sprintf("%s: Empty()=%v with %d fields", n.Name(), o.Empty(), len(n.M))
	}
	for k, e := range n.M {
		if !o.KeyExists(k) {
			return fmt.Sprintf("%s: KeyExists(%q)=false, model has the key (%s)", n.Name(), k, n.Show())
		}
		if t := o.TypeOf(k); t != drive.TypeOfKind(e.K) {
			return fmt.Sprintf("%s: TypeOf(%q)=%d, model has %s (%s)", n.Name(), k, t, e.K, n.Show())
		}
		if d := h.bindOrMatch(o.Get(k), e); d != "" {
			return fmt.Sprintf("%s: Get(%q): %s (model %s)", n.Name(), k, d, n.Show())
		}
	}
	return ""
}

// bindOrMatch matches a returned value; an unbound expected container is bound to what was returned
// (its content is then checked when CheckAll reaches that node).
func (h *Heap) bindOrMatch(got any, want Val) string {
	if d := h.MatchVal(got, want); d != "" {
		return d
	}
	if want.Ref != nil && want.Ref.Real == nil {
		// a freshly created container must not be one that is already bound to another node
		for _, o := range h.Nodes {
			if o.Real != nil && o.Real == got {
				return fmt.Sprintf("expected a fresh container for %s but got the existing %s", want.Ref.Name(), o.Name())
			}
		}
		want.Ref.Real = got
	}
	return ""
}

// Bind attaches a real container to an unbound model node (content is verified by CheckAll afterwards).
func (h *Heap) Bind(n *Node, real any) string {
	for _, o := range h.Nodes {
		if o != n && o.Real != nil && o.Real == real {
			return fmt.Sprintf("expected a new container for %s but got the existing %s", n.Name(), o.Name())
		}
	}
	n.Real = real
	return ""
}

// CheckAll compares every bound node with its real container (nodes bound during the pass are included).
func (h *Heap) CheckAll() string {
	for i := 0; i < len(h.Nodes); i++ {
		if d := h.CheckNode(h.Nodes[i]); d != "" {
			return d
		}
	}
	// second pass for nodes that got bound by later nodes
	for i := 0; i < len(h.Nodes); i++ {
		if d := h.CheckNode(h.Nodes[i]); d != "" {
			return d
		}
	}
	return ""
}

// HasUnbound reports whether some model node still waits to be bound to the real container the library created for it
// (binding happens during CheckAll, so a comparison must not be skipped while this is true).
func (h *Heap) HasUnbound() bool {
	for _, n := range h.Nodes {
		if n.Real == nil {
			return true
		}
	}
	return false
}

// Dump prints the model heap (for violation reports).
func (h *Heap) Dump() string {
	var b strings.Builder
	for _, n := range h.Nodes {
		b.WriteString(n.Show())
		b.WriteString("; ")
	}
	return spec.Trunc(b.String(), 3000)
}

// DumpReal prints what the real containers show (one level each).
func (h *Heap) DumpReal() string {
	var b strings.Builder
	for _, n := range h.Nodes {
		if n.Real == nil {
			continue
		}
		func() {
			defer func() {
				if r := recover(); r != nil {
					fmt.Fprintf(&b, "%s=<panic %v>; ", n.Name(), r)
				}
			}()
			if n.K == spec.List {
				fmt.Fprintf(&b, "%s=%s; ", n.Name(), spec.Trunc(n.List().String(), 300))
			} else {
				w, err := drive.Walk(n.Object())
				if err != nil {
					fmt.Fprintf(&b, "%s=<%v>; ", n.Name(), err)
				} else {
					fmt.Fprintf(&b, "%s=%s; ", n.Name(), spec.Trunc(w.Canon(), 300))
				}
			}
		}()
	}
	return spec.Trunc(b.String(), 3000)
}
