// Package refjson is the harness's own reference for JSON text: a grammar-exact RFC 8259 parser and
// canonical re-indenter written for this harness, plus an adapter over encoding/json (UseNumber) as the
// independent standards-conforming decoder. Both produce spec trees.
package refjson

import (
	"bytes"
	"encoding/json"
	"fmt"
	"io"
	"math"
	"math/big"
	"strconv"
	"strings"
	"unicode/utf16"
	"unicode/utf8"

	"verifharness/internal/spec"
)

// Token kinds: '[' ']' '{' '}' ',' ':' 's' string (raw literal incl. quotes) 'n' number 'l' true/false/null
type Token struct {
	Kind byte
	Text string
	Pos  int
}

type parser struct {
	s        string
	i        int
	intBits  int
	toks     []Token
	keepTok  bool
	Lone     int // number of lone surrogate escapes seen
	depth    int
	MaxDepth int
}

func (p *parser) errf(format string, a ...any) error {
	return fmt.Errorf("strict JSON: offset %d: %s", p.i, fmt.Sprintf(format, a...))
}

func (p *parser) ws() {
	for p.i < len(p.s) {
		switch p.s[p.i] {
		case ' ', '\t', '\n', '\r':
			p.i++
		default:
			return
		}
	}
}

func (p *parser) tok(k byte, start int) {
	if p.keepTok {
		p.toks = append(p.toks, Token{Kind: k, Text: p.s[start:p.i], Pos: start})
	}
}

func (p *parser) value() (*spec.Spec, error) {
	p.ws()
	if p.i >= len(p.s) {
		return nil, p.errf("unexpected end of input, value expected")
	}
	switch c := p.s[p.i]; {
	case c == '[':
		return p.array()
	case c == '{':
		return p.object()
	case c == '"':
		start := p.i
		str, err := p.str()
		if err != nil {
			return nil, err
		}
		p.tok('s', start)
		return spec.StrV(str), nil
	case c == '-' || (c >= '0' && c <= '9'):
		return p.number()
	default:
		for _, lit := range []string{"true", "false", "null"} {
			if strings.HasPrefix(p.s[p.i:], lit) {
				start := p.i
				p.i += len(lit)
				p.tok('l', start)
				switch lit {
				case "true":
					return spec.BoolV(true), nil
				case "false":
					return spec.BoolV(false), nil
				}
				return spec.NilV(), nil
			}
		}
		return nil, p.errf("unexpected character %q", c)
	}
}

func (p *parser) array() (*spec.Spec, error) {
	p.depth++
	if p.depth > p.MaxDepth {
		p.MaxDepth = p.depth
	}
	defer func() { p.depth-- }()
	start := p.i
	p.i++
	p.tok('[', start)
	out := &spec.Spec{K: spec.List}
	p.ws()
	if p.i < len(p.s) && p.s[p.i] == ']' {
		p.i++
		p.tok(']', p.i-1)
		return out, nil
	}
	for {
		v, err := p.value()
		if err != nil {
			return nil, err
		}
		out.L = append(out.L, v)
		p.ws()
		if p.i >= len(p.s) {
			return nil, p.errf("unexpected end of input inside array")
		}
		switch p.s[p.i] {
		case ',':
			p.i++
			p.tok(',', p.i-1)
		case ']':
			p.i++
			p.tok(']', p.i-1)
			return out, nil
		default:
			return nil, p.errf("expected ',' or ']', got %q", p.s[p.i])
		}
	}
}

func (p *parser) object() (*spec.Spec, error) {
	p.depth++
	if p.depth > p.MaxDepth {
		p.MaxDepth = p.depth
	}
	defer func() { p.depth-- }()
	start := p.i
	p.i++
	p.tok('{', start)
	out := &spec.Spec{K: spec.Obj}
	idx := map[string]int{}
	p.ws()
	if p.i < len(p.s) && p.s[p.i] == '}' {
		p.i++
		p.tok('}', p.i-1)
		return out, nil
	}
	for {
		p.ws()
		if p.i >= len(p.s) || p.s[p.i] != '"' {
			return nil, p.errf("expected string key")
		}
		ks := p.i
		key, err := p.str()
		if err != nil {
			return nil, err
		}
		p.tok('s', ks)
		p.ws()
		if p.i >= len(p.s) || p.s[p.i] != ':' {
			return nil, p.errf("expected ':'")
		}
		p.i++
		p.tok(':', p.i-1)
		v, err := p.value()
		if err != nil {
			return nil, err
		}
		if j, dup := idx[key]; dup {
			out.Vals[j] = v // last duplicate wins
		} else {
			idx[key] = len(out.Keys)
			out.Keys = append(out.Keys, key)
			out.Vals = append(out.Vals, v)
		}
		p.ws()
		if p.i >= len(p.s) {
			return nil, p.errf("unexpected end of input inside object")
		}
		switch p.s[p.i] {
		case ',':
			p.i++
			p.tok(',', p.i-1)
		case '}':
			p.i++
			p.tok('}', p.i-1)
			return out, nil
		default:
			return nil, p.errf("expected ',' or '}', got %q", p.s[p.i])
		}
	}
}

func hex4(s string) (rune, bool) {
	if len(s) < 4 {
		return 0, false
	}
	var v rune
	for i := 0; i < 4; i++ {
		c := s[i]
		switch {
		case c >= '0' && c <= '9':
			v = v<<4 | rune(c-'0')
		case c >= 'a' && c <= 'f':
			v = v<<4 | rune(c-'a'+10)
		case c >= 'A' && c <= 'F':
			v = v<<4 | rune(c-'A'+10)
		default:
			return 0, false
		}
	}
	return v, true
}

func (p *parser) str() (string, error) {
	p.i++ // opening quote
	var b strings.Builder
	for {
		if p.i >= len(p.s) {
			return "", p.errf("unterminated string")
		}
		c := p.s[p.i]
		switch {
		case c == '"':
			p.i++
			return b.String(), nil
		case c < 0x20:
			return "", p.errf("raw control character 0x%02x in string", c)
		case c == '\\':
			if p.i+1 >= len(p.s) {
				return "", p.errf("unterminated escape")
			}
			e := p.s[p.i+1]
			p.i += 2
			switch e {
			case '"', '\\', '/':
				b.WriteByte(e)
			case 'b':
				b.WriteByte('\b')
			case 'f':
				b.WriteByte('\f')
			case 'n':
				b.WriteByte('\n')
			case 'r':
				b.WriteByte('\r')
			case 't':
				b.WriteByte('\t')
			case 'u':
				r, ok := hex4(p.s[p.i:])
				if !ok {
					return "", p.errf("bad \\u escape")
				}
				p.i += 4
				if utf16.IsSurrogate(r) {
					if r < 0xdc00 && strings.HasPrefix(p.s[p.i:], "\\u") {
						if lo, ok := hex4(p.s[p.i+2:]); ok && lo >= 0xdc00 && lo <= 0xdfff {
							p.i += 6
							b.WriteRune(utf16.DecodeRune(r, lo))
							continue
						}
					}
					p.Lone++
					b.WriteRune(utf8.RuneError)
					continue
				}
				b.WriteRune(r)
			default:
				return "", p.errf("invalid escape \\%c", e)
			}
		case c < 0x80:
			b.WriteByte(c)
			p.i++
		default:
			r, size := utf8.DecodeRuneInString(p.s[p.i:])
			if r == utf8.RuneError && size <= 1 {
				return "", p.errf("ill-formed UTF-8 in string")
			}
			b.WriteString(p.s[p.i : p.i+size])
			p.i += size
		}
	}
}

func (p *parser) number() (*spec.Spec, error) {
	start := p.i
	if p.s[p.i] == '-' {
		p.i++
	}
	if p.i >= len(p.s) {
		return nil, p.errf("digit expected")
	}
	if p.s[p.i] == '0' {
		p.i++
	} else if p.s[p.i] >= '1' && p.s[p.i] <= '9' {
		for p.i < len(p.s) && p.s[p.i] >= '0' && p.s[p.i] <= '9' {
			p.i++
		}
	} else {
		return nil, p.errf("digit expected")
	}
	if p.i < len(p.s) && p.s[p.i] == '.' {
		p.i++
		n := 0
		for p.i < len(p.s) && p.s[p.i] >= '0' && p.s[p.i] <= '9' {
			p.i++
			n++
		}
		if n == 0 {
			return nil, p.errf("digit expected after '.'")
		}
	}
	if p.i < len(p.s) && (p.s[p.i] == 'e' || p.s[p.i] == 'E') {
		p.i++
		if p.i < len(p.s) && (p.s[p.i] == '+' || p.s[p.i] == '-') {
			p.i++
		}
		n := 0
		for p.i < len(p.s) && p.s[p.i] >= '0' && p.s[p.i] <= '9' {
			p.i++
			n++
		}
		if n == 0 {
			return nil, p.errf("digit expected in exponent")
		}
	}
	p.tok('n', start)
	v, err := ClassifyNumber(p.s[start:p.i], p.intBits)
	if v != nil {
		v.Lit = p.s[start:p.i]
	}
	return v, err
}

// ClassifyNumber applies the number rule of the properties: a literal without fraction or exponent that fits
// the platform int (intBits wide) is an int; every other literal is the correctly rounded float64.
func ClassifyNumber(lit string, intBits int) (*spec.Spec, error) {
	if !strings.ContainsAny(lit, ".eE") {
		z, ok := new(big.Int).SetString(lit, 10)
		if !ok {
			return nil, fmt.Errorf("bad integer literal %q", lit)
		}
		lim := new(big.Int).Lsh(big.NewInt(1), uint(intBits-1))
		neg := new(big.Int).Neg(lim)
		if z.Cmp(neg) >= 0 && z.Cmp(lim) < 0 {
			return spec.IntV(int(z.Int64())), nil
		}
	}
	f, err := strconv.ParseFloat(lit, 64)
	if err != nil || math.IsInf(f, 0) {
		return nil, fmt.Errorf("number %q outside float64 range", spec.Trunc(lit, 40))
	}
	return spec.FloatV(f), nil
}

// RatFloat cross-checks correct rounding with math/big (only for reasonably short literals).
func RatFloat(lit string) (float64, bool) {
	r, ok := new(big.Rat).SetString(lit)
	if !ok {
		return 0, false
	}
	f, _ := r.Float64()
	return f, true
}

// Parse validates text as exactly one RFC 8259 JSON value (any root) and returns its tree.
func Parse(text string, intBits int) (*spec.Spec, error) {
	v, _, _, err := parse(text, intBits, false)
	return v, err
}

// ParseInfo also returns the number of lone-surrogate escapes and the maximal nesting depth.
func ParseInfo(text string, intBits int) (v *spec.Spec, lone int, depth int, err error) {
	v, p, _, err := parse(text, intBits, false)
	if p != nil {
		lone, depth = p.Lone, p.MaxDepth
	}
	return
}

func parse(text string, intBits int, keep bool) (*spec.Spec, *parser, []Token, error) {
	if !utf8.ValidString(text) {
		return nil, nil, nil, fmt.Errorf("strict JSON: text is not valid UTF-8")
	}
	p := &parser{s: text, intBits: intBits, keepTok: keep}
	v, err := p.value()
	if err != nil {
		return nil, p, nil, err
	}
	p.ws()
	if p.i != len(p.s) {
		return nil, p, nil, p.errf("trailing content after the top-level value")
	}
	return v, p, p.toks, nil
}

// Tokenize validates and returns the token stream.
func Tokenize(text string) ([]Token, error) {
	_, _, toks, err := parse(text, 64, true)
	return toks, err
}

// Reindent lays a valid JSON text out canonically: one element per line, n spaces per level, ": " after keys,
// empty containers on one line. Token texts (strings, numbers) are kept verbatim.
func Reindent(text string, n int) (string, error) {
	toks, err := Tokenize(text)
	if err != nil {
		return "", err
	}
	var b strings.Builder
	level := 0
	nl := func() {
		b.WriteByte('\n')
		for i := 0; i < level*n; i++ {
			b.WriteByte(' ')
		}
	}
	for i, t := range toks {
		switch t.Kind {
		case '[', '{':
			b.WriteString(t.Text)
			closing := byte(']')
			if t.Kind == '{' {
				closing = '}'
			}
			if i+1 < len(toks) && toks[i+1].Kind == closing {
				continue // empty container stays on one line
			}
			level++
			nl()
		case ']', '}':
			if i > 0 && (toks[i-1].Kind == '[' || toks[i-1].Kind == '{') {
				b.WriteString(t.Text)
				continue
			}
			level--
			nl()
			b.WriteString(t.Text)
		case ',':
			b.WriteByte(',')
			nl()
		case ':':
			b.WriteString(": ")
		default:
			b.WriteString(t.Text)
		}
	}
	return b.String(), nil
}

// DecodeStd decodes with encoding/json (UseNumber) into a spec tree, requiring exactly one top-level value.
func DecodeStd(text string, intBits int) (*spec.Spec, error) {
	dec := json.NewDecoder(bytes.NewReader([]byte(text)))
	dec.UseNumber()
	v, err := decodeValue(dec, intBits)
	if err != nil {
		return nil, err
	}
	if _, err := dec.Token(); err != io.EOF {
		return nil, fmt.Errorf("encoding/json: trailing content after the top-level value")
	}
	return v, nil
}

func decodeValue(dec *json.Decoder, intBits int) (*spec.Spec, error) {
	t, err := dec.Token()
	if err != nil {
		return nil, err
	}
	return decodeFrom(dec, t, intBits)
}

func decodeFrom(dec *json.Decoder, t json.Token, intBits int) (*spec.Spec, error) {
	switch x := t.(type) {
	case json.Delim:
		switch x {
		case '[':
			out := &spec.Spec{K: spec.List}
			for dec.More() {
				v, err := decodeValue(dec, intBits)
				if err != nil {
					return nil, err
				}
				out.L = append(out.L, v)
			}
			if _, err := dec.Token(); err != nil {
				return nil, err
			}
			return out, nil
		case '{':
			out := &spec.Spec{K: spec.Obj}
			for dec.More() {
				kt, err := dec.Token()
				if err != nil {
					return nil, err
				}
				key, ok := kt.(string)
				if !ok {
					return nil, fmt.Errorf("encoding/json: non-string key")
				}
				v, err := decodeValue(dec, intBits)
				if err != nil {
					return nil, err
				}
				out.Set(key, v)
			}
			if _, err := dec.Token(); err != nil {
				return nil, err
			}
			return out, nil
		}
		return nil, fmt.Errorf("encoding/json: unexpected delimiter %v", x)
	case string:
		return spec.StrV(x), nil
	case bool:
		return spec.BoolV(x), nil
	case nil:
		return spec.NilV(), nil
	case json.Number:
		v, err := ClassifyNumber(string(x), intBits)
		if v != nil {
			v.Lit = string(x)
		}
		return v, err
	}
	return nil, fmt.Errorf("encoding/json: unexpected token %T", t)
}

// ---------------------------------------------------------------------------------------------
// Rendering valid JSON from a spec (the harness's own derivation generator lives in package mon; this
// is the plain compact renderer used by self-checks).

func Quote(s string) string {
	var b strings.Builder
	b.WriteByte('"')
	for _, r := range s {
		switch {
		case r == '"' || r == '\\':
			b.WriteByte('\\')
			b.WriteRune(r)
		case r < 0x20:
			fmt.Fprintf(&b, "\\u%04x", r)
		default:
			b.WriteRune(r)
		}
	}
	b.WriteByte('"')
	return b.String()
}

func FloatLit(f float64) string {
	s := strconv.FormatFloat(f, 'g', -1, 64)
	if !strings.ContainsAny(s, ".eE") {
		s += ".0"
	}
	return s
}

func Render(s *spec.Spec) string {
	var b strings.Builder
	render(&b, s)
	return b.String()
}

func render(b *strings.Builder, s *spec.Spec) {
	switch s.K {
	case spec.Nil:
		b.WriteString("null")
	case spec.Bool:
		b.WriteString(strconv.FormatBool(s.B))
	case spec.Int:
		b.WriteString(strconv.Itoa(s.I))
	case spec.Float:
		b.WriteString(FloatLit(s.F))
	case spec.Str:
		b.WriteString(Quote(s.S))
	case spec.List:
		b.WriteByte('[')
		for i, e := range s.L {
			if i > 0 {
				b.WriteByte(',')
			}
			render(b, e)
		}
		b.WriteByte(']')
	case spec.Obj:
		b.WriteByte('{')
		for i, k := range s.Keys {
			if i > 0 {
				b.WriteByte(',')
			}
			b.WriteString(Quote(k))
			b.WriteByte(':')
			render(b, s.Vals[i])
		}
		b.WriteByte('}')
	}
}
