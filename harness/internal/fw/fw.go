// Package fw is the small framework every monitor runs in: case bookkeeping, violation records,
// evidence counters, the crash marker and the worker's result file.
package fw

import (
	"encoding/binary"
	"encoding/json"
	"fmt"
	"os"
	"sort"
	"sync"
	"sync/atomic"

	"verifharness/internal/rng"
	"verifharness/internal/spec"
)

// Violation is one refuting observation.
type Violation struct {
	Property string `json:"property"`
	Sig      string `json:"signature"` // stable key of the failing shape (used for known findings and dedup)
	Sub      string `json:"workload"`  // which sub-workload produced it
	Case     int    `json:"case"`
	Seed     uint64 `json:"seed"`
	Tier     string `json:"tier"`
	Input    string `json:"input"`    // the explicit case: document text / program / paths / history
	Expected string `json:"expected"` // what the oracle predicted
	Observed string `json:"observed"` // what the real code did
	Extra    any    `json:"extra,omitempty"`
}

// Result is what one worker process writes for the supervisor.
type Result struct {
	Property     string              `json:"property"`
	Shard        int                 `json:"shard"`
	Evaluations  int64               `json:"evaluations"`
	Counters     map[string]int64    `json:"counters"`
	Sets         map[string][]string `json:"sets"` // small sets of observed things (ops seen, orders seen...)
	Violations   []Violation         `json:"violations"`
	ViolTotal    int64               `json:"violations_total"`
	Samples      []any               `json:"samples"`
	Inconclusive []string            `json:"inconclusive"`
	HashFile     string              `json:"hash_file"`
	Done         bool                `json:"done"`
}

// Ctx is handed to a monitor.
type Ctx struct {
	Prop    string
	Tier    string // quick | thorough
	Seed    uint64
	Shard   int
	NShards int
	Only    int // >=0: run only this case index of sub-workload OnlySub
	OnlySub string
	Arch386 bool // this worker is the GOARCH=386 pass
	Race    bool // built with -race
	WorkDir string

	mu        sync.Mutex
	res       Result
	hashes    map[uint64]struct{}
	judged    int64 // Distinct calls of the current case
	sets      map[string]map[string]struct{}
	marker    *os.File
	sigCount  map[string]int
	curSub    string
	curCase   int
	maxSample int
	stop      int32
}

// Stop makes Cases skip all remaining cases (used after a verdict that leaves the process unusable, e.g. a deadlock).
func (c *Ctx) Stop() { atomic.StoreInt32(&c.stop, 1) }

func (c *Ctx) Stopped() bool { return atomic.LoadInt32(&c.stop) == 1 }

func NewCtx(prop, tier string, seed uint64, shard, nshards int, workdir string) *Ctx {
	c := &Ctx{Prop: prop, Tier: tier, Seed: seed, Shard: shard, NShards: nshards, Only: -1, WorkDir: workdir,
		hashes: map[uint64]struct{}{}, sets: map[string]map[string]struct{}{}, sigCount: map[string]int{}, maxSample: 4}
	c.res.Property = prop
	c.res.Shard = shard
	c.res.Counters = map[string]int64{}
	return c
}

func (c *Ctx) Quick() bool { return c.Tier != "thorough" }

// N picks the case count for the tier.
func (c *Ctx) N(quick, thorough int) int {
	n := thorough
	if c.Quick() {
		n = quick
	}
	if c.Arch386 {
		// the 32-bit pass runs on fewer shards: a third of the quick count, a tenth of the thorough count
		if c.Quick() {
			n = (n + 2) / 3
		} else {
			n = (n + 9) / 10
		}
	}
	return n
}

// OpenMarker opens the crash-marker file for this worker.
func (c *Ctx) OpenMarker(path string) error {
	f, err := os.OpenFile(path, os.O_CREATE|os.O_RDWR|os.O_TRUNC, 0o644)
	if err != nil {
		return err
	}
	c.marker = f
	return nil
}

// Cases iterates the case indices of a sub-workload that belong to this shard, calling f with a PRNG
// keyed by (seed, property/sub, index). Pinned (seed independent) sub-workloads pass pinned=true.
func (c *Ctx) Cases(sub string, n int, pinned bool, f func(i int, r *rng.R)) {
	seed := c.Seed
	if pinned {
		seed = 0
	}
	for i := 0; i < n; i++ {
		if c.Stopped() {
			return
		}
		if c.Only >= 0 {
			if c.OnlySub != sub || c.Only != i {
				continue
			}
		} else if i%c.NShards != c.Shard {
			continue
		}
		c.curSub, c.curCase = sub, i
		c.mark(sub, i, nil)
		c.mu.Lock()
		c.judged = 0
		c.mu.Unlock()
		f(i, rng.New(seed, c.Prop+"/"+sub, i))
		// a case that describes several judged items (probe rounds of a history, lists of a program) counts
		// each of them, so that the distinct count can never exceed the evaluations
		c.mu.Lock()
		if c.judged > 1 {
			c.res.Evaluations += c.judged
		} else {
			c.res.Evaluations++
		}
		c.mu.Unlock()
	}
}

// Wants reports whether the sub-workload is selected at all (for -only replays).
func (c *Ctx) Wants(sub string) bool { return c.Only < 0 || c.OnlySub == sub }

// mark records the current case in the marker file (one pwrite; survives a process-fatal error).
func (c *Ctx) mark(sub string, i int, input []byte) {
	if c.marker == nil {
		return
	}
	hdr := fmt.Sprintf("%s\n%d\n", sub, i)
	buf := make([]byte, 8, 8+len(hdr)+len(input))
	buf = append(buf, hdr...)
	buf = append(buf, input...)
	binary.LittleEndian.PutUint64(buf[:8], uint64(len(buf)-8))
	c.marker.WriteAt(buf, 0)
}

// MarkInput attaches the explicit input bytes of the current case to the marker (call before the library call).
func (c *Ctx) MarkInput(input string) {
	if c.marker == nil {
		return
	}
	if len(input) > 1<<20 {
		input = input[:1<<20]
	}
	c.mark(c.curSub, c.curCase, []byte(input))
}

// ReadMarker decodes a marker file (used by the supervisor).
func ReadMarker(path string) (sub string, idx int, input string, ok bool) {
	b, err := os.ReadFile(path)
	if err != nil || len(b) < 8 {
		return "", 0, "", false
	}
	n := int(binary.LittleEndian.Uint64(b[:8]))
	if n <= 0 || 8+n > len(b) {
		return "", 0, "", false
	}
	body := b[8 : 8+n]
	var nl1, nl2 = -1, -1
	for i, ch := range body {
		if ch == '\n' {
			if nl1 < 0 {
				nl1 = i
			} else {
				nl2 = i
				break
			}
		}
	}
	if nl1 < 0 || nl2 < 0 {
		return "", 0, "", false
	}
	sub = string(body[:nl1])
	fmt.Sscanf(string(body[nl1+1:nl2]), "%d", &idx)
	return sub, idx, string(body[nl2+1:]), true
}

func (c *Ctx) Count(name string) { c.Add(name, 1) }

func (c *Ctx) Add(name string, n int64) {
	c.mu.Lock()
	c.res.Counters[name] += n
	c.mu.Unlock()
}

func (c *Ctx) Max(name string, v int64) {
	c.mu.Lock()
	if c.res.Counters[name] < v {
		c.res.Counters[name] = v
	}
	c.mu.Unlock()
}

// SetAdd records a member of a small named set (capped).
func (c *Ctx) SetAdd(set, member string) {
	c.mu.Lock()
	m := c.sets[set]
	if m == nil {
		m = map[string]struct{}{}
		c.sets[set] = m
	}
	if len(m) < 5000 {
		m[member] = struct{}{}
	}
	c.mu.Unlock()
}

// Distinct records a non-trivial case by its canonical descriptor.
func (c *Ctx) Distinct(desc string) {
	h := spec.Hash(desc)
	c.mu.Lock()
	c.hashes[h] = struct{}{}
	c.judged++
	c.mu.Unlock()
}

func (c *Ctx) DistinctHash(h uint64) {
	c.mu.Lock()
	c.judged++
	c.hashes[h] = struct{}{}
	c.mu.Unlock()
}

// Sample keeps a few explicit cases for the evidence file.
func (c *Ctx) Sample(v any) {
	c.mu.Lock()
	if len(c.res.Samples) < c.maxSample {
		c.res.Samples = append(c.res.Samples, v)
	}
	c.mu.Unlock()
}

func (c *Ctx) WantSample() bool {
	c.mu.Lock()
	defer c.mu.Unlock()
	return len(c.res.Samples) < c.maxSample
}

// Violate records a violation of the current case. At most 3 per signature and 60 in total are kept in full.
func (c *Ctx) Violate(sig, input, expected, observed string) {
	c.ViolateX(sig, input, expected, observed, nil)
}

func (c *Ctx) ViolateX(sig, input, expected, observed string, extra any) {
	c.mu.Lock()
	defer c.mu.Unlock()
	c.res.ViolTotal++
	c.res.Counters["violations/"+sig]++
	c.sigCount[sig]++
	if c.sigCount[sig] > 3 || len(c.res.Violations) >= 60 {
		return
	}
	c.res.Violations = append(c.res.Violations, Violation{Property: c.Prop, Sig: sig, Sub: c.curSub, Case: c.curCase, Seed: c.Seed, Tier: c.Tier,
		Input: spec.Trunc(input, 20000), Expected: spec.Trunc(expected, 4000), Observed: spec.Trunc(observed, 4000), Extra: extra})
}

func (c *Ctx) Violations() int64 {
	c.mu.Lock()
	defer c.mu.Unlock()
	return c.res.ViolTotal
}

// Inconclusive records a reason why this run cannot give a verdict (harness fault, missing observation).
func (c *Ctx) Inconclusive(reason string) {
	c.mu.Lock()
	if len(c.res.Inconclusive) < 20 {
		c.res.Inconclusive = append(c.res.Inconclusive, reason)
	}
	c.mu.Unlock()
}

// Finish writes the result file (and the distinct-hash side file).
func (c *Ctx) Finish(outPath string) error {
	c.mu.Lock()
	defer c.mu.Unlock()
	c.res.Done = true
	c.res.Sets = map[string][]string{}
	for name, m := range c.sets {
		l := make([]string, 0, len(m))
		for k := range m {
			l = append(l, k)
		}
		sort.Strings(l)
		c.res.Sets[name] = l
	}
	hp := outPath + ".hashes"
	hb := make([]byte, 0, 8*len(c.hashes))
	for h := range c.hashes {
		hb = binary.LittleEndian.AppendUint64(hb, h)
	}
	if err := os.WriteFile(hp, hb, 0o644); err != nil {
		return err
	}
	c.res.HashFile = hp
	b, err := json.Marshal(&c.res)
	if err != nil {
		return err
	}
	return os.WriteFile(outPath, b, 0o644)
}

// SelfCheck helper: a monitor's self-check reports failures through this.
type SelfCheck struct{ Failures []string }

func (s *SelfCheck) Expect(cond bool, what string) {
	if !cond {
		s.Failures = append(s.Failures, what)
	}
}
