// Package spec holds the library-independent value trees ("spec trees") the harness generates,
// the hostile value pools, and helpers to hash / print / compare them.
package spec

import (
	"fmt"
	"hash/fnv"
	"math"
	"sort"
	"strconv"
	"strings"
	"unicode/utf8"
)

type Kind uint8

const (
	Nil Kind = iota
	Bool
	Int
	Float
	Str
	List
	Obj
)

func (k Kind) String() string {
	return [...]string{"nil", "bool", "int", "float", "string", "list", "object"}[k]
}

// Spec is a plain value tree. Objects keep insertion order; keys are unique.
type Spec struct {
	K    Kind
	B    bool
	I    int
	F    float64
	S    string
	L    []*Spec
	Keys []string
	Vals []*Spec
	Lit  string // number literal text, when the tree was decoded from JSON text
}

func NilV() *Spec            { return &Spec{K: Nil} }
func BoolV(b bool) *Spec     { return &Spec{K: Bool, B: b} }
func IntV(i int) *Spec       { return &Spec{K: Int, I: i} }
func FloatV(f float64) *Spec { return &Spec{K: Float, F: f} }
func StrV(s string) *Spec    { return &Spec{K: Str, S: s} }
func ListV(e ...*Spec) *Spec { return &Spec{K: List, L: e} }
func ObjV(kv ...any) *Spec {
	o := &Spec{K: Obj}
	for i := 0; i+1 < len(kv); i += 2 {
		o.Set(kv[i].(string), kv[i+1].(*Spec))
	}
	return o
}

func (s *Spec) IsContainer() bool { return s.K == List || s.K == Obj }

// Set sets a key of an object spec (last wins, position of first insertion kept).
func (s *Spec) Set(key string, v *Spec) {
	for i, k := range s.Keys {
		if k == key {
			s.Vals[i] = v
			return
		}
	}
	s.Keys = append(s.Keys, key)
	s.Vals = append(s.Vals, v)
}

func (s *Spec) Get(key string) *Spec {
	for i, k := range s.Keys {
		if k == key {
			return s.Vals[i]
		}
	}
	return nil
}

func (s *Spec) Len() int {
	if s.K == List {
		return len(s.L)
	}
	return len(s.Keys)
}

// Clone makes a deep copy.
func (s *Spec) Clone() *Spec {
	c := *s
	if s.K == List {
		c.L = make([]*Spec, len(s.L))
		for i, e := range s.L {
			c.L[i] = e.Clone()
		}
	}
	if s.K == Obj {
		c.Keys = append([]string(nil), s.Keys...)
		c.Vals = make([]*Spec, len(s.Vals))
		for i, e := range s.Vals {
			c.Vals[i] = e.Clone()
		}
	}
	return &c
}

// Equal is typed structural equality (int 1 != float 1.0; key order irrelevant; floats by ==).
func Equal(a, b *Spec) bool {
	if a.K != b.K {
		return false
	}
	switch a.K {
	case Nil:
		return true
	case Bool:
		return a.B == b.B
	case Int:
		return a.I == b.I
	case Float:
		return a.F == b.F
	case Str:
		return a.S == b.S
	case List:
		if len(a.L) != len(b.L) {
			return false
		}
		for i := range a.L {
			if !Equal(a.L[i], b.L[i]) {
				return false
			}
		}
		return true
	case Obj:
		if len(a.Keys) != len(b.Keys) {
			return false
		}
		for i, k := range a.Keys {
			o := b.Get(k)
			if o == nil || !Equal(a.Vals[i], o) {
				return false
			}
		}
		return true
	}
	return false
}

// Depth of nesting (scalar = 0, empty container = 1).
func (s *Spec) Depth() int {
	d := 0
	switch s.K {
	case List:
		for _, e := range s.L {
			if x := e.Depth(); x > d {
				d = x
			}
		}
		return d + 1
	case Obj:
		for _, e := range s.Vals {
			if x := e.Depth(); x > d {
				d = x
			}
		}
		return d + 1
	}
	return 0
}

// Size is the number of nodes.
func (s *Spec) Size() int {
	n := 1
	for _, e := range s.L {
		n += e.Size()
	}
	for _, e := range s.Vals {
		n += e.Size()
	}
	return n
}

// Canon is a canonical, unambiguous, printable rendering (keys sorted, kinds tagged, floats by
// bits where needed). Used for hashing, samples and replay descriptions. Not JSON.
func (s *Spec) Canon() string {
	var b strings.Builder
	s.canon(&b)
	return b.String()
}

func (s *Spec) canon(b *strings.Builder) {
	switch s.K {
	case Nil:
		b.WriteString("nil")
	case Bool:
		b.WriteString(strconv.FormatBool(s.B))
	case Int:
		b.WriteString("i")
		b.WriteString(strconv.Itoa(s.I))
	case Float:
		b.WriteString("f")
		b.WriteString(strconv.FormatFloat(s.F, 'g', -1, 64))
		if s.F == 0 && math.Signbit(s.F) {
			b.WriteString("(neg0)")
		}
	case Str:
		b.WriteString(strconv.QuoteToASCII(s.S))
	case List:
		b.WriteByte('[')
		for i, e := range s.L {
			if i > 0 {
				b.WriteByte(',')
			}
			e.canon(b)
		}
		b.WriteByte(']')
	case Obj:
		idx := make([]int, len(s.Keys))
		for i := range idx {
			idx[i] = i
		}
		sort.Slice(idx, func(x, y int) bool { return s.Keys[idx[x]] < s.Keys[idx[y]] })
		b.WriteByte('{')
		for n, i := range idx {
			if n > 0 {
				b.WriteByte(',')
			}
			b.WriteString(strconv.QuoteToASCII(s.Keys[i]))
			b.WriteByte(':')
			s.Vals[i].canon(b)
		}
		b.WriteByte('}')
	}
}

// Short is Canon truncated for messages.
func (s *Spec) Short() string { return Trunc(s.Canon(), 300) }

func Trunc(s string, n int) string {
	if len(s) <= n {
		return s
	}
	return s[:n] + fmt.Sprintf("...(%d bytes)", len(s))
}

func Hash(s string) uint64 {
	h := fnv.New64a()
	h.Write([]byte(s))
	return h.Sum64()
}

// Walk calls f for every node (pre-order).
func (s *Spec) Walk(f func(*Spec)) {
	f(s)
	for _, e := range s.L {
		e.Walk(f)
	}
	for _, e := range s.Vals {
		e.Walk(f)
	}
}

// Classes reports which "thin slice" value classes occur in the tree (for evidence counters).
func (s *Spec) Classes(add func(string)) {
	s.Walk(func(n *Spec) {
		switch n.K {
		case Float:
			if n.F == 0 {
				if math.Signbit(n.F) {
					add("float_neg_zero")
				} else {
					add("float_pos_zero")
				}
			} else if n.F == math.Trunc(n.F) && math.Abs(n.F) < 1e15 {
				add("float_whole")
			}
			a := math.Abs(n.F)
			if a >= 1e6 || (a > 0 && a <= 1e-6) {
				add("float_exp_format")
			}
			if a > 0 && a < 2.2250738585072014e-308 {
				add("float_subnormal")
			}
		case Int:
			if n.I == math.MaxInt || n.I == math.MinInt {
				add("int_extreme")
			}
		case Str:
			StrClasses(n.S, "str_", add)
		case Obj:
			for _, k := range n.Keys {
				StrClasses(k, "key_", add)
			}
			if len(n.Keys) == 0 {
				add("empty_object")
			}
		case List:
			if len(n.L) == 0 {
				add("empty_list")
			}
		}
	})
}

func StrClasses(s string, pfx string, add func(string)) {
	if s == "" {
		add(pfx + "empty")
		return
	}
	seen := map[string]bool{}
	for _, r := range s {
		c := ""
		switch {
		case r < 0x20:
			c = "c0_control"
		case r == 0x7f:
			c = "del"
		case r == '"' || r == '\\' || r == '/':
			c = "quote_backslash_slash"
		case r >= 0x80 && r < 0xa0:
			c = "c1_control"
		case r == 0x2028 || r == 0x2029:
			c = "u2028_9"
		case r == utf8.RuneError:
			c = "ufffd"
		case r >= 0x10000:
			c = "astral"
		case r >= 0x80:
			c = "non_ascii_bmp"
		}
		if c != "" && !seen[c] {
			seen[c] = true
			add(pfx + c)
		}
	}
}

// Diff explains the first difference between two trees under typed structural equality ("" = equal).
func Diff(got, want *Spec) string { return diffSpec(got, want, "<root>") }

func diffSpec(a, b *Spec, path string) string {
	if a.K != b.K {
		return fmt.Sprintf("at %s: %s %s, expected %s %s", path, a.K, Trunc(a.Canon(), 80), b.K, Trunc(b.Canon(), 80))
	}
	switch a.K {
	case Bool:
		if a.B != b.B {
			return fmt.Sprintf("at %s: %v, expected %v", path, a.B, b.B)
		}
	case Int:
		if a.I != b.I {
			return fmt.Sprintf("at %s: int %d, expected %d", path, a.I, b.I)
		}
	case Float:
		if a.F != b.F {
			return fmt.Sprintf("at %s: float %s, expected %s", path, strconv.FormatFloat(a.F, 'g', -1, 64), strconv.FormatFloat(b.F, 'g', -1, 64))
		}
	case Str:
		if a.S != b.S {
			return fmt.Sprintf("at %s: string %s, expected %s", path, strconv.QuoteToASCII(Trunc(a.S, 100)), strconv.QuoteToASCII(Trunc(b.S, 100)))
		}
	case List:
		if len(a.L) != len(b.L) {
			return fmt.Sprintf("at %s: list length %d, expected %d", path, len(a.L), len(b.L))
		}
		for i := range a.L {
			if d := diffSpec(a.L[i], b.L[i], path+"#"+strconv.Itoa(i)); d != "" {
				return d
			}
		}
	case Obj:
		if len(a.Keys) != len(b.Keys) {
			return fmt.Sprintf("at %s: %d keys, expected %d", path, len(a.Keys), len(b.Keys))
		}
		for i, k := range b.Keys {
			o := a.Get(k)
			if o == nil {
				return fmt.Sprintf("at %s: key %s missing", path, strconv.QuoteToASCII(Trunc(k, 60)))
			}
			if d := diffSpec(o, b.Vals[i], path+"."+strconv.QuoteToASCII(Trunc(k, 40))); d != "" {
				return d
			}
		}
	}
	return ""
}
