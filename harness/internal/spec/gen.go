package spec

import (
	"math"
	"strings"
	"unicode/utf8"

	"verifharness/internal/rng"
)

// ---------------------------------------------------------------------------------------------
// Hostile pools

var intPool64 = []int64{0, 1, -1, 2, 7, 10, 42, -42, 127, 128, 255, 256, 1<<31 - 1, 1 << 31, -(1 << 31), -(1 << 31) - 1,
	1<<53 - 1, 1 << 53, 1<<53 + 1, -(1 << 53), -(1 << 53) - 1, math.MaxInt64, math.MinInt64, math.MaxInt64 - 1, math.MinInt64 + 1,
	999999, 1000000, 1000001, 100000000000000000, math.MaxInt32 - 1, math.MinInt32 + 1}

// IntPool holds the hostile ints that fit the platform int (the 386 pass has a 32-bit int).
var IntPool []int

var FloatPool = []float64{0, math.Copysign(0, -1), 1, -1, -3, 2, 10, 1e5, 999999, 1e6, 1000001, 9007199254740992, 1e15, 1e16, 1e21, 1e22, 1e300, -1e300,
	999999.9999999999, 1e-6, 9.999999999999999e-7, 1.0000000000000002e-6, 1e-7, 5e-324, 2.2250738585072014e-308, 2.225073858507201e-308,
	math.MaxFloat64, -math.MaxFloat64, 0.1, 0.2, 0.30000000000000004, 1.0 / 3.0, 3.14, 1.6e-8, 0.5, -0.5, 1.5, 123456.789,
	1.7976931348623157e308, 4.9406564584124654e-324, 1.2345678901234567, 9007199254740993, 0.000001, 100000.5, 1e-5,
	// whole values around the ends of the 32 / 63 / 64 bit integer ranges with a short decimal notation
	9.3e18, -9.3e18, 9e18, 9.5e18, 1e19, 9.99999e18, 9223372036854775808, -9223372036854775808, 18446744073709551616, 1.8e19, 2e19, 4.611686018427388e18, 4.7e18,
	2147483648, -2147483649, 4294967296, 2.2e9, 4.3e9, 1e18, 1e17, 5e17,
	// one ulp next to short decimals
	63.955057000000004, 0.30000000000000004, 1.0000000000000002, 2.675, 1.005, 8.41, 0.57, 1234.5678000000002}

// StrPool: value strings aimed at the serializer/parser thin slices. Built with numeric code points so
// that no tool rewrites escapes in this source file.
var StrPool []string
var KeyPool []string

func init() {
	for _, v := range intPool64 {
		if int64(int(v)) == v {
			IntPool = append(IntPool, int(v))
		}
	}
	IntPool = append(IntPool, math.MaxInt, math.MinInt)
	cp := func(rs ...rune) string { return string(rs) }
	StrPool = []string{
		"", "a", "test", "hello world", "\"", "\\", "/", "\"\\/", "\\\\", "\\\"", "a\"b", "a\\b", "a/b",
		"]", "[", "{", "}", ",", ":", "{\"a\":1}", "[1,2]", "null", "true", "1", "1.0", "-0",
		"\\u0041", "\\n", "\\", "\\\\\\", "\"\"", "' single '",
		"\n", "\t", "\r", "\b", "\f", "\r\n", "line1\nline2", " leading", "trailing ", "  ",
		cp(0), cp(1), cp(7), cp(0xb), cp(0x1b), cp(0x1f), cp(0x7f), cp('a', 0, 'b'),
		cp(0x80), cp(0x85), cp(0x9f), cp(0xa0), cp(0xad), cp(0x2028), cp(0x2029), cp(0x3000), cp(0xfeff),
		cp(0xfffd), cp('x', 0xfffd, 'y'), cp(0xfffe), cp(0xffff), cp(0x1fffe), cp(0xd7ff), cp(0xe000), cp(0xf8ff),
		cp(0x378), cp(0x301), cp('e', 0x301), cp(0x1f600), cp(0x1f600, 'x'), cp(0xe0001), cp(0x10ffff), cp(0x10000), cp(0x2fffd),
		cp(0x17d, 0x159, '@', '.', '/', '\'', 0xe1, '?', 'A', '\n', '\\', '"'),
		cp(0x4e2d, 0x6587), cp(0x5d0), cp(0x627),
		strings.Repeat("ab", 300), strings.Repeat("\\", 9), strings.Repeat("\"", 5),
		"[NaN]", "x,NaN", "k:NaN", ",-Inf", ":+Inf", "[+Inf,-Inf]", ",null", ":true", "\":\"", "},{", "],[", "\",\"", ": ", ", ", "\n  ", "[\n]", "{ }", "0x1p-2", ".5", "5.", "+1", "1_0", "1e", "-", "+", "e9", "Infinity", "nan",
	}
	for _, hex := range []string{"0000", "0022", "002f", "003c", "003e", "0026", "005c", "007f", "00e9", "2028", "2029", "d83d", "dfff", "fffd", "ffff", "003C", "FFFF", "0008", "0009", "000a", "000c", "000d", "000A", "001f", "0001"} {
		StrPool = append(StrPool, "\\u"+hex, "a\\u"+hex+"b")
	}
	StrPool = append(StrPool, "\\n", "\\t", "\\\"", "\\/", "\\b", "\\x41", "\\U0001F600", "<>&", "</script>", "&amp;")
	KeyPool = append([]string{".", "#", "a.b", "a#1", ".b", "#1", "..", "a.", "a#", "0", "1", "key", "k", "x", "y", "z", "inner", "list", "object", "id", "a", "b", "c",
		// keys that collide under case folding / trimming / formatting verbs
		"ID", "Id", "K", cp(0x212a), "A", "key ", " key", "%", "%s", "%d%%", "100%", "%!s(MISSING)", "%v%v"}, StrPool[:60]...)
	StrPool = append(StrPool, "%", "%s", "%d", "%%", "50%% off", "%!", "%v", "%[1]s", "%5d", "ID", "id")
	// text that writers for the web treat specially, alone and behind characters whose lower / upper case form has
	// another UTF-8 length (offsets computed on a case-mapped copy do not fit the original)
	web := []string{"</script>", "</SCRIPT>", "</Script", "<script>", "<!--", "-->", "]]>", "<![CDATA[", "&amp;", "&", "<", ">", "'", "${x}", "{{x}}", "javascript:", "\\/"}
	StrPool = append(StrPool, web...)
	for _, ch := range []rune{0x212a, 0x130, 0x2126, 0x23a, 0x1e9e, 0x131, 0x17f, 0xdf} {
		StrPool = append(StrPool, cp(ch)+"</script>", cp(ch, ch)+"x</SCRIPT>"+cp(ch), "a"+cp(ch)+"<!--", cp(ch))
	}
}

// SafeKeys are tree-form friendly (non-empty, no sigils).
var SafeKeys = []string{"a", "b", "c", "key", "k", "x", "y", "z", "inner", "list", "object", "0", "1", "7", "name", "v a l", "\"q", "é", "-1", "+1", "0x1", "nil",
	"key ", " key", "K", "ID", "id", "%s", "100%", "a\tb", "a\nb"}

// ---------------------------------------------------------------------------------------------
// Scalar generators

func GenInt(r *rng.R) int {
	switch r.Intn(10) {
	case 0, 1, 2:
		return IntPool[r.Intn(len(IntPool))]
	case 3, 4, 5:
		return r.Range(-20, 20)
	case 6:
		return int(int32(r.U64()))
	default:
		return int(r.U64()>>uint(r.Intn(64))) * (1 - 2*r.Intn(2))
	}
}

// GenFloat never returns NaN or Inf.
func GenFloat(r *rng.R) float64 {
	for {
		var f float64
		switch r.Intn(10) {
		case 0, 1, 2:
			f = FloatPool[r.Intn(len(FloatPool))]
		case 3:
			f = float64(r.Range(-1000, 1000)) // whole-valued
		case 4:
			f = float64(r.Range(-100000, 100000)) / 8 // dyadic
		case 5:
			f = float64(GenInt(r)) // big whole values
		case 6:
			f = (r.Float01() - 0.5) * math.Pow(10, float64(r.Range(-12, 12)))
		case 7:
			// neighbours of the format switch points 1e6 / 1e-6 and of powers of ten
			base := math.Pow(10, float64(r.Range(-8, 22)))
			f = math.Float64frombits(math.Float64bits(base) + uint64(r.Range(-3, 3)))
		default:
			f = math.Float64frombits(r.U64())
		}
		if r.Chance(1, 6) {
			f = -f
		}
		if !math.IsNaN(f) && !math.IsInf(f, 0) {
			return f
		}
	}
}

// GenRune returns a random Unicode scalar value, biased towards the interesting classes.
func GenRune(r *rng.R) rune {
	for {
		var c rune
		switch r.Intn(12) {
		case 0:
			c = rune(r.Intn(0x20))
		case 1:
			c = rune(0x20 + r.Intn(0x60))
		case 2:
			c = rune(0x7f + r.Intn(0x22))
		case 3:
			c = rune(0x2000 + r.Intn(0x70))
		case 4:
			c = rune(0xd7f0 + r.Intn(0x20)) // around the surrogate gap (gap values rejected below)
		case 5:
			c = rune(0xfff0 + r.Intn(0x20))
		case 6:
			c = rune(0x10000 + r.Intn(0x100000))
		case 7:
			c = rune(0xe0000 + r.Intn(0x80))
		case 8:
			c = []rune{'"', '\\', '/', '[', ']', '{', '}', ',', ':', 'u', 'n', ' '}[r.Intn(12)]
		default:
			c = rune(r.Intn(0x110000))
		}
		if c >= 0xd800 && c <= 0xdfff {
			continue
		}
		if utf8.ValidRune(c) {
			return c
		}
	}
}

func GenStr(r *rng.R) string {
	if r.Chance(1, 300) {
		// a long string (longer than typical scratch buffers), mixing escapes and plain text
		n := []int{64, 257, 1025, 4100}[r.Intn(4)]
		var b strings.Builder
		for b.Len() < n {
			if r.Chance(1, 8) {
				b.WriteString(StrPool[r.Intn(60)])
			} else {
				b.WriteString("lorem ipsum ")
			}
		}
		return b.String()
	}
	switch r.Intn(10) {
	case 0, 1, 2, 3:
		return StrPool[r.Intn(len(StrPool))]
	case 4, 5:
		n := r.Range(1, 8)
		var b strings.Builder
		for i := 0; i < n; i++ {
			b.WriteByte("abcxyz019 _-"[r.Intn(12)])
		}
		return b.String()
	case 6:
		// concatenation of two pool strings (escape adjacency)
		return StrPool[r.Intn(len(StrPool))] + StrPool[r.Intn(len(StrPool))]
	case 7:
		// text that spells an escape sequence literally (backslash, u, four hex digits)
		return StrPool[r.Intn(len(StrPool))] + "\\u" + string("0123456789abcdefABCDEF"[r.Intn(22)]) + string("0123456789abcdef"[r.Intn(16)]) + string("0123456789abcdef"[r.Intn(16)]) + string("0123456789abcdefABCDEF"[r.Intn(22)])
	default:
		n := r.Range(1, 10)
		var b strings.Builder
		for i := 0; i < n; i++ {
			b.WriteRune(GenRune(r))
		}
		return b.String()
	}
}

func GenKey(r *rng.R) string {
	switch r.Intn(10) {
	case 0, 1, 2, 3:
		return KeyPool[r.Intn(len(KeyPool))]
	case 4, 5, 6:
		return SafeKeys[r.Intn(len(SafeKeys))]
	default:
		return GenStr(r)
	}
}

func GenScalar(r *rng.R) *Spec {
	switch r.Intn(6) {
	case 0:
		return NilV()
	case 1:
		return BoolV(r.Bool())
	case 2:
		return IntV(GenInt(r))
	case 3:
		return FloatV(GenFloat(r))
	default:
		return StrV(GenStr(r))
	}
}

// Opts steer the tree generator.
type Opts struct {
	MaxDepth int
	MaxWidth int
	SafeKeys bool // only tree-form friendly keys
	Root     Kind // List or Obj
	// ScalarBias: 0..10, higher = more scalars / fewer containers per level
	ScalarBias int
	// Wide: now and then generate containers with tens to hundreds of elements
	Wide bool
}

// GenTree builds a random tree rooted at a list or object.
func GenTree(r *rng.R, o Opts) *Spec {
	if o.MaxDepth <= 0 {
		o.MaxDepth = 4
	}
	if o.MaxWidth <= 0 {
		o.MaxWidth = 6
	}
	if o.ScalarBias == 0 {
		o.ScalarBias = 7
	}
	root := o.Root
	if root != List && root != Obj {
		if r.Bool() {
			root = List
		} else {
			root = Obj
		}
	}
	return genContainer(r, o, root, 1)
}

// CollisionPairs: pairs of different strings that collide under hash functions and checksums in common use (FNV-1a 32,
// CRC-32, Java's 31-polynomial, Adler-32 / Fletcher style sums, plain byte sums, same length and same bytes in
// another order); a comparison, a de-duplication or an index that trusts such a digest confuses them.
var CollisionPairs = [][2]string{
	{"liquid", "costarring"}, {"declinate", "macallums"}, {"altarage", "zinke"}, {"altarages", "zinkes"}, // FNV-1a 32
	{"plumless", "buckeroo"},                         // CRC-32
	{"Aa", "BB"}, {"AaAa", "BBBB"}, {"AaBB", "BBAa"}, // 31-polynomial
	{"aca", "bab"}, {"order-131", "order-212"}, {"bdb", "cbc"}, // Adler-32 (equal length, byte sum and weighted sum)
	{"ab", "ba"}, {"abc", "cab"}, {"listen", "silent"}, // permutations (byte sum, xor)
	{"a\x00", "a"}, {"a", "a "}, {"", "\x00"}, // padding
}

// ChecksumNeutral returns a different string of the same length with the same byte sum and the same position-weighted
// sum (three equally spaced bytes changed by +1, -2, +1), or "" when s is too short / has no room.
func ChecksumNeutral(r *rng.R, s string) string {
	b := []byte(s)
	if len(b) < 3 {
		return ""
	}
	for try := 0; try < 20; try++ {
		d := 1 + r.Intn((len(b)-1)/2)
		i := r.Intn(len(b) - 2*d)
		x, y, z := b[i], b[i+d], b[i+2*d]
		if x < 0x7e && y > 0x21 && y < 0x7f && z < 0x7e && x >= 0x20 && z >= 0x20 {
			b[i], b[i+d], b[i+2*d] = x+1, y-2, z+1
			return string(b)
		}
	}
	return ""
}

// genTable: a list of rows. Either lists of scalars with ragged lengths (often with a total that would also fit a
// rectangle), or records with (almost) the same keys.
func genTable(r *rng.R, o Opts) *Spec {
	s := &Spec{K: List}
	rows := r.Range(2, 5)
	if r.Bool() {
		first := r.Range(0, 4)
		lens := make([]int, rows)
		lens[0] = first
		total := first
		for i := 1; i < rows; i++ {
			lens[i] = r.Range(0, 5)
			total += lens[i]
		}
		if r.Bool() && rows > 1 {
			// make the cell count that of a rectangle first x rows although the rows are ragged
			want := first * rows
			for guard := 0; total != want && guard < 200; guard++ {
				j := 1 + r.Intn(rows-1)
				if total < want {
					lens[j]++
					total++
				} else if lens[j] > 0 {
					lens[j]--
					total--
				}
			}
		}
		if r.Chance(1, 3) {
			// a true rectangle: every row as wide as the first (at least one cell)
			w := first
			if w == 0 {
				w = 1
			}
			for i := range lens {
				lens[i] = w
			}
		}
		for i := 0; i < rows; i++ {
			row := &Spec{K: List}
			for j := 0; j < lens[i]; j++ {
				row.L = append(row.L, GenScalar(r))
			}
			s.L = append(s.L, row)
		}
		return s
	}
	cols := []string{"id", "name", "k", "x"}[:r.Range(1, 4)]
	for i := 0; i < rows; i++ {
		rec := &Spec{K: Obj}
		for _, c := range cols {
			if r.Chance(1, 6) {
				continue // a missing column
			}
			rec.Set(c, GenScalar(r))
		}
		if r.Chance(1, 4) {
			rec.Set([]string{"extra", "ID", "name "}[r.Intn(3)], GenScalar(r)) // same number of keys, another key
		}
		s.L = append(s.L, rec)
	}
	return s
}

func genContainer(r *rng.R, o Opts, k Kind, depth int) *Spec {
	if k == List && depth > 1 && depth < o.MaxDepth && r.Chance(1, 14) {
		return genTable(r, o)
	}
	var n int
	switch r.Intn(8) {
	case 0:
		n = 0
	case 1:
		n = 1
	default:
		n = r.Range(0, o.MaxWidth)
	}
	if o.Wide && depth <= 2 && r.Chance(1, 40) {
		// occasionally a wide container: sizes around the usual growth / bucket thresholds
		n = []int{9, 17, 33, 65, 129, 300}[r.Intn(6)] + r.Intn(3) - 1
	}
	s := &Spec{K: k}
	for i := 0; i < n; i++ {
		var v *Spec
		if depth < o.MaxDepth && r.Intn(10) >= o.ScalarBias {
			ck := List
			if r.Bool() {
				ck = Obj
			}
			v = genContainer(r, o, ck, depth+1)
		} else {
			v = GenScalar(r)
		}
		if k == List {
			s.L = append(s.L, v)
		} else {
			var key string
			if o.SafeKeys {
				key = SafeKeys[r.Intn(len(SafeKeys))]
			} else {
				key = GenKey(r)
			}
			s.Set(key, v)
		}
	}
	return s
}

// CodePointStrings enumerates all Unicode scalar values in chunks: string number i (0-based) holds
// the scalar values [i*per, (i+1)*per) skipping surrogates. Total() chunks cover everything.
func CodePointChunk(i, per int) string {
	var b strings.Builder
	for c := i * per; c < (i+1)*per && c <= 0x10ffff; c++ {
		if c >= 0xd800 && c <= 0xdfff {
			continue
		}
		b.WriteRune(rune(c))
	}
	return b.String()
}

func CodePointChunks(per int) int { return (0x110000 + per - 1) / per }
