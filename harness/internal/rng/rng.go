// Package rng is the only source of randomness in the harness: a splitmix64 stream keyed by
// (seed, property, case index), so every case is reproducible from its coordinates.
package rng

import "hash/fnv"

type R struct{ s uint64 }

func mix(z uint64) uint64 {
	z = (z ^ (z >> 30)) * 0xbf58476d1ce4e5b9
	z = (z ^ (z >> 27)) * 0x94d049bb133111eb
	return z ^ (z >> 31)
}

// New derives a stream from the run seed, a label (property / sub-workload) and a case index.
func New(seed uint64, label string, idx int) *R {
	h := fnv.New64a()
	h.Write([]byte(label))
	s := mix(seed+0x9e3779b97f4a7c15) ^ mix(h.Sum64()) ^ mix(uint64(idx)*0xd1342543de82ef95+1)
	return &R{s: s}
}

func (r *R) U64() uint64 {
	r.s += 0x9e3779b97f4a7c15
	return mix(r.s)
}

// Intn returns a value in [0,n). n must be > 0.
func (r *R) Intn(n int) int {
	if n <= 1 {
		return 0
	}
	return int(r.U64() % uint64(n))
}

// Range returns a value in [lo,hi] inclusive.
func (r *R) Range(lo, hi int) int {
	if hi <= lo {
		return lo
	}
	return lo + r.Intn(hi-lo+1)
}

func (r *R) Bool() bool { return r.U64()&1 == 1 }

// Chance is true with probability num/den.
func (r *R) Chance(num, den int) bool { return r.Intn(den) < num }

func (r *R) Float01() float64 { return float64(r.U64()>>11) / (1 << 53) }

// Perm returns a random permutation of 0..n-1.
func (r *R) Perm(n int) []int {
	p := make([]int, n)
	for i := range p {
		p[i] = i
	}
	for i := n - 1; i > 0; i-- {
		j := r.Intn(i + 1)
		p[i], p[j] = p[j], p[i]
	}
	return p
}

// Fork derives an independent stream.
func (r *R) Fork() *R { return &R{s: mix(r.U64())} }
