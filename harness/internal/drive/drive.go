// Package drive builds real anytype containers from spec trees (through varied entry points) and
// observes real containers through the public API only (Count / TypeOf / Get / typed getters / Keys).
package drive

import (
	"fmt"
	"sort"
	"strconv"
	"strings"

	at "github.com/DanielSvub/anytype"

	"verifharness/internal/rng"
	"verifharness/internal/spec"
)

// Node is an observed snapshot of a real value.
type Node struct {
	K    spec.Kind
	B    bool
	I    int
	F    float64
	S    string
	Id   any // the List / Object value itself (identity), for containers
	L    []*Node
	Keys []string // sorted
	M    map[string]*Node
}

func KindOfType(t at.Type) (spec.Kind, bool) {
	switch t {
	case at.TypeNil:
		return spec.Nil, true
	case at.TypeBool:
		return spec.Bool, true
	case at.TypeInt:
		return spec.Int, true
	case at.TypeFloat:
		return spec.Float, true
	case at.TypeString:
		return spec.Str, true
	case at.TypeList:
		return spec.List, true
	case at.TypeObject:
		return spec.Obj, true
	}
	return 0, false
}

func TypeOfKind(k spec.Kind) at.Type {
	switch k {
	case spec.Nil:
		return at.TypeNil
	case spec.Bool:
		return at.TypeBool
	case spec.Int:
		return at.TypeInt
	case spec.Float:
		return at.TypeFloat
	case spec.Str:
		return at.TypeString
	case spec.List:
		return at.TypeList
	case spec.Obj:
		return at.TypeObject
	}
	return at.TypeUndefined
}

// Protect runs f and converts a panic into an error string ("" = no panic).
func Protect(f func()) (panicked bool, msg string) {
	defer func() {
		if r := recover(); r != nil {
			panicked = true
			msg = fmt.Sprint(r)
		}
	}()
	f()
	return false, ""
}

// WalkValue observes a value returned by Get (scalar or container) claimed to be of type t.
func walkValue(v any, t at.Type, depth int, where *pathStack) (*Node, error) {
	k, ok := KindOfType(t)
	if !ok {
		return nil, fmt.Errorf("%s: TypeOf reports %d (undefined) for an existing slot", where, t)
	}
	n := &Node{K: k}
	switch k {
	case spec.Nil:
		if v != nil {
			return nil, fmt.Errorf("%s: TypeOf=nil but Get returned %T", where, v)
		}
	case spec.Bool:
		b, ok := v.(bool)
		if !ok {
			return nil, fmt.Errorf("%s: TypeOf=bool but Get returned %T", where, v)
		}
		n.B = b
	case spec.Int:
		i, ok := v.(int)
		if !ok {
			return nil, fmt.Errorf("%s: TypeOf=int but Get returned %T", where, v)
		}
		n.I = i
	case spec.Float:
		f, ok := v.(float64)
		if !ok {
			return nil, fmt.Errorf("%s: TypeOf=float but Get returned %T", where, v)
		}
		n.F = f
	case spec.Str:
		s, ok := v.(string)
		if !ok {
			return nil, fmt.Errorf("%s: TypeOf=string but Get returned %T", where, v)
		}
		n.S = s
	case spec.List:
		l, ok := v.(at.List)
		if !ok {
			return nil, fmt.Errorf("%s: TypeOf=list but Get returned %T", where, v)
		}
		return walkList(l, depth, where)
	case spec.Obj:
		o, ok := v.(at.Object)
		if !ok {
			return nil, fmt.Errorf("%s: TypeOf=object but Get returned %T", where, v)
		}
		return walkObject(o, depth, where)
	}
	return n, nil
}

const maxWalkDepth = 2000000

// pathStack renders the position inside the walked tree only when an error message needs it.
type pathStack struct{ segs []string }

func (p *pathStack) push(s string) { p.segs = append(p.segs, s) }
func (p *pathStack) pop()          { p.segs = p.segs[:len(p.segs)-1] }
func (p *pathStack) String() string {
	if len(p.segs) > 40 {
		return strings.Join(p.segs[:20], "") + "…" + strings.Join(p.segs[len(p.segs)-20:], "")
	}
	return strings.Join(p.segs, "")
}

func walkList(l at.List, depth int, where *pathStack) (*Node, error) {
	if depth > maxWalkDepth {
		return nil, fmt.Errorf("%s: nesting deeper than %d (cycle?)", where, maxWalkDepth)
	}
	n := &Node{K: spec.List, Id: l}
	cnt := l.Count()
	if cnt < 0 {
		return nil, fmt.Errorf("%s: negative Count %d", where, cnt)
	}
	n.L = make([]*Node, cnt)
	for i := 0; i < cnt; i++ {
		t := l.TypeOf(i)
		v := l.Get(i)
		where.push("#" + strconv.Itoa(i))
		c, err := walkValue(v, t, depth+1, where)
		if err != nil {
			return nil, err
		}
		where.pop()
		n.L[i] = c
	}
	return n, nil
}

func walkObject(o at.Object, depth int, where *pathStack) (*Node, error) {
	if depth > maxWalkDepth {
		return nil, fmt.Errorf("%s: nesting deeper than %d (cycle?)", where, maxWalkDepth)
	}
	n := &Node{K: spec.Obj, Id: o, M: map[string]*Node{}}
	cnt := o.Count()
	keys := o.Keys()
	if keys.Count() != cnt {
		return nil, fmt.Errorf("%s: Keys() has %d entries but Count()=%d", where, keys.Count(), cnt)
	}
	for i := 0; i < cnt; i++ {
		if keys.TypeOf(i) != at.TypeString {
			return nil, fmt.Errorf("%s: Keys()[%d] is not a string", where, i)
		}
		k := keys.GetString(i)
		if _, dup := n.M[k]; dup {
			return nil, fmt.Errorf("%s: Keys() lists %q twice", where, k)
		}
		if !o.KeyExists(k) {
			return nil, fmt.Errorf("%s: Keys() lists %q but KeyExists is false", where, k)
		}
		t := o.TypeOf(k)
		v := o.Get(k)
		where.push("." + strconv.Quote(k))
		c, err := walkValue(v, t, depth+1, where)
		if err != nil {
			return nil, err
		}
		where.pop()
		n.M[k] = c
		n.Keys = append(n.Keys, k)
	}
	sort.Strings(n.Keys)
	return n, nil
}

// Walk observes a List or Object. Panics inside the library surface as errors.
func Walk(v any) (n *Node, err error) {
	defer func() {
		if r := recover(); r != nil {
			n, err = nil, fmt.Errorf("panic while observing the container: %v", r)
		}
	}()
	switch c := v.(type) {
	case at.List:
		if c == nil {
			return nil, fmt.Errorf("nil List")
		}
		return walkList(c, 0, &pathStack{})
	case at.Object:
		if c == nil {
			return nil, fmt.Errorf("nil Object")
		}
		return walkObject(c, 0, &pathStack{})
	}
	return nil, fmt.Errorf("not a container: %T", v)
}

// ToSpec converts an observation into a spec tree (keys sorted).
func (n *Node) ToSpec() *spec.Spec {
	s := &spec.Spec{K: n.K, B: n.B, I: n.I, F: n.F, S: n.S}
	for _, e := range n.L {
		s.L = append(s.L, e.ToSpec())
	}
	for _, k := range n.Keys {
		s.Keys = append(s.Keys, k)
		s.Vals = append(s.Vals, n.M[k].ToSpec())
	}
	return s
}

func (n *Node) Canon() string { return n.ToSpec().Canon() }

// Diff compares an observation with a spec; "" means equal (kinds exact, floats by ==, strings bytewise).
// The position of the first difference is assembled while unwinding, so equal trees cost no string building.
func Diff(n *Node, s *spec.Spec) string {
	path, msg := diff(n, s)
	if msg == "" {
		return ""
	}
	if path == "" {
		path = "<root>"
	}
	if len(path) > 300 {
		path = path[:150] + "…" + path[len(path)-150:]
	}
	return "at " + path + ": " + msg
}

func diff(n *Node, s *spec.Spec) (path string, msg string) {
	if n.K != s.K {
		return "", fmt.Sprintf("kind %s, expected %s (%s)", n.K, s.K, s.Short())
	}
	switch n.K {
	case spec.Bool:
		if n.B != s.B {
			return "", fmt.Sprintf("bool %v, expected %v", n.B, s.B)
		}
	case spec.Int:
		if n.I != s.I {
			return "", fmt.Sprintf("int %d, expected %d", n.I, s.I)
		}
	case spec.Float:
		if n.F != s.F {
			return "", fmt.Sprintf("float %v, expected %v", strconv.FormatFloat(n.F, 'g', -1, 64), strconv.FormatFloat(s.F, 'g', -1, 64))
		}
	case spec.Str:
		if n.S != s.S {
			return "", fmt.Sprintf("string %q, expected %q", spec.Trunc(n.S, 120), spec.Trunc(s.S, 120))
		}
	case spec.List:
		if len(n.L) != len(s.L) {
			return "", fmt.Sprintf("list length %d, expected %d", len(n.L), len(s.L))
		}
		for i := range n.L {
			if p, d := diff(n.L[i], s.L[i]); d != "" {
				return "#" + strconv.Itoa(i) + p, d
			}
		}
	case spec.Obj:
		if len(n.Keys) != len(s.Keys) {
			return "", fmt.Sprintf("object has %d keys %q, expected %d keys %q", len(n.Keys), truncKeys(n.Keys), len(s.Keys), truncKeys(s.Keys))
		}
		for i, k := range s.Keys {
			c, ok := n.M[k]
			if !ok {
				return "", fmt.Sprintf("key %q missing (have %q)", k, truncKeys(n.Keys))
			}
			if p, d := diff(c, s.Vals[i]); d != "" {
				return "." + strconv.Quote(k) + p, d
			}
		}
	}
	return "", ""
}

func truncKeys(k []string) []string {
	if len(k) > 12 {
		return append(append([]string{}, k[:12]...), "…")
	}
	return k
}

// SameShape compares two observations including container identities at every depth.
// Returns "" if the two snapshots show the same content with the identical nested containers.
func SameSnapshot(a, b *Node, path string) string {
	if path == "" {
		path = "<root>"
	}
	if a.K != b.K {
		return fmt.Sprintf("at %s: kind %s vs %s", path, a.K, b.K)
	}
	switch a.K {
	case spec.Bool:
		if a.B != b.B {
			return fmt.Sprintf("at %s: %v vs %v", path, a.B, b.B)
		}
	case spec.Int:
		if a.I != b.I {
			return fmt.Sprintf("at %s: %d vs %d", path, a.I, b.I)
		}
	case spec.Float:
		if a.F != b.F {
			return fmt.Sprintf("at %s: %v vs %v", path, a.F, b.F)
		}
	case spec.Str:
		if a.S != b.S {
			return fmt.Sprintf("at %s: %q vs %q", path, spec.Trunc(a.S, 80), spec.Trunc(b.S, 80))
		}
	case spec.List:
		if a.Id != b.Id {
			return fmt.Sprintf("at %s: different list identity", path)
		}
		if len(a.L) != len(b.L) {
			return fmt.Sprintf("at %s: list length %d vs %d", path, len(a.L), len(b.L))
		}
		for i := range a.L {
			if d := SameSnapshot(a.L[i], b.L[i], path+"#"+strconv.Itoa(i)); d != "" {
				return d
			}
		}
	case spec.Obj:
		if a.Id != b.Id {
			return fmt.Sprintf("at %s: different object identity", path)
		}
		if len(a.Keys) != len(b.Keys) {
			return fmt.Sprintf("at %s: key count %d vs %d", path, len(a.Keys), len(b.Keys))
		}
		for _, k := range a.Keys {
			c, ok := b.M[k]
			if !ok {
				return fmt.Sprintf("at %s: key %q vs missing", path, k)
			}
			if d := SameSnapshot(a.M[k], c, path+"."+strconv.Quote(k)); d != "" {
				return d
			}
		}
	}
	return ""
}

// Containers collects the identities of all containers in the snapshot (root included).
func (n *Node) Containers(into map[any]string, path string) {
	if n.K == spec.List || n.K == spec.Obj {
		into[n.Id] = path
	}
	for i, e := range n.L {
		e.Containers(into, path+"#"+strconv.Itoa(i))
	}
	for _, k := range n.Keys {
		n.M[k].Containers(into, path+"."+k)
	}
}

// ---------------------------------------------------------------------------------------------
// Building

// Native converts a spec into plain Go values (map[string]any / []any / scalars).
func Native(s *spec.Spec) any {
	switch s.K {
	case spec.Nil:
		return nil
	case spec.Bool:
		return s.B
	case spec.Int:
		return s.I
	case spec.Float:
		return s.F
	case spec.Str:
		return s.S
	case spec.List:
		out := make([]any, len(s.L))
		for i, e := range s.L {
			out[i] = Native(e)
		}
		return out
	case spec.Obj:
		out := make(map[string]any, len(s.Keys))
		for i, k := range s.Keys {
			out[k] = Native(s.Vals[i])
		}
		return out
	}
	return nil
}

// value builds the Go value handed to the library for a child: scalars as they are, containers either
// as already-built real containers or (sometimes) as native maps/slices the library has to convert.
func value(r *rng.R, s *spec.Spec) any {
	switch s.K {
	case spec.List, spec.Obj:
		if r != nil && r.Chance(1, 5) {
			return Native(s)
		}
		return Build(r, s)
	}
	return Native(s)
}

// Embedded, when set, returns a value embedded in the derived structure v (level 0: the library container itself,
// higher levels: intermediate user types, as far as there are any), or nil when v is not a derived structure.
// Build does not hand such values over on its own: what the typed views do with a stored embedded value is stated by
// no property (they hand over what is stored, Get resolves the registered pointer), so only monitors whose statement
// covers it use this (C13: Dict / Slice hold what Get returns).
var Embedded func(v any, level int) any

// Build creates a real container from a spec through a randomly chosen construction route.
// With r == nil the plain route (NewList(args...) / NewObject(pairs...)) is used.
// DerivedList / DerivedObject, when set (by the monitors' package), build a derived structure: a user type that embeds a
// List / Object and registers itself with Init (README "Derived Structures"), `level` embedding levels deep. Build then
// makes about one container in twenty such a structure: it is a List / Object like any other.
var DerivedList func(level int, vals ...any) at.List
var DerivedObject func(level int, pairs ...any) at.Object

// Churn makes and drops a few thousand unrelated values (distinct short strings, numbers, small containers): whatever
// the library shares, interns or remembers across values has turned over afterwards.
func Churn(n int) {
	l := at.NewList()
	o := at.NewObject()
	for j := 0; j < n; j++ {
		l.Add("c"+strconv.Itoa(j), j, float64(j)+0.25)
		o.Set("k"+strconv.Itoa(j%512), "v"+strconv.Itoa(j))
		if j%2048 == 2047 {
			l, o = at.NewList(), at.NewObject()
		}
	}
}

func Build(r *rng.R, s *spec.Spec) any {
	if r != nil && r.Chance(1, 120) {
		Churn(6000) // now and then a lot happens before a container is built
	}
	if r != nil && DerivedList != nil && DerivedObject != nil && r.Chance(1, 20) {
		switch s.K {
		case spec.List:
			vals := make([]any, len(s.L))
			for i, e := range s.L {
				vals[i] = value(r, e)
			}
			return DerivedList(r.Intn(3), vals...)
		case spec.Obj:
			pairs := make([]any, 0, 2*len(s.Keys))
			for i, k := range s.Keys {
				pairs = append(pairs, k, value(r, s.Vals[i]))
			}
			return DerivedObject(r.Intn(3), pairs...)
		}
	}
	if r != nil && r.Chance(1, 12) {
		if v := buildViaParser(r, s); v != nil {
			return v
		}
	}
	route := 0
	if r != nil {
		route = r.Intn(6)
		if r.Chance(1, 5) {
			route = 6 + r.Intn(6) // the container is the result of a deriving operation
		}
	}
	switch s.K {
	case spec.List:
		vals := make([]any, len(s.L))
		for i, e := range s.L {
			vals[i] = value(r, e)
		}
		switch route {
		case 6: // Concat of two halves
			k := r.Intn(len(vals) + 1)
			return at.NewList(vals[:k]...).Concat(at.NewList(vals[k:]...))
		case 7: // empty (or scalar-only) receiver concatenated with the content
			return at.NewList().Concat(at.NewList(vals...))
		case 8:
			l := at.NewList("pre")
			l.Add(vals...)
			return l.SubList(1, 0)
		case 9:
			return at.NewList(vals...).Map(func(i int, v any) any { return v })
		case 10:
			return at.NewList(vals...).Filter(func(any) bool { return true })
		case 11:
			return at.NewList(vals...).Clone()
		case 1:
			l := at.NewList()
			for _, v := range vals {
				l.Add(v)
			}
			return l
		case 2:
			return at.NewListFrom(vals)
		case 3:
			l := at.NewList()
			for i := len(vals) - 1; i >= 0; i-- {
				l.Insert(0, vals[i])
			}
			return l
		case 4:
			l := at.NewList()
			for i, v := range vals {
				l.SetTF("#"+strconv.Itoa(i), v)
			}
			return l
		case 5:
			// grow, then shrink back: leaves spare capacity behind
			l := at.NewList(vals...)
			extra := 1 + len(vals)%3
			for i := 0; i < extra; i++ {
				l.Add(i)
			}
			for i := 0; i < extra; i++ {
				l.Pop()
			}
			return l
		}
		return at.NewList(vals...)
	case spec.Obj:
		switch route {
		case 6, 7: // Merge result (receiver part is cloned, argument part is stored as given)
			k := 0
			if len(s.Keys) > 0 {
				k = r.Intn(len(s.Keys) + 1)
			}
			a, b := at.NewObject(), at.NewObject()
			for i, key := range s.Keys {
				if i < k {
					a.Set(key, value(r, s.Vals[i]))
				} else {
					b.Set(key, value(r, s.Vals[i]))
				}
			}
			if route == 7 {
				a.Set("shadowed-by-argument", 1)
				b.Set("shadowed-by-argument", 2)
				return a.Merge(b).Unset("shadowed-by-argument")
			}
			return a.Merge(b)
		case 8, 9: // Pluck of a larger object
			o := at.NewObject("dropped-by-pluck", 1)
			for i, key := range s.Keys {
				o.Set(key, value(r, s.Vals[i]))
			}
			if o.Count() == len(s.Keys) { // a tree key collides with the extra one: keep it simple
				return o
			}
			return o.Pluck(s.Keys...)
		case 10:
			o := at.NewObject()
			for i, key := range s.Keys {
				o.Set(key, value(r, s.Vals[i]))
			}
			return o.Map(func(k string, v any) any { return v })
		case 11:
			o := at.NewObject()
			for i, key := range s.Keys {
				o.Set(key, value(r, s.Vals[i]))
			}
			return o.Clone()
		case 1, 3:
			o := at.NewObject()
			for i, k := range s.Keys {
				o.Set(k, value(r, s.Vals[i]))
			}
			return o
		case 2:
			m := make(map[string]any, len(s.Keys))
			for i, k := range s.Keys {
				m[k] = value(r, s.Vals[i])
			}
			return at.NewObjectFrom(m)
		case 4:
			// overwrite route: set a dummy first, then the real value (last pair wins)
			pairs := make([]any, 0, 4*len(s.Keys))
			for _, k := range s.Keys {
				pairs = append(pairs, k, "dummy")
			}
			for i, k := range s.Keys {
				pairs = append(pairs, k, value(r, s.Vals[i]))
			}
			return at.NewObject(pairs...)
		}
		pairs := make([]any, 0, 2*len(s.Keys))
		for i, k := range s.Keys {
			pairs = append(pairs, k, value(r, s.Vals[i]))
		}
		return at.NewObject(pairs...)
	}
	panic("Build: spec root is not a container")
}

// buildViaParser renders the tree as text in the lenient spellings the library's parser accepts beyond JSON
// (".5", "5.", "+1", hex and binary ints, digit separators, "T"/"F" booleans, blanks inside literals) and parses it.
// The result is only used if it shows exactly the tree's content; otherwise nil (another route is taken).
func buildViaParser(r *rng.R, s *spec.Spec) any {
	if s.Size() > 300 || s.Depth() > 8 {
		return nil
	}
	var b strings.Builder
	var rec func(n *spec.Spec)
	rec = func(n *spec.Spec) {
		switch n.K {
		case spec.Nil:
			b.WriteString("null")
		case spec.Bool:
			if n.B {
				b.WriteString([]string{"true", "T", "TRUE", "True", "t"}[r.Intn(5)])
			} else {
				b.WriteString([]string{"false", "F", "FALSE", "False", "f"}[r.Intn(5)])
			}
		case spec.Int:
			switch {
			case n.I >= 0 && r.Chance(1, 4):
				b.WriteString("0x" + strconv.FormatInt(int64(n.I), 16))
			case n.I >= 0 && r.Chance(1, 4):
				b.WriteString("+" + strconv.Itoa(n.I))
			case n.I >= 1000 && r.Chance(1, 3):
				d := strconv.Itoa(n.I)
				b.WriteString(d[:1] + "_" + d[1:])
			case n.I >= 0 && r.Chance(1, 5):
				b.WriteString("0b" + strconv.FormatInt(int64(n.I), 2))
			default:
				b.WriteString(strconv.Itoa(n.I))
			}
		case spec.Float:
			f := strconv.FormatFloat(n.F, 'g', -1, 64)
			if !strings.ContainsAny(f, ".eE") {
				f += []string{".0", ".", "e0"}[r.Intn(3)]
			}
			if strings.HasPrefix(f, "0.") && r.Bool() {
				f = f[1:]
			} else if n.F > 0 && r.Chance(1, 4) {
				f = "+" + f
			}
			b.WriteString(f)
		case spec.Str:
			b.WriteString(strconv.Quote(n.S)) // Go quoting: the parser unquotes with Go rules
		case spec.List:
			b.WriteByte('[')
			for i, e := range n.L {
				if i > 0 {
					b.WriteString([]string{",", " , ", ",\n"}[r.Intn(3)])
				}
				rec(e)
			}
			b.WriteByte(']')
		case spec.Obj:
			b.WriteByte('{')
			for i, k := range n.Keys {
				if i > 0 {
					b.WriteByte(',')
				}
				b.WriteString(strconv.Quote(k))
				b.WriteString([]string{":", " : "}[r.Intn(2)])
				rec(n.Vals[i])
			}
			b.WriteByte('}')
		}
	}
	rec(s)
	var v any
	var err error
	if pan, _ := Protect(func() {
		if s.K == spec.List {
			v, err = at.ParseList(b.String())
		} else {
			v, err = at.ParseObject(b.String())
		}
	}); pan || err != nil || v == nil {
		return nil
	}
	w, werr := Walk(v)
	if werr != nil || Diff(w, s) != "" {
		return nil
	}
	return v
}

func BuildList(r *rng.R, s *spec.Spec) at.List     { return Build(r, s).(at.List) }
func BuildObject(r *rng.R, s *spec.Spec) at.Object { return Build(r, s).(at.Object) }

// KindOfValue: the kind of a value as Get hands it out (nil, bool, int, float64, string, List, Object).
func KindOfValue(v any) (spec.Kind, bool) {
	switch v.(type) {
	case nil:
		return spec.Nil, true
	case bool:
		return spec.Bool, true
	case int:
		return spec.Int, true
	case float64:
		return spec.Float, true
	case string:
		return spec.Str, true
	case at.List:
		return spec.List, true
	case at.Object:
		return spec.Obj, true
	}
	return 0, false
}
