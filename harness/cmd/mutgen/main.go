// mutgen enumerates small syntactic mutants of the library's non-test sources and applies one of them to a copy of the
// library. It is a development aid for measuring what the monitors notice (tools/mutation_survey.sh); no check
// registered in MANIFEST.json depends on it.
//
//	mutgen -src <library dir> -list                    one JSON line per mutant: id, file, line, operator, before, after
//	mutgen -src <library dir> -apply <id> -dst <dir>   write the mutated file into <dir> (a copy of the library)
package main

import (
	"encoding/json"
	"flag"
	"fmt"
	"go/ast"
	"go/parser"
	"go/token"
	"os"
	"path/filepath"
	"sort"
	"strconv"
	"strings"
)

type mutant struct {
	ID     int    `json:"id"`
	File   string `json:"file"`
	Line   int    `json:"line"`
	Func   string `json:"func"`
	Op     string `json:"op"`
	Before string `json:"before"`
	After  string `json:"after"`
	start  int
	end    int
}

var opSwap = map[token.Token][]string{
	token.LSS: {"<="}, token.LEQ: {"<"}, token.GTR: {">="}, token.GEQ: {">"},
	token.EQL: {"!="}, token.NEQ: {"=="},
	token.ADD: {"-"}, token.SUB: {"+"},
	token.LAND: {"||"}, token.LOR: {"&&"},
	token.MUL: {"/"}, token.QUO: {"*"}, token.REM: {"/"},
}

func main() {
	src := flag.String("src", "/repo", "library directory")
	list := flag.Bool("list", false, "list mutants")
	apply := flag.Int("apply", -1, "mutant id to apply")
	dst := flag.String("dst", "", "directory to write the mutated file into")
	flag.Parse()

	files, _ := filepath.Glob(filepath.Join(*src, "*.go"))
	sort.Strings(files)
	var all []mutant
	for _, f := range files {
		base := filepath.Base(f)
		if strings.HasSuffix(base, "_test.go") || strings.HasPrefix(base, "verif_") {
			continue
		}
		all = append(all, mutantsOf(f)...)
	}
	for i := range all {
		all[i].ID = i
	}
	if *list {
		enc := json.NewEncoder(os.Stdout)
		for _, m := range all {
			enc.Encode(m)
		}
		return
	}
	if *apply < 0 || *apply >= len(all) || *dst == "" {
		fmt.Fprintln(os.Stderr, "nothing to do")
		os.Exit(2)
	}
	m := all[*apply]
	b, err := os.ReadFile(filepath.Join(*src, m.File))
	if err != nil {
		fmt.Fprintln(os.Stderr, err)
		os.Exit(2)
	}
	out := string(b[:m.start]) + m.After + string(b[m.end:])
	if err := os.WriteFile(filepath.Join(*dst, m.File), []byte(out), 0o644); err != nil {
		fmt.Fprintln(os.Stderr, err)
		os.Exit(2)
	}
	j, _ := json.Marshal(m)
	fmt.Println(string(j))
}

func mutantsOf(path string) []mutant {
	fset := token.NewFileSet()
	b, err := os.ReadFile(path)
	if err != nil {
		return nil
	}
	f, err := parser.ParseFile(fset, path, b, 0)
	if err != nil {
		return nil
	}
	base := filepath.Base(path)
	var out []mutant
	off := func(p token.Pos) int { return fset.Position(p).Offset }
	add := func(fn string, op string, s, e token.Pos, after string) {
		so, eo := off(s), off(e)
		before := string(b[so:eo])
		if len(before) > 80 {
			before = before[:80] + "..."
		}
		a := after
		if len(a) > 80 {
			a = a[:80] + "..."
		}
		out = append(out, mutant{File: base, Line: fset.Position(s).Line, Func: fn, Op: op, Before: before, After: after, start: so, end: eo})
		_ = a
	}
	for _, d := range f.Decls {
		fd, ok := d.(*ast.FuncDecl)
		if !ok || fd.Body == nil {
			continue
		}
		name := fd.Name.Name
		if fd.Recv != nil && len(fd.Recv.List) > 0 {
			name = strings.TrimPrefix(string(b[off(fd.Recv.List[0].Type.Pos()):off(fd.Recv.List[0].Type.End())]), "*") + "." + name
		}
		if strings.HasPrefix(fd.Name.Name, "verif") {
			continue
		}
		ast.Inspect(fd.Body, func(n ast.Node) bool {
			switch x := n.(type) {
			case *ast.BinaryExpr:
				for _, r := range opSwap[x.Op] {
					add(name, "binop "+x.Op.String()+"->"+r, x.OpPos, x.OpPos+token.Pos(len(x.Op.String())), r)
				}
			case *ast.IfStmt:
				c := string(b[off(x.Cond.Pos()):off(x.Cond.End())])
				add(name, "negate-if", x.Cond.Pos(), x.Cond.End(), "!("+c+")")
			case *ast.BasicLit:
				if x.Kind == token.INT {
					if v, err := strconv.ParseInt(x.Value, 0, 64); err == nil {
						add(name, "int-literal+1", x.Pos(), x.End(), strconv.FormatInt(v+1, 10))
						if v > 0 {
							add(name, "int-literal-1", x.Pos(), x.End(), strconv.FormatInt(v-1, 10))
						}
					}
				}
			case *ast.BlockStmt:
				for _, st := range x.List {
					delStmt(st, name, add, b, off)
				}
			case *ast.CaseClause:
				for _, st := range x.Body {
					delStmt(st, name, add, b, off)
				}
			case *ast.UnaryExpr:
				if x.Op == token.NOT {
					add(name, "drop-not", x.OpPos, x.OpPos+1, "")
				}
			}
			return true
		})
	}
	return out
}

func delStmt(st ast.Stmt, fn string, add func(string, string, token.Pos, token.Pos, string), b []byte, off func(token.Pos) int) {
	switch s := st.(type) {
	case *ast.ExprStmt:
		if call, ok := s.X.(*ast.CallExpr); ok {
			if id, ok := call.Fun.(*ast.Ident); ok && strings.HasPrefix(id.Name, "verifPoint") {
				return
			}
		}
		add(fn, "delete-call", s.Pos(), s.End(), "")
	case *ast.AssignStmt:
		if s.Tok != token.DEFINE {
			add(fn, "delete-assign", s.Pos(), s.End(), "")
		}
	case *ast.IncDecStmt:
		add(fn, "delete-incdec", s.Pos(), s.End(), "")
	case *ast.BranchStmt:
		if s.Tok == token.BREAK || s.Tok == token.CONTINUE {
			add(fn, "delete-"+s.Tok.String(), s.Pos(), s.End(), "")
		}
	case *ast.DeferStmt:
		add(fn, "delete-defer", s.Pos(), s.End(), "")
	case *ast.GoStmt:
		// run the goroutine body synchronously
		add(fn, "go->call", s.Pos(), s.Pos()+2, "")
	}
}
