package main

// Per-property configuration of the supervisor: which passes run, the evidence rule text, the minimum
// observations below which a run is inconclusive instead of "held".

var stdAssume = []string{
	"the Go toolchain, runtime and race detector are correct",
	"the harness's reference model / strict JSON parser are right (cross-checked against encoding/json and by the monitor self-check on every run)",
	"only executions actually produced are judged: held on what was observed, not verified",
}

var configs = map[string]propCfg{
	"C01": {Level: "exploration", Arch386: true,
		Rule:       "case = one value tree (pinned hostile trees, PRNG trees of depth<=5 built through random construction routes, code-point sweep strings in value and key position); each is serialised with String(), re-parsed, compared slot by slot (kind exact) with the generating tree, Equals both ways, then round-tripped a second time; non-trivial = tree with >=2 nodes; distinct by FNV-64 of the canonical tree",
		Thresholds: []thresh{{"evaluations", 3000, 100000}, {"class/float_whole", 20, 500}, {"class/float_neg_zero", 5, 100}, {"class/float_exp_format", 20, 500}, {"class/str_c0_control", 20, 500}, {"class/str_ufffd", 5, 100}, {"class/str_astral", 20, 500}, {"class/key_empty", 5, 100}, {"sweep_code_points", 60000, 1112064}},
		Assume:     stdAssume},
	"C02": {Level: "exploration",
		Rule:       "case = one value tree (same generator as C01); String() must be accepted by the harness's grammar-exact RFC 8259 parser and by encoding/json, and both decodings must give the tree's data (strings bytewise, ints exactly via big.Rat of the literal, floats as correctly rounded float64 of the literal); non-trivial = tree with >=2 nodes; distinct by canonical tree hash",
		Thresholds: []thresh{{"evaluations", 3000, 100000}, {"class/str_c0_control", 20, 500}, {"class/str_del", 5, 100}, {"class/str_u2028_9", 5, 100}, {"class/str_astral", 20, 500}, {"class/key_c0_control", 5, 100}, {"sweep_code_points", 60000, 1112064}},
		Assume:     stdAssume},
	"C16": {Level: "exploration",
		Rule:       "case = one value tree x all 11 legal indents (exhaustive over indents) + illegal indents; FormatString output must be non-empty valid JSON (both references), decode to the tree's data and to the data of String(), and be reproduced byte for byte by the harness's own canonical re-indenter; non-trivial = tree with >=2 nodes",
		Thresholds: []thresh{{"evaluations", 1000, 20000}, {"format_calls", 10000, 200000}, {"illegal_indent_calls", 100, 1000}},
		Assume:     stdAssume},
}
