package main

// Per-property configuration of the supervisor: which passes run, the evidence rule text, the minimum
// observations below which a run is inconclusive instead of "held".

var stdAssume = []string{
	"the Go toolchain, runtime and race detector are correct",
	"the harness's reference model / strict JSON parser are right (cross-checked against encoding/json and by the monitor self-check on every run)",
	"only executions actually produced are judged: held on what was observed, not verified",
}

var configs = map[string]propCfg{
	"C01": {Level: "exploration", Arch386: true,
		Rule:       "case = one value tree (pinned hostile trees, PRNG trees of depth<=5 built through random construction routes, code-point sweep strings in value and key position); each is serialised with String(), re-parsed, compared slot by slot (kind exact) with the generating tree, Equals both ways, then round-tripped a second time; non-trivial = tree with >=2 nodes; distinct by FNV-64 of the canonical tree",
		Thresholds: []thresh{{"evaluations", 3000, 100000}, {"class/float_whole", 20, 500}, {"class/float_neg_zero", 5, 100}, {"class/float_exp_format", 20, 500}, {"class/str_c0_control", 20, 500}, {"class/str_ufffd", 5, 100}, {"class/str_astral", 20, 500}, {"class/key_empty", 5, 100}, {"sweep_code_points", 60000, 1112064}},
		Assume:     stdAssume},
	"C02": {Level: "exploration",
		Rule:       "case = one value tree (same generator as C01); String() must be accepted by the harness's grammar-exact RFC 8259 parser and by encoding/json, and both decodings must give the tree's data (strings bytewise, ints exactly via big.Rat of the literal, floats as correctly rounded float64 of the literal); non-trivial = tree with >=2 nodes; distinct by canonical tree hash",
		Thresholds: []thresh{{"evaluations", 3000, 100000}, {"class/str_c0_control", 20, 500}, {"class/str_del", 5, 100}, {"class/str_u2028_9", 5, 100}, {"class/str_astral", 20, 500}, {"class/key_c0_control", 5, 100}, {"sweep_code_points", 60000, 1112064}},
		Assume:     stdAssume},
	"C16": {Level: "exploration",
		Rule:       "case = one value tree x all 11 legal indents (exhaustive over indents) + illegal indents; FormatString output must be non-empty valid JSON (both references), decode to the tree's data and to the data of String(), and be reproduced byte for byte by the harness's own canonical re-indenter; non-trivial = tree with >=2 nodes",
		Thresholds: []thresh{{"evaluations", 1000, 20000}, {"format_calls", 10000, 200000}, {"illegal_indent_calls", 100, 1000}},
		Assume:     stdAssume},
	"C03": {Level: "exploration", Arch386: true,
		Rule:       "case = one RFC 8259 document rendered by the harness's own derivation generator (random whitespace at every legal position, every escape spelling incl. surrogate pairs, ~16 number spelling families, duplicate keys, depth to 50000) from a tree that is the ground truth; references (strict parser, encoding/json) are consulted first and a disagreement among them is a harness fault; the library's tree is compared slot by slot (ints exact, floats ==, strings bytewise); escape sweep = every scalar value x 4 spellings in value and key position; non-trivial = tree with >=2 nodes; distinct by document text hash",
		Thresholds: []thresh{{"evaluations", 5000, 200000}, {"docs_with_u_escape", 500, 20000}, {"docs_with_escaped_slash", 50, 2000}, {"docs_with_surrogate_pair", 100, 5000}, {"docs_heavy_whitespace", 500, 20000}, {"number_literals", 5000, 200000}, {"escape_sweep_spellings", 30000, 4000000}},
		Assume:     stdAssume},
	"C04": {Level: "exploration", Arch386: false,
		Rule:       "case = one byte string given to both parsers (random bytes, token soup incl. every ill-formed UTF-8 class, structure-aware mutations of valid documents) judged by the outcome predicate (no panic / fatal error, exactly one of container and error non-nil, container usable, second run identical); plus every cut point of String() of hostile trees (must be rejected), every ill-formed UTF-8 class injected at every byte offset inside the root brackets (must be rejected), ParseFile vs ParseObject on file contents, unreadable paths, an EIO read fault injected with strace, a nesting-depth sweep and a reduced-stack probe in an isolated child; termination is judged by RLIMIT_CPU with a confirmation re-run; distinct by input hash",
		Thresholds: []thresh{{"evaluations", 100000, 3000000}, {"prefix_cuts", 5000, 100000}, {"illformed_injections", 5000, 200000}, {"parsefile_calls", 100, 3000}, {"badpath_calls", 5, 5}, {"inputs_invalid_utf8", 10000, 300000}, {"soup_accepted_list", 100, 3000}, {"soup_accepted_object", 100, 3000}, {"stackprobe_runs", 2, 2}},
		Assume:     append([]string{"strace/ptrace may be unavailable: the read-fault sub-check then counts as skipped (see observed.readfault_skipped)"}, stdAssume...)},
	"C20": {Level: "exploration",
		Rule:       "case = one document with exactly one injected syntax error at a known byte offset (K1 invalid literal in value position, K2 garbage where a key must start, K3 wrong character instead of ':', K4 stray character after a nested container in an object) at any depth, newlines at random legal positions, optional preamble with newlines before the root bracket; the cited line must be the line of the detection character (the stray character itself for K2-K4, the ',' ']' '}' that terminates the invalid literal for K1), counted from byte 0 of the input; cases whose message does not quote the injected token are vacuous and only counted; distinct by document hash",
		Thresholds: []thresh{{"line_citing_errors", 2000, 150000}, {"kind/K1", 300, 20000}, {"kind/K2", 150, 10000}, {"kind/K3", 150, 10000}, {"kind/K4", 100, 5000}, {"max_line_cited", 8, 15}, {"via_parsefile", 10, 1000}},
		Assume:     stdAssume},
	"C05": {Level: "exploration", RaceSmoke: true,
		Rule:       "case = one program of list operations (constructors, Add, Insert, Replace, Delete, Pop, Clear, Reverse, Sort, SubList, Concat and all observers, boundary-biased valid and invalid arguments) generated against the reference model only, over a heap of 2-5 lists and 0-2 objects nested acyclically with aliasing; after EVERY step every live container is compared with the model through the public API (length, per-slot kind and value, identity of nested containers) and panics are predicted exactly; non-trivial = program with >=5 steps; distinct by FNV-64 of the program text",
		Thresholds: []thresh{{"evaluations", 1000, 40000}, {"steps", 30000, 2000000}, {"predicted_panics", 1000, 50000}, {"set:ops", 18, 18}, {"hook_spare_capacity_observations", 1000, 50000}},
		Assume:     append([]string{"Sort is exercised only inside the domain C17 defines and without mixed +0/-0; multi-index Delete only with distinct valid indices"}, stdAssume...)},
	"C06": {Level: "exploration",
		Rule:       "case = one program of object operations (NewObject/NewObjectFrom incl. typed maps, Set with duplicate keys / odd counts / non-string keys, Unset, Clear, Merge, Pluck and all observers) with hostile keys (empty, '.', '#', quotes, NUL, non-ASCII) generated against the reference map model over a heap of 2-4 objects and 0-2 lists nested acyclically; after EVERY step every live container is compared with the model through the public API and panics are predicted exactly; nested containers inside Merge/Pluck results may be shared or copied (statement silent) and are adopted; non-trivial = program with >=5 steps; distinct by FNV-64 of the program text",
		Thresholds: []thresh{{"evaluations", 1000, 40000}, {"steps", 30000, 2000000}, {"predicted_panics", 1000, 50000}, {"set:ops", 20, 20}},
		Assume:     stdAssume},
	"C07": {Level: "exploration",
		Rule:       "case = a pair of trees that differ by exactly one edit at a random depth (look-alike kind swap, scalar nudged incl. floats by 1..6000 ulp, key renamed with the count kept, element appended/removed, two elements swapped, keys re-inserted in permuted order, nil swapped) built separately through random construction routes, or a triple from a small pool; Equals must equal typed structural equality of the generating trees in both directions, be reflexive, hold for a separately built copy, never panic and leave both operands unchanged; triples check transitivity; distinct by canonical pair hash",
		Thresholds: []thresh{{"evaluations", 4000, 200000}, {"equal_pairs", 500, 20000}, {"unequal_pairs", 2000, 100000}, {"transitive_premises", 100, 5000}},
		Assume:     append([]string{"NaN-free data; plain (non-derived) containers"}, stdAssume...)},
	"C08": {Level: "exploration",
		Rule:       "case = one container tree (depth<=6, random construction routes) cloned once, then a history of 20/30 mutations applied at random nodes of the original or of the clone through methods (Add, Insert, Replace, Delete, Pop, Reverse, Clear, Set, Unset) and tree-form writes (SetTF incl. paths that create intermediates, UnsetTF); oracle: clone Equals and has the tree's content, the sets of container identities reachable from both sides are disjoint (roots included, re-checked after every mutation), and after every mutation the OTHER side's full snapshot (content + identities) is unchanged; distinct by canonical tree hash",
		Thresholds: []thresh{{"evaluations", 800, 30000}, {"mutations", 10000, 600000}, {"tree_form_mutations", 1000, 60000}, {"containers_compared", 1500, 60000}, {"max_depth", 5, 6}},
		Assume:     stdAssume},
}
