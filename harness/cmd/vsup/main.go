// vsup is the supervisor: it rebuilds the worker from the current /repo tree, runs the monitor shards as child
// processes, triages crashes and race reports, matches known findings, writes evidence and replay files and
// turns everything into the exit code / VIOLATION lines of the check interface.
// It deliberately does not import the library, so it still runs when /repo does not compile.
package main

import (
	"bytes"
	"encoding/binary"
	"encoding/json"
	"flag"
	"fmt"
	"os"
	"os/exec"
	"path/filepath"
	"regexp"
	"runtime"
	"sort"
	"strconv"
	"strings"
	"sync"
	"syscall"
	"time"

	"verifharness/internal/fw"
)

type pass struct {
	Cover  bool
	Name   string
	GOARCH string
	Race   bool
	Shards int
	Env    []string
	Tier   string // when set, the tier this pass runs at whatever the check's tier is
}

func (p pass) tierFor(tier string) string {
	if p.Tier != "" {
		return p.Tier
	}
	return tier
}

type propCfg struct {
	Level       string
	Rule        string
	Race        bool     // main pass built with -race
	Arch386     bool     // additional GOARCH=386 pass
	RaceSmoke   bool     // additional -race pass in the thorough tier
	Thresholds  []thresh // minimum observations, else inconclusive
	Assume      []string
	QuickShards int
}

type thresh struct {
	Counter string
	Quick   int64
	Thor    int64
}

var (
	verifDir = flag.String("verif", "/verif", "verification directory")
	repoDir  = flag.String("repo", "", "library directory (default /repo or $VERIF_REPO)")
	propID   = flag.String("prop", "", "property id")
	tierFlag = flag.String("tier", "quick", "quick|thorough")
	seedFlag = flag.Uint64("seed", 1, "seed")
	replay   = flag.String("replay", "", "replay file")
	keepWork = flag.Bool("keep", false, "keep the scratch directory")
)

func main() {
	flag.Parse()
	if *repoDir == "" {
		*repoDir = os.Getenv("VERIF_REPO")
		if *repoDir == "" {
			*repoDir = "/repo"
		}
	}
	if *replay != "" {
		os.Exit(doReplay(*replay))
	}
	cfg, ok := configs[*propID]
	if !ok {
		fmt.Fprintf(os.Stderr, "unknown property %q\n", *propID)
		os.Exit(2)
	}
	os.Exit(run(*propID, cfg, *tierFlag, *seedFlag))
}

func goEnv(extra ...string) []string {
	env := os.Environ()
	env = append(env, "GOFLAGS=-mod=mod", "GOPROXY=off", "GOSUMDB=off", "GOTOOLCHAIN=local", "CGO_ENABLED=1")
	return append(env, extra...)
}

// buildWorker compiles the worker against the library in repo. Returns the binary path and whether hooks are on.
func buildWorker(buildDir, repo string, p pass) (bin string, hooks bool, out string, err error) {
	os.MkdirAll(buildDir, 0o755)
	harness := filepath.Join(*verifDir, "harness")
	modfile := filepath.Join(buildDir, "go.mod")
	mod := "module verifharness\n\ngo 1.23\n\nrequire github.com/DanielSvub/anytype v0.0.0\n\nreplace github.com/DanielSvub/anytype => " + repo + "\n"
	if err := os.WriteFile(modfile, []byte(mod), 0o644); err != nil {
		return "", false, "", err
	}
	os.WriteFile(filepath.Join(buildDir, "go.sum"), nil, 0o644)
	bin = filepath.Join(buildDir, "worker-"+p.Name)
	try := func(tags string) (string, error) {
		args := []string{"build", "-modfile=" + modfile}
		if tags != "" {
			args = append(args, "-tags", tags)
		}
		if p.Race {
			args = append(args, "-race")
		}
		if p.Cover {
			args = append(args, "-cover", "-coverpkg=github.com/DanielSvub/anytype,verifharness/cmd/worker")
		}
		args = append(args, "-o", bin, "./cmd/worker")
		cmd := exec.Command("go", args...)
		cmd.Dir = harness
		env := goEnv()
		if p.GOARCH != "" {
			env = append(env, "GOARCH="+p.GOARCH, "CGO_ENABLED=0")
		}
		cmd.Env = env
		b, err := cmd.CombinedOutput()
		return string(b), err
	}
	o, err := try("verif")
	if err == nil {
		return bin, true, o, nil
	}
	o2, err2 := try("")
	if err2 == nil {
		return bin, false, o + "\n(retried without hooks)\n" + o2, nil
	}
	return "", false, o + "\n" + o2, err2
}

type shardRun struct {
	Pass     pass
	Shard    int
	Result   *fw.Result
	ExitCode int
	Signal   string
	Log      string
	Marker   string
	Crashed  bool
	TimedOut bool
}

func runChild(bin string, args []string, env []string, logPath string, wall time.Duration) (exit int, sig string, timedOut bool) {
	lf, _ := os.Create(logPath)
	defer lf.Close()
	cmd := exec.Command(bin, args...)
	cmd.Stdout = lf
	cmd.Stderr = lf
	cmd.Env = append(os.Environ(), env...)
	if err := cmd.Start(); err != nil {
		fmt.Fprintf(lf, "start: %v\n", err)
		return 127, "", false
	}
	done := make(chan error, 1)
	go func() { done <- cmd.Wait() }()
	var err error
	select {
	case err = <-done:
	case <-time.After(wall):
		timedOut = true
		cmd.Process.Signal(syscall.SIGQUIT)
		select {
		case err = <-done:
		case <-time.After(10 * time.Second):
			cmd.Process.Kill()
			err = <-done
		}
	}
	if err == nil {
		return 0, "", timedOut
	}
	if ee, ok := err.(*exec.ExitError); ok {
		if ws, ok := ee.Sys().(syscall.WaitStatus); ok && ws.Signaled() {
			return -1, ws.Signal().String(), timedOut
		}
		return ee.ExitCode(), "", timedOut
	}
	return 127, "", timedOut
}

func readResult(path string) *fw.Result {
	b, err := os.ReadFile(path)
	if err != nil {
		return nil
	}
	var r fw.Result
	if json.Unmarshal(b, &r) != nil || !r.Done {
		return nil
	}
	return &r
}

func tail(path string, n int) string {
	b, err := os.ReadFile(path)
	if err != nil {
		return ""
	}
	if len(b) > n {
		b = b[len(b)-n:]
	}
	return string(b)
}

func head(path string, n int) string {
	b, err := os.ReadFile(path)
	if err != nil {
		return ""
	}
	if len(b) > n {
		b = b[:n]
	}
	return string(b)
}

var fatalRe = regexp.MustCompile(`(?m)^(fatal error: [^\n]*|panic: [^\n]*|runtime: goroutine stack exceeds[^\n]*)`)

func classifyCrash(log string, sig string, exit int) string {
	if m := fatalRe.FindString(log); m != "" {
		m = strings.TrimSpace(m)
		switch {
		case strings.Contains(m, "stack overflow") || strings.Contains(m, "stack exceeds"):
			return "fatal-stack-overflow"
		case strings.Contains(m, "concurrent map"):
			return "fatal-concurrent-map-access"
		case strings.Contains(m, "all goroutines are asleep"):
			return "fatal-deadlock"
		case strings.HasPrefix(m, "panic:"):
			return "fatal-panic"
		}
		return "fatal-error"
	}
	if sig == "killed" || sig == "CPU time limit exceeded" || strings.Contains(sig, "xcpu") {
		return "cpu-limit"
	}
	return fmt.Sprintf("child-died(exit=%d,signal=%s)", exit, sig)
}

func run(prop string, cfg propCfg, tier string, seed uint64) int {
	t0 := time.Now()
	// scratch directories are private to this invocation (two runs of the same property at the same time must not
	// rebuild each other's worker binary while it executes); the Go build cache keeps the rebuild cheap
	tag := fmt.Sprintf("%s.%d", prop, os.Getpid())
	workDir := filepath.Join(*verifDir, ".work", tag)
	buildDir := filepath.Join(*verifDir, ".build", tag)
	os.RemoveAll(workDir)
	os.MkdirAll(workDir, 0o755)
	if !*keepWork {
		defer os.RemoveAll(workDir)
		defer os.RemoveAll(buildDir)
	}
	os.MkdirAll(evidenceDir(), 0o755)
	os.MkdirAll(filepath.Join(*verifDir, "replays"), 0o755)

	ncpu := runtime.NumCPU()
	mainShards := ncpu - 2
	if mainShards < 1 {
		mainShards = 1
	}
	if mainShards > 14 {
		mainShards = 14
	}
	if tier == "quick" && cfg.QuickShards > 0 && cfg.QuickShards < mainShards {
		mainShards = cfg.QuickShards
	}
	// The deciding pass is built WITHOUT coverage instrumentation: `go build -cover` compiles the instrumented copy of a
	// `go 1.18` module with per-iteration loop variables, i.e. with other semantics than a user of the library gets (a
	// goroutine closure capturing a range variable behaves correctly in the instrumented build only). Coverage is taken by
	// a separate pass that repeats the quick-scale workload; its verdicts count as well.
	passes := []pass{{Name: "main", Race: cfg.Race, Shards: mainShards}}
	if os.Getenv("VERIF_NOCOVER") == "" {
		passes = append(passes, pass{Name: "cov", Cover: true, Shards: mainShards, Tier: "quick"})
	}
	if cfg.Arch386 {
		n := 2
		if tier == "thorough" {
			n = 6
		}
		passes = append(passes, pass{Name: "386", GOARCH: "386", Shards: n})
	}
	if cfg.RaceSmoke && tier == "thorough" && !cfg.Race {
		passes = append(passes, pass{Name: "race", Race: true, Shards: 4, Env: []string{"VERIF_SMOKE=1"}})
	}

	var inconclusive []string
	hooksState := "on"
	bins := map[string]string{}
	for _, p := range passes {
		bin, hooks, out, err := buildWorker(buildDir, *repoDir, p)
		if err != nil {
			fmt.Printf("BUILD-FAILED property=%s pass=%s: the worker could not be built from %s\n%s\n", prop, p.Name, *repoDir, out)
			writeEvidence(prop, cfg, tier, seed, nil, time.Since(t0), 0, []string{"worker build failed: " + firstLines(out, 5)}, hooksState, nil, nil)
			return 2
		}
		if !hooks {
			hooksState = "unavailable (built without the verif tag)"
		}
		bins[p.Name] = bin
	}

	// self-check of the monitor (fabricated bad observations must be flagged)
	{
		logp := filepath.Join(workDir, "selfcheck.log")
		exit, sig, to := runChild(bins["main"], []string{"-prop", prop, "-selfcheck"}, nil, logp, 2*time.Minute)
		if exit != 0 || sig != "" || to {
			inconclusive = append(inconclusive, "monitor self-check failed: "+tail(logp, 2000))
		}
	}

	wall := 15 * time.Minute
	cpuLimit := 240
	if tier == "thorough" {
		wall = 90 * time.Minute
		cpuLimit = 4000
	}

	covDir := filepath.Join(workDir, "cov")
	os.MkdirAll(covDir, 0o755)
	var runs []*shardRun
	var mu sync.Mutex
	var wg sync.WaitGroup
	sem := make(chan struct{}, ncpu)
	for _, p := range passes {
		for s := 0; s < p.Shards; s++ {
			p, s := p, s
			wg.Add(1)
			go func() {
				defer wg.Done()
				sem <- struct{}{}
				defer func() { <-sem }()
				tag := fmt.Sprintf("%s.%d", p.Name, s)
				sr := &shardRun{Pass: p, Shard: s, Log: filepath.Join(workDir, "log."+tag), Marker: filepath.Join(workDir, "marker."+tag)}
				resPath := filepath.Join(workDir, "res."+tag+".json")
				args := []string{"-prop", prop, "-tier", p.tierFor(tier), "-seed", strconv.FormatUint(seed, 10), "-shard", strconv.Itoa(s), "-nshards", strconv.Itoa(p.Shards),
					"-out", resPath, "-marker", sr.Marker, "-cpulimit", strconv.Itoa(cpuLimit), "-workdir", workDir}
				env := append([]string{}, p.Env...)
				if p.Race {
					args = append(args, "-race")
					env = append(env, "GORACE=halt_on_error=0 log_path="+filepath.Join(workDir, "race."+tag))
				} else if p.GOARCH == "" {
					// a runaway allocation ends the child quickly instead of eating the machine (the race runtime needs a
					// huge address space, so no limit there)
					args = append(args, "-aslimit", "16384")
				}
				if p.Cover {
					env = append(env, "GOCOVERDIR="+covDir)
				}
				sr.ExitCode, sr.Signal, sr.TimedOut = runChild(bins[p.Name], args, env, sr.Log, wall)
				sr.Result = readResult(resPath)
				if sr.Result == nil {
					sr.Crashed = true
				}
				mu.Lock()
				runs = append(runs, sr)
				mu.Unlock()
			}()
		}
	}
	wg.Wait()
	sort.Slice(runs, func(i, j int) bool {
		if runs[i].Pass.Name != runs[j].Pass.Name {
			if runs[i].Pass.Name == "main" || runs[j].Pass.Name == "main" {
				return runs[i].Pass.Name == "main"
			}
			return runs[i].Pass.Name < runs[j].Pass.Name
		}
		return runs[i].Shard < runs[j].Shard
	})

	agg := &fw.Result{Property: prop, Counters: map[string]int64{}, Sets: map[string][]string{}}
	sets := map[string]map[string]struct{}{}
	hashes := map[uint64]struct{}{}
	var viols []fw.Violation
	for _, sr := range runs {
		if sr.TimedOut {
			inconclusive = append(inconclusive, fmt.Sprintf("pass %s shard %d: wall-clock watchdog fired (not a verdict)", sr.Pass.Name, sr.Shard))
			continue
		}
		if sr.Crashed {
			v, inc := triageCrash(prop, tier, seed, sr, bins[sr.Pass.Name], workDir)
			if v != nil {
				viols = append(viols, *v)
			}
			if inc != "" {
				inconclusive = append(inconclusive, inc)
			}
			continue
		}
		r := sr.Result
		agg.Evaluations += r.Evaluations
		agg.ViolTotal += r.ViolTotal
		for k, v := range r.Counters {
			if strings.HasPrefix(k, "max_") {
				if agg.Counters[k] < v {
					agg.Counters[k] = v
				}
			} else {
				agg.Counters[k] += v
			}
			if sr.Pass.Name != "main" {
				agg.Counters["pass_"+sr.Pass.Name+"/evaluations"] += 0
			}
		}
		agg.Counters["pass_"+sr.Pass.Name+"/evaluations"] += r.Evaluations
		for name, l := range r.Sets {
			m := sets[name]
			if m == nil {
				m = map[string]struct{}{}
				sets[name] = m
			}
			for _, x := range l {
				m[x] = struct{}{}
			}
		}
		for i := range r.Violations {
			v := r.Violations[i]
			if sr.Pass.Name != "main" {
				v.Sub = sr.Pass.Name + ":" + v.Sub
			}
			viols = append(viols, v)
		}
		if len(agg.Samples) < 5 {
			for _, s := range r.Samples {
				if len(agg.Samples) < 5 {
					agg.Samples = append(agg.Samples, s)
				}
			}
		}
		inconclusive = append(inconclusive, r.Inconclusive...)
		if hb, err := os.ReadFile(r.HashFile); err == nil {
			for i := 0; i+8 <= len(hb); i += 8 {
				hashes[binary.LittleEndian.Uint64(hb[i:])] = struct{}{}
			}
		}
	}
	for name, m := range sets {
		l := make([]string, 0, len(m))
		for k := range m {
			l = append(l, k)
		}
		sort.Strings(l)
		agg.Sets[name] = l
	}

	// race reports
	raceViol, raceInc, raceCount := triageRaces(prop, tier, seed, workDir)
	viols = append(viols, raceViol...)
	inconclusive = append(inconclusive, raceInc...)
	for _, p := range passes {
		if p.Race {
			agg.Counters["race_detector_reports"] = int64(raceCount)
		}
	}

	// library coverage reached by this run (evidence only)
	libCov := coverageSummary(covDir, workDir)

	// thresholds
	for _, th := range cfg.Thresholds {
		min := th.Quick
		if tier == "thorough" {
			min = th.Thor
		}
		var have int64
		if th.Counter == "evaluations" {
			have = agg.Evaluations
		} else if strings.HasPrefix(th.Counter, "set:") {
			have = int64(len(agg.Sets[strings.TrimPrefix(th.Counter, "set:")]))
		} else {
			have = agg.Counters[th.Counter]
		}
		if have < min && hooksState == "on" || have < min && !strings.HasPrefix(th.Counter, "hook") {
			if len(viols) == 0 {
				inconclusive = append(inconclusive, fmt.Sprintf("too few observations: %s = %d, need >= %d", th.Counter, have, min))
			}
		}
	}

	// known findings
	known := loadKnown(filepath.Join(*verifDir, "KNOWN_FINDINGS.txt"), prop)
	knownHit := map[string]bool{}
	var fresh []fw.Violation
	for _, v := range viols {
		if kf, ok := known[v.Sig]; ok {
			if !knownHit[v.Sig] {
				knownHit[v.Sig] = true
				fmt.Printf("KNOWN-FINDING: property=%s %s\n", prop, kf)
			}
			continue
		}
		fresh = append(fresh, v)
	}

	// replay files + VIOLATION lines (one per signature, capped)
	seenSig := map[string]bool{}
	printed := 0
	for _, v := range fresh {
		if seenSig[v.Sig] {
			continue
		}
		seenSig[v.Sig] = true
		if printed >= 10 {
			continue
		}
		printed++
		name := fmt.Sprintf("%s-%s-s%d-%s-c%d-%s.json", prop, tier, seed, sanitize(v.Sub), v.Case, sanitize(v.Sig))
		path := filepath.Join(*verifDir, "replays", name)
		b, _ := json.MarshalIndent(map[string]any{"property": prop, "tier": tier, "seed": seed, "workload": v.Sub, "case": v.Case, "signature": v.Sig,
			"input": v.Input, "expected": v.Expected, "observed": v.Observed, "extra": v.Extra,
			"replay": fmt.Sprintf("./check.sh replay %s", path)}, "", " ")
		os.WriteFile(path, b, 0o644)
		fmt.Printf("VIOLATION property=%s replay=%s\n", prop, path)
		fmt.Printf("  signature: %s\n  input:     %s\n  expected:  %s\n  observed:  %s\n", v.Sig, oneLine(v.Input, 400), oneLine(v.Expected, 300), oneLine(v.Observed, 400))
	}

	var knownList []string
	for k := range knownHit {
		knownList = append(knownList, k)
	}
	sort.Strings(knownList)
	if agg.Sets == nil {
		agg.Sets = map[string][]string{}
	}
	agg.Sets["library_blocks_executed"] = libCov
	writeEvidence(prop, cfg, tier, seed, agg, time.Since(t0), len(fresh), inconclusive, hooksState, knownList, hashes)

	if !*keepWork && len(fresh) == 0 && len(inconclusive) == 0 {
		os.RemoveAll(workDir)
	}
	if len(fresh) > 0 {
		fmt.Printf("RESULT property=%s tier=%s seed=%d: %d violation(s) in %d evaluations (%d distinct signatures)\n", prop, tier, seed, len(fresh), agg.Evaluations, len(seenSig))
		return 1
	}
	if len(inconclusive) > 0 {
		fmt.Printf("INCONCLUSIVE property=%s tier=%s seed=%d:\n", prop, tier, seed)
		for i, s := range inconclusive {
			if i >= 8 {
				break
			}
			fmt.Printf("  - %s\n", oneLine(s, 600))
		}
		return 3
	}
	fmt.Printf("OK property=%s tier=%s seed=%d: held on %d evaluations (%d distinct non-trivial), hooks %s, %.1fs\n", prop, tier, seed, agg.Evaluations, len(hashes), hooksState, time.Since(t0).Seconds())
	return 0
}

func sanitize(s string) string {
	var b strings.Builder
	for _, r := range s {
		if (r >= 'a' && r <= 'z') || (r >= 'A' && r <= 'Z') || (r >= '0' && r <= '9') || r == '-' || r == '_' {
			b.WriteRune(r)
		} else {
			b.WriteByte('_')
		}
	}
	out := b.String()
	if len(out) > 60 {
		out = out[:60]
	}
	return out
}

func oneLine(s string, n int) string {
	s = strings.ReplaceAll(s, "\n", " | ")
	if len(s) > n {
		s = s[:n] + "..."
	}
	return strconv.QuoteToASCII(s)
}

func firstLines(s string, n int) string {
	l := strings.Split(s, "\n")
	if len(l) > n {
		l = l[:n]
	}
	return strings.Join(l, " | ")
}

// triageCrash turns a dead worker into a violation (with the marked case as witness) or an inconclusive note.
func triageCrash(prop, tier string, seed uint64, sr *shardRun, bin, workDir string) (*fw.Violation, string) {
	log := tail(sr.Log, 60000)
	kind := classifyCrash(log, sr.Signal, sr.ExitCode)
	sub, idx, input, ok := fw.ReadMarker(sr.Marker)
	if !ok {
		return nil, fmt.Sprintf("pass %s shard %d died (%s) before any case was marked: %s", sr.Pass.Name, sr.Shard, kind, oneLine(tail(sr.Log, 1500), 1500))
	}
	// confirm with a fresh child running only the marked case
	tag := fmt.Sprintf("confirm.%s.%d", sr.Pass.Name, sr.Shard)
	logp := filepath.Join(workDir, "log."+tag)
	resp := filepath.Join(workDir, "res."+tag+".json")
	args := []string{"-prop", prop, "-tier", sr.Pass.tierFor(tier), "-seed", strconv.FormatUint(seed, 10), "-only", sub + ":" + strconv.Itoa(idx), "-out", resp,
		"-marker", filepath.Join(workDir, "marker."+tag), "-cpulimit", "60", "-workdir", workDir}
	env := append([]string{}, sr.Pass.Env...)
	if sr.Pass.Race {
		args = append(args, "-race")
		env = append(env, "GORACE=halt_on_error=0 log_path="+filepath.Join(workDir, "race."+tag))
	}
	exit, sig, to := runChild(bin, args, env, logp, 5*time.Minute)
	reproduced := readResult(resp) == nil && !to
	kind2 := ""
	if reproduced {
		kind2 = classifyCrash(tail(logp, 60000), sig, exit)
	}
	isFatal := strings.HasPrefix(kind, "fatal-")
	if !reproduced && !isFatal {
		return nil, fmt.Sprintf("pass %s shard %d died (%s) at %s:%d but the case alone does not reproduce it", sr.Pass.Name, sr.Shard, kind, sub, idx)
	}
	if kind == "cpu-limit" && kind2 != "cpu-limit" {
		return nil, fmt.Sprintf("pass %s shard %d hit the CPU limit at %s:%d; the case alone finishes — inconclusive", sr.Pass.Name, sr.Shard, sub, idx)
	}
	sigKey := kind
	if kind == "cpu-limit" {
		sigKey = "non-termination"
	}
	if kind == "fatal-stack-overflow" && input != "" {
		// refine: deep nesting inputs get their own key (known finding D9)
		opens := strings.Count(input, "[") + strings.Count(input, "{")
		if opens > 50000 {
			sigKey = "stack-overflow-deep-nesting"
		}
	}
	subName := sub
	if sr.Pass.Name != "main" {
		subName = sr.Pass.Name + ":" + sub
	}
	obs := firstLines(fatalRe.FindString(log), 1)
	if obs == "" {
		obs = kind
	}
	return &fw.Violation{Property: prop, Sig: sigKey, Sub: subName, Case: idx, Seed: seed, Tier: sr.Pass.tierFor(tier),
		Input: truncate(input, 20000), Expected: "the call returns (no process-fatal error, terminates)",
		Observed: fmt.Sprintf("%s (reproduced alone: %v %s)", obs, reproduced, kind2),
		Extra:    truncate(stackExcerpt(log), 4000)}, ""
}

func truncate(s string, n int) string {
	if len(s) > n {
		return s[:n] + fmt.Sprintf("...(%d bytes)", len(s))
	}
	return s
}

func stackExcerpt(log string) string {
	i := strings.Index(log, "fatal error:")
	if i < 0 {
		i = strings.Index(log, "panic:")
	}
	if i < 0 {
		return tailStr(log, 3000)
	}
	e := log[i:]
	if len(e) > 3500 {
		e = e[:3500]
	}
	return e
}

func tailStr(s string, n int) string {
	if len(s) > n {
		return s[len(s)-n:]
	}
	return s
}

// triageRaces parses the race detector logs. A report whose racing accesses are in library code is a violation;
// a report located purely in harness code is a harness fault (inconclusive).
func triageRaces(prop, tier string, seed uint64, workDir string) (viols []fw.Violation, inc []string, total int) {
	files, _ := filepath.Glob(filepath.Join(workDir, "race.*"))
	seen := map[string]bool{}
	for _, f := range files {
		b, err := os.ReadFile(f)
		if err != nil {
			continue
		}
		reports := strings.Split(string(b), "==================")
		for _, rep := range reports {
			if !strings.Contains(rep, "WARNING: DATA RACE") {
				continue
			}
			total++
			frames := accessFrames(rep)
			lib := false
			var key []string
			for _, fr := range frames {
				key = append(key, stripLine(fr))
				if strings.Contains(fr, "github.com/DanielSvub/anytype.") {
					lib = true
				}
			}
			k := strings.Join(key, " <-> ")
			if seen[k] {
				continue
			}
			seen[k] = true
			if lib {
				viols = append(viols, fw.Violation{Property: prop, Sig: "data-race:" + k, Sub: "race-detector", Case: 0, Seed: seed, Tier: tier,
					Input: "race detector report in " + filepath.Base(f), Expected: "no data race in library code", Observed: truncate(strings.TrimSpace(rep), 5000)})
			} else {
				inc = append(inc, "race report outside library code (harness fault): "+truncate(strings.TrimSpace(rep), 1500))
			}
		}
	}
	return
}

var accessHdr = regexp.MustCompile(`(?m)^(Read|Write|Previous read|Previous write|Atomic read|Atomic write|Previous atomic read|Previous atomic write) at 0x[0-9a-f]+ by .*:$`)

// accessFrames returns, for each of the two racing accesses, the first frame that is not in the runtime.
func accessFrames(rep string) []string {
	var out []string
	locs := accessHdr.FindAllStringIndex(rep, -1)
	for _, loc := range locs {
		rest := rep[loc[1]:]
		lines := strings.Split(rest, "\n")
		frame := ""
		for i := 0; i < len(lines); i++ {
			l := strings.TrimSpace(lines[i])
			if l == "" {
				if frame != "" || i > 0 {
					break
				}
				continue
			}
			if strings.HasPrefix(l, "/") || strings.HasPrefix(l, "<") {
				continue // file:line of the previous frame
			}
			if strings.HasPrefix(l, "runtime.") || strings.HasPrefix(l, "sync.") || strings.HasPrefix(l, "sync/atomic.") || strings.HasPrefix(l, "internal/") || strings.HasPrefix(l, "reflect.") {
				continue
			}
			frame = l
			break
		}
		if frame == "" {
			frame = "?"
		}
		out = append(out, frame)
	}
	return out
}

func stripLine(fr string) string {
	if i := strings.Index(fr, "("); i > 0 && strings.HasSuffix(fr, ")") && !strings.Contains(fr[i:], "*") {
		return fr
	}
	return fr
}

// coverageSummary converts the coverage counters the children flushed into "file: hit/total blocks" lines for the
// library's files (evidence of what the workload actually executed; never part of a verdict).
func coverageSummary(covDir, workDir string) []string {
	ents, _ := os.ReadDir(covDir)
	if len(ents) == 0 {
		return []string{"no coverage counters were flushed"}
	}
	txt := filepath.Join(workDir, "cov.txt")
	cmd := exec.Command("go", "tool", "covdata", "textfmt", "-i="+covDir, "-o", txt)
	cmd.Env = goEnv()
	if out, err := cmd.CombinedOutput(); err != nil {
		return []string{"covdata failed: " + firstLines(string(out), 2)}
	}
	b, err := os.ReadFile(txt)
	if err != nil {
		return []string{"no coverage profile"}
	}
	if keep := os.Getenv("VERIF_KEEPCOV"); keep != "" { // development aid: union coverage over all properties
		os.WriteFile(filepath.Join(keep, fmt.Sprintf("cov-%d.txt", os.Getpid())), b, 0o644)
	}
	type ft struct{ hit, total int }
	files := map[string]*ft{}
	for _, line := range strings.Split(string(b), "\n") {
		if !strings.HasPrefix(line, "github.com/DanielSvub/anytype/") {
			continue
		}
		colon := strings.LastIndex(line, ":")
		f := strings.Fields(line[colon+1:])
		if colon < 0 || len(f) != 3 {
			continue
		}
		name := filepath.Base(line[:colon])
		x := files[name]
		if x == nil {
			x = &ft{}
			files[name] = x
		}
		x.total++
		if f[2] != "0" {
			x.hit++
		}
	}
	var out []string
	for name, x := range files {
		out = append(out, fmt.Sprintf("%s: %d/%d blocks", name, x.hit, x.total))
	}
	sort.Strings(out)
	return out
}

func loadKnown(path, prop string) map[string]string {
	out := map[string]string{}
	b, err := os.ReadFile(path)
	if err != nil {
		return out
	}
	for _, line := range strings.Split(string(b), "\n") {
		line = strings.TrimSpace(line)
		if !strings.HasPrefix(line, "open:") {
			continue
		}
		rest := strings.TrimSpace(strings.TrimPrefix(line, "open:"))
		f := strings.Fields(rest)
		if len(f) < 2 || f[0] != "property="+prop || !strings.HasPrefix(f[1], "key=") {
			continue
		}
		key := strings.TrimPrefix(f[1], "key=")
		out[key] = strings.TrimSpace(strings.Join(f[1:], " "))
	}
	return out
}

func writeEvidence(prop string, cfg propCfg, tier string, seed uint64, agg *fw.Result, wall time.Duration, violations int, inconclusive []string, hooks string, known []string, hashes map[uint64]struct{}) {
	cov := map[string]any{}
	if agg != nil {
		cov["evaluations"] = agg.Evaluations
		cov["distinct_nontrivial"] = len(hashes)
		cov["samples"] = agg.Samples
		obs := map[string]int64{}
		for k, v := range agg.Counters {
			obs[k] = v
		}
		cov["observed"] = obs
		setSizes := map[string]any{}
		for k, l := range agg.Sets {
			if len(l) <= 80 {
				setSizes[k] = l
			} else {
				setSizes[k] = map[string]any{"count": len(l), "first": l[:40]}
			}
		}
		cov["observed_sets"] = setSizes
	} else {
		cov["evaluations"] = 0
		cov["distinct_nontrivial"] = 0
		cov["samples"] = []any{}
	}
	if l, ok := cov["samples"].([]any); !ok || l == nil {
		cov["samples"] = []any{}
	}
	if inconclusive == nil {
		inconclusive = []string{}
	}
	if known == nil {
		known = []string{}
	}
	cov["rule"] = cfg.Rule
	cov["hooks"] = hooks
	cov["known_findings_hit"] = known
	cov["inconclusive"] = inconclusive
	cov["verdict"] = "held on what was observed"
	if violations > 0 {
		cov["verdict"] = "violated"
	} else if len(inconclusive) > 0 {
		cov["verdict"] = "inconclusive"
	}
	ev := map[string]any{
		"property_id": prop, "tier": tier, "seed": seed, "level": cfg.Level, "coverage": cov,
		"assumptions": cfg.Assume, "wall_s": float64(int(wall.Seconds()*10)) / 10, "violations": violations,
	}
	b, _ := json.MarshalIndent(ev, "", " ")
	os.WriteFile(filepath.Join(evidenceDir(), prop+".json"), append(b, '\n'), 0o644)
}

// evidenceDir: <verif>/evidence; the development tools that run a check against a scratch copy of the library with a
// change applied (tools/eval_round.sh, tools/confirm_seeded.sh) point VERIF_EVIDENCE_DIR elsewhere, so that the evidence
// directory only ever describes runs against the library itself.
func evidenceDir() string {
	if d := os.Getenv("VERIF_EVIDENCE_DIR"); d != "" {
		return d
	}
	return filepath.Join(*verifDir, "evidence")
}

func doReplay(path string) int {
	b, err := os.ReadFile(path)
	if err != nil {
		fmt.Fprintln(os.Stderr, err)
		return 2
	}
	var rp struct {
		Property string `json:"property"`
		Tier     string `json:"tier"`
		Seed     uint64 `json:"seed"`
		Workload string `json:"workload"`
		Case     int    `json:"case"`
		Sig      string `json:"signature"`
	}
	if err := json.Unmarshal(b, &rp); err != nil {
		fmt.Fprintln(os.Stderr, err)
		return 2
	}
	cfg, ok := configs[rp.Property]
	if !ok {
		fmt.Fprintln(os.Stderr, "unknown property in replay file")
		return 2
	}
	p := pass{Name: "main", Race: cfg.Race}
	sub := rp.Workload
	if i := strings.Index(sub, ":"); i > 0 && (sub[:i] == "386" || sub[:i] == "race" || sub[:i] == "cov") {
		switch sub[:i] {
		case "386":
			p = pass{Name: "386", GOARCH: "386"}
		case "cov":
			p = pass{Name: "cov", Cover: true}
		default:
			p = pass{Name: "race", Race: true}
		}
		sub = sub[i+1:]
	}
	if sub == "race-detector" {
		fmt.Println("race reports are schedule dependent: re-run the check itself (the report text is in the replay file)")
		return 0
	}
	buildDir := filepath.Join(*verifDir, ".build", fmt.Sprintf("%s-replay.%d", rp.Property, os.Getpid()))
	workDir := filepath.Join(*verifDir, ".work", fmt.Sprintf("%s-replay.%d", rp.Property, os.Getpid()))
	defer os.RemoveAll(buildDir)
	defer os.RemoveAll(workDir)
	os.RemoveAll(workDir)
	os.MkdirAll(workDir, 0o755)
	bin, _, out, err := buildWorker(buildDir, *repoDir, p)
	if err != nil {
		fmt.Println("build failed:", out)
		return 2
	}
	resp := filepath.Join(workDir, "res.json")
	logp := filepath.Join(workDir, "log")
	args := []string{"-prop", rp.Property, "-tier", rp.Tier, "-seed", strconv.FormatUint(rp.Seed, 10), "-only", sub + ":" + strconv.Itoa(rp.Case), "-out", resp,
		"-marker", filepath.Join(workDir, "marker"), "-cpulimit", "120", "-workdir", workDir}
	var env []string
	if p.Race {
		args = append(args, "-race")
		env = append(env, "GORACE=halt_on_error=0 log_path="+filepath.Join(workDir, "race.replay"))
	}
	exit, sig, _ := runChild(bin, args, env, logp, 10*time.Minute)
	r := readResult(resp)
	if r == nil {
		fmt.Printf("replay: worker died (exit=%d signal=%s): %s\n", exit, sig, classifyCrash(tail(logp, 60000), sig, exit))
		fmt.Println(tail(logp, 3000))
		fmt.Printf("VIOLATION property=%s replay=%s\n", rp.Property, path)
		return 1
	}
	rv, _, _ := triageRaces(rp.Property, rp.Tier, rp.Seed, workDir)
	vs := append(r.Violations, rv...)
	if len(vs) == 0 {
		fmt.Printf("replay: case %s:%d ran without violation (%d evaluations)\n", sub, rp.Case, r.Evaluations)
		return 0
	}
	for _, v := range vs {
		var buf bytes.Buffer
		fmt.Fprintf(&buf, "signature: %s\ninput:     %s\nexpected:  %s\nobserved:  %s\n", v.Sig, v.Input, v.Expected, v.Observed)
		fmt.Print(buf.String())
	}
	fmt.Printf("VIOLATION property=%s replay=%s\n", rp.Property, path)
	return 1
}
