// worker links the library under test (rebuilt from /repo by the supervisor) and runs one monitor shard.
package main

import (
	"flag"
	"fmt"
	"os"
	"runtime"
	"strconv"
	"strings"
	"syscall"

	"verifharness/internal/fw"
	"verifharness/internal/mon"
)

func main() {
	prop := flag.String("prop", "", "property id")
	tier := flag.String("tier", "quick", "quick|thorough")
	seed := flag.Uint64("seed", 1, "seed")
	shard := flag.Int("shard", 0, "shard index")
	nshards := flag.Int("nshards", 1, "number of shards")
	out := flag.String("out", "", "result file")
	marker := flag.String("marker", "", "crash marker file")
	only := flag.String("only", "", "sub:index — run a single case")
	self := flag.Bool("selfcheck", false, "run the monitor self-check")
	cpu := flag.Int("cpulimit", 0, "RLIMIT_CPU seconds (soft); hard = soft+5")
	asl := flag.Int("aslimit", 0, "RLIMIT_AS in MiB (0 = none); not usable with the race detector")
	race := flag.Bool("race", false, "this binary was built with -race")
	workdir := flag.String("workdir", "", "scratch directory")
	aux := flag.String("aux", "", "auxiliary child entry point")
	flag.Parse()

	if *aux != "" {
		f := mon.Aux[*aux]
		if f == nil {
			fmt.Fprintf(os.Stderr, "unknown aux %q\n", *aux)
			os.Exit(2)
		}
		os.Exit(f(flag.Args()))
	}

	m := mon.All[*prop]
	if m == nil {
		fmt.Fprintf(os.Stderr, "unknown property %q\n", *prop)
		os.Exit(2)
	}
	if *self {
		s := &fw.SelfCheck{}
		if m.Self != nil {
			m.Self(s)
		}
		for _, f := range s.Failures {
			fmt.Println("SELFCHECK-FAIL:", f)
		}
		if len(s.Failures) > 0 {
			os.Exit(3)
		}
		fmt.Println("selfcheck ok")
		return
	}
	if *asl > 0 {
		lim := syscall.Rlimit{Cur: uint64(*asl) << 20, Max: uint64(*asl) << 20}
		syscall.Setrlimit(syscall.RLIMIT_AS, &lim)
	}
	if *cpu > 0 {
		lim := syscall.Rlimit{Cur: uint64(*cpu), Max: uint64(*cpu + 5)}
		syscall.Setrlimit(syscall.RLIMIT_CPU, &lim)
	}
	c := fw.NewCtx(*prop, *tier, *seed, *shard, *nshards, *workdir)
	c.Arch386 = runtime.GOARCH == "386"
	c.Race = *race
	if *only != "" {
		i := strings.LastIndex(*only, ":")
		if i < 0 {
			fmt.Fprintln(os.Stderr, "bad -only")
			os.Exit(2)
		}
		c.OnlySub = (*only)[:i]
		c.Only, _ = strconv.Atoi((*only)[i+1:])
		c.Shard, c.NShards = 0, 1
	}
	if *marker != "" {
		if err := c.OpenMarker(*marker); err != nil {
			fmt.Fprintln(os.Stderr, "marker:", err)
			os.Exit(2)
		}
	}
	m.Run(c)
	if *out != "" {
		if err := c.Finish(*out); err != nil {
			fmt.Fprintln(os.Stderr, "result:", err)
			os.Exit(2)
		}
	}
	if c.Violations() > 0 {
		os.Exit(1)
	}
}
