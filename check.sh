#!/bin/bash
# check.sh <ID> <quick|thorough>     run the monitor of one property against /repo's current working tree
# check.sh replay <file>             re-run the single recorded case of a replay file
# Environment: VERIF_SEED (default 1), VERIF_REPO (library directory, default /repo)
set -u
VERIF="$(cd "$(dirname "${BASH_SOURCE[0]}")" && pwd)"
export GOFLAGS=-mod=mod GOPROXY=off GOSUMDB=off GOTOOLCHAIN=local
ORIG="$(pwd)"
cd "$VERIF/harness" || exit 2
mkdir -p "$VERIF/.build"
if ! go build -o "$VERIF/.build/vsup" ./cmd/vsup 2> "$VERIF/.build/vsup.log"; then
  echo "cannot build the supervisor:"; cat "$VERIF/.build/vsup.log"; exit 2
fi
if [ "${1:-}" = "replay" ]; then
  RP="$2"
  case "$RP" in /*) ;; *) RP="$ORIG/$RP" ;; esac
  exec "$VERIF/.build/vsup" -verif "$VERIF" -replay "$RP"
fi
ID="${1:?property id}"
TIER="${2:-${VERIF_TIER:-quick}}"
exec "$VERIF/.build/vsup" -verif "$VERIF" -prop "$ID" -tier "$TIER" -seed "${VERIF_SEED:-1}"
