#!/bin/bash
# check.sh <ID> <quick|thorough>     run the monitor of one property against /repo's current working tree
# check.sh replay <file>             re-run the single recorded case of a replay file
# Environment: VERIF_SEED (default 1), VERIF_REPO (library directory, default /repo)
set -u
VERIF="$(cd "$(dirname "${BASH_SOURCE[0]}")" && pwd)"
export GOFLAGS=-mod=mod GOPROXY=off GOSUMDB=off GOTOOLCHAIN=local
ORIG="$(pwd)"
cd "$VERIF/harness" || exit 2
mkdir -p "$VERIF/.build"
# leftovers of invocations that were killed (scratch names end in the pid of their owner)
for d in "$VERIF"/.build/*.[0-9]* "$VERIF"/.work/*.[0-9]*; do
  [ -e "$d" ] || continue
  pid="${d##*.}"
  case "$pid" in *[!0-9]*) continue ;; esac
  kill -0 "$pid" 2>/dev/null || rm -rf "$d"
done
# the supervisor binary is private to this invocation (a concurrent check must not rebuild it while it runs)
VSUP="$VERIF/.build/vsup.$$"
trap 'rm -f "$VSUP" "$VSUP.log"' EXIT
if ! go build -o "$VSUP" ./cmd/vsup 2> "$VSUP.log"; then
  echo "cannot build the supervisor:"; cat "$VSUP.log"; exit 2
fi
if [ "${1:-}" = "replay" ]; then
  RP="$2"
  case "$RP" in /*) ;; *) RP="$ORIG/$RP" ;; esac
  "$VSUP" -verif "$VERIF" -replay "$RP"
  exit $?
fi
ID="${1:?property id}"
TIER="${2:-${VERIF_TIER:-quick}}"
"$VSUP" -verif "$VERIF" -prop "$ID" -tier "$TIER" -seed "${VERIF_SEED:-1}"
exit $?
