#!/bin/bash
# Builds the supervisor and warms the Go build cache (amd64, amd64 -race, amd64 -cover, 386) so that the first check is fast.
set -u
VERIF="$(cd "$(dirname "${BASH_SOURCE[0]}")" && pwd)"
export GOFLAGS=-mod=mod GOPROXY=off GOSUMDB=off GOTOOLCHAIN=local
cd "$VERIF/harness" || exit 1
mkdir -p "$VERIF/.build/setup" "$VERIF/evidence" "$VERIF/replays"
go build -o "$VERIF/.build/vsup" ./cmd/vsup || exit 1
go build -tags verif -o "$VERIF/.build/setup/worker" ./cmd/worker || exit 1
go build -tags verif -race -o "$VERIF/.build/setup/worker-race" ./cmd/worker || exit 1
go build -tags verif -cover -coverpkg=github.com/DanielSvub/anytype,verifharness/cmd/worker -o "$VERIF/.build/setup/worker-cov" ./cmd/worker || exit 1
GOARCH=386 CGO_ENABLED=0 go build -tags verif -o "$VERIF/.build/setup/worker-386" ./cmd/worker || exit 1
rm -rf "$VERIF/.build/setup"
echo "setup ok"
